#!/bin/sh
# MANIFEST.setup_cmd: build the IR exporter from source on disk (offline).
set -e
cd "$(dirname "$0")"
mkdir -p build evidence evidence/replay
clang++ $(llvm-config-14 --cxxflags) -fno-rtti -O1 sa/irx/irx.cc -o build/irx /usr/lib/llvm-14/lib/libLLVM-14.so
echo "irx built"
