/* positive controls for E5 TAINT and the byte-map loop evaluation */
#include <stdio.h>
#include <string.h>
typedef struct { char *name; char method[6]; int size; } Hdr;
extern void safe_printf(const char *fmt, ...);
void print_ok(Hdr *h) { safe_printf("%s", h->name); printf("%d\n", h->size); }
void print_bad(Hdr *h) { printf("%s", h->name); }
void print_bad2(Hdr *h) { char buf[64]; strcpy(buf, "x: "); strcat(buf, h->method); puts(buf); }
void scrub_ok(unsigned char *s) { unsigned char *p; for (p = s; *p != 0; ++p) { if (*p < 0x20 || *p >= 0x7f) *p = '?'; } }
void scrub_bad(unsigned char *s) { unsigned char *p; for (p = s; *p != 0; ++p) { if (*p < 0x20 || *p > 0x7f) *p = '?'; } }
/* numbers printed as bytes (C18 R4): harmless as %d, an archive byte as %c or through a static buffer */
static const char *tag_of(int os) { static char t[8]; if (os == 'U') return "[unix]"; sprintf(t, "[%c]", os); return t; }
void byte_ok(Hdr *h) { char b[16]; sprintf(b, "%d", h->size); printf("%s %5d\n", b, h->size); }
void byte_bad(Hdr *h) { printf("%c", h->size); }
void byte_bad2(Hdr *h) { printf("%-10s", tag_of(h->size)); }
