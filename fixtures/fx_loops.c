/* positive controls for E8 LOOPS */
extern int do_read(void *h, void *buf, unsigned n);
int counted(int n) { int i, s = 0; for (i = 0; i < n; ++i) s += i; return s; }
int skip_ok(void *h, unsigned bytes) { char b[32]; while (bytes > 0) { unsigned len = bytes > 32 ? 32 : bytes; int r = do_read(h, b, len); if (r <= 0) return 0; bytes -= (unsigned) r; } return 1; }
int skip_bad(void *h, unsigned bytes) { char b[32]; while (bytes > 0) { unsigned len = bytes > 32 ? 32 : bytes; int r = do_read(h, b, len); if (r < 0) return 0; bytes -= (unsigned) r; } return 1; }
