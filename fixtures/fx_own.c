/* positive controls for E6 OWN */
#include <stdlib.h>
#include <string.h>
extern int work(char *);
int leak_bad(int n) { char *p = malloc(n); if (p == NULL) return 0; if (!work(p)) return 0; free(p); return 1; }
int leak_ok(int n) { char *p = malloc(n); if (p == NULL) return 0; if (!work(p)) { free(p); return 0; } free(p); return 1; }
int deref_bad(int n) { char *p = malloc(n); p[0] = 0; free(p); return 1; }
int deref_ok(int n) { char *p = malloc(n); if (p == NULL) return 0; p[0] = 0; free(p); return 1; }
/* NULL-by-construction typestate (nullstate.py): the field store in set_path is fine before the dispatched decoder ran, not after */
struct Obj { char *name; char *path; };
typedef void (*dec_fn)(struct Obj *, const char *);
static void set_path(struct Obj *o, const char *s) { o->path = strdup(s); }
static void dec_path(struct Obj *o, const char *s) { free(o->path); o->path = strdup(s); }
static void dec_name(struct Obj *o, const char *s) { free(o->name); o->name = strdup(s); }
static const dec_fn dec_table[] = { dec_path, dec_name };
struct Obj *ctor_ok(const char *s, int k) { struct Obj *o = calloc(1, sizeof *o); if (o == NULL) return NULL; set_path(o, s); dec_table[k](o, s); return o; }
struct Obj *ctor_bad(const char *s, int k) { struct Obj *o = calloc(1, sizeof *o); if (o == NULL) return NULL; dec_table[k](o, s); set_path(o, s); return o; }
/* a constructor returning `object or NULL` through one merged return: the failure way must release (OWN reads the return phi by the edge taken) */
char *new_bad(int n) { char *p = malloc(n); if (p == NULL) return NULL; if (n == 7 || work(p)) return p; return NULL; }
char *new_ok(int n) { char *p = malloc(n); if (p == NULL) return NULL; if (n != 7 && !work(p)) { free(p); return NULL; } return p; }
