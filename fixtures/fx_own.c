/* positive controls for E6 OWN */
#include <stdlib.h>
#include <string.h>
extern int work(char *);
int leak_bad(int n) { char *p = malloc(n); if (p == NULL) return 0; if (!work(p)) return 0; free(p); return 1; }
int leak_ok(int n) { char *p = malloc(n); if (p == NULL) return 0; if (!work(p)) { free(p); return 0; } free(p); return 1; }
int deref_bad(int n) { char *p = malloc(n); p[0] = 0; free(p); return 1; }
int deref_ok(int n) { char *p = malloc(n); if (p == NULL) return 0; p[0] = 0; free(p); return 1; }
