/* positive controls for E3 RANGE */
#include <stdint.h>
typedef struct { uint8_t ring[256]; unsigned pos; uint8_t tab[16]; } St;
typedef unsigned long (*Cb)(void *buf, unsigned long n, void *u);
typedef struct { Cb callback; void *u; } Rd;
int idx_ok(St *s, unsigned n) { if (n > 15) n = 15; return s->tab[n]; }
int idx_bad(St *s, unsigned n) { if (n > 16) n = 16; return s->tab[n]; }
void ring_ok(St *s, uint8_t b) { s->ring[s->pos] = b; s->pos = (s->pos + 1) % 256; }
void ring_bad(St *s, uint8_t b) { s->ring[s->pos] = b; s->pos = (s->pos + 1) % 257; }
unsigned long cb_ok(Rd *r) { uint8_t buf[4]; return r->callback(buf, 4, r->u); }
unsigned long cb_bad(Rd *r) { uint8_t buf[4]; return r->callback(buf, 5, r->u); }
