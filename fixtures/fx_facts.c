/* positive controls for E2 FACTS / paths / callgraph */
extern int check(int);
extern int crc_ok(void);
extern void use(int *);
extern int unlink(const char *);
struct S { int flags; int eof; };

int guarded_ok(int *p, int n) { if (!check(n)) return 0; use(p); return 1; }
int guarded_bad(int *p, int n) { if (n > 3) { if (!check(n)) return 0; } use(p); return 1; }

int ret_ok(struct S *s) { if ((s->flags & 4) && !crc_ok()) return 0; return 1; }
int ret_bad(struct S *s) { if ((s->flags & 4) && s->eof && !crc_ok()) return 0; return 1; }

static void helper_mut(const char *p) { unlink(p); }
static void helper_ro(const char *p) { (void) p; }
void entry_ro(const char *p) { helper_ro(p); }
void entry_mut(const char *p) { helper_mut(p); }

/* end-indexed strings (C08 R3b) */
extern unsigned long strlen(const char *);
void strip_bad(char *s) { unsigned long n = strlen(s); while (s[n - 1] == '/') { --n; s[n] = 0; } }
void strip_ok(char *s) { unsigned long n = strlen(s); while (n > 0 && s[n - 1] == '/') { --n; s[n] = 0; } }
/* flags carried through helper return values and selects (paths.py correlate) */
extern void touch(char *);
static int has_low(const char *s) { unsigned i; for (i = 0; s[i] != 0; ++i) { if (s[i] >= 'a') return 1; } return 0; }
void flagsel_ok(char *a, char *b) { int all = 1; if (a != 0 && has_low(a)) all = 0; if (all && b != 0 && has_low(b)) all = 0; if (all) touch(a); }
void flagsel_bad(char *a, char *b) { int all = 1; if (a != 0 && has_low(a)) all = 0; if (b != 0 && has_low(b)) all = 1; if (all) touch(a); }
/* the same in pointer form: a cursor walking from the end of the string towards its start */
void strip_ptr_bad(char *s) { char *e = s + strlen(s) - 1; while (*e == '/') { *e = 0; --e; } }
void strip_ptr_ok(char *s) { char *e = s + strlen(s) - 1; while (e >= s && *e == '/') { *e = 0; --e; } }
/* unbounded string writers into fixed buffers (C08 R6) */
extern int sprintf(char *, const char *, ...);
extern char *strcpy(char *, const char *);
void fmt_bad(double x) { char b[8]; sprintf(b, "%5.1f%%", x); touch(b); }
void fmt_ok(int i) { char b[24]; sprintf(b, "%d/%3u", i, (unsigned) i); touch(b); }
void fmt_s_bad(char *s) { char b[32]; sprintf(b, "%s", s); touch(b); }
void fmt_s_ok(char *s) { char b[32]; sprintf(b, "[%.20s]", s); touch(b); }
void cpy_bad(char *s) { char b[8]; strcpy(b, s); touch(b); }
void cpy_ok(void) { char b[8]; strcpy(b, "abcdefg"); touch(b); }
struct WithBuf { int a; char name[8]; int z; };
void fld_bad(struct WithBuf *w, int i) { sprintf(w->name, "%d", i); }
void fld_ok(struct WithBuf *w, int i) { sprintf(w->name, "%c%c", i, i); }
/* integer division (C08 R7): the divisor must be shown non-zero where it is used */
unsigned div_bad(unsigned a, unsigned b) { if (b == 0) return 0; if (a > 100) b /= 4; return a / b; }
unsigned div_ok(unsigned a, unsigned b) { if (a > 100) b /= 4; if (b == 0) return 0; return a / b; }
unsigned div_ok2(unsigned a, unsigned b) { unsigned f = 1 + b / 58; return (a + f - 1) / f; }
/* <ctype.h> table lookups (C08 R7c): a widened byte is a valid index, arithmetic on it is not */
#include <ctype.h>
int ct_ok(const unsigned char *p) { return islower((int) *p) != 0; }
int ct_bad(const char *p) { return islower(*p * 2) != 0; }
