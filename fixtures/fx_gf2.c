/* positive controls for E4 GF2 */
#include <stdint.h>
uint16_t le16_ok(uint8_t *b) { return (uint16_t) (b[0] | (b[1] << 8)); }
uint16_t le16_bad(uint8_t *b) { return (uint16_t) (b[0] | ((b[1] & 0x7f) << 8)); }
