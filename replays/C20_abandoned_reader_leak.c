#include <stdio.h>
#include <stdlib.h>
#include <string.h>
#include <unistd.h>
#include "lha_reader.h"
int main(int argc, char **argv) {
  int stop_after = atoi(argv[2]);
  LHAInputStream *s = lha_input_stream_from(argv[1]);
  LHAReader *r = lha_reader_new(s);
  LHAFileHeader *h; int n = 0;
  chdir(argv[3]);
  while ((h = lha_reader_next_file(r)) != NULL) {
    lha_reader_extract(r, NULL, NULL, NULL);
    printf("entry %d fake=%d path=%s name=%s\n", n, lha_reader_current_is_fake(r), h->path?h->path:"-", h->filename?h->filename:"-");
    if (++n == stop_after) break;
  }
  lha_reader_free(r); lha_input_stream_free(s);
  return 0;
}
