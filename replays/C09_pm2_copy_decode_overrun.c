#include <stdio.h>
#include <stdlib.h>
#include <string.h>
#include <stdint.h>
#include "lha_decoder.h"
static uint8_t in[64]; static size_t pos;
static size_t cb(void *buf, size_t n, void *u) { size_t k = sizeof(in) - pos < n ? sizeof(in) - pos : n; memcpy(buf, in + pos, k); pos += k; return k; }
int main(int argc, char **argv) {
  unsigned seed0 = atoi(argv[1]), n = atoi(argv[2]);
  for (unsigned s = seed0; s < seed0 + n; s++) {
    srand(s); for (size_t i = 0; i < sizeof(in); i++) in[i] = rand();
    /* bias: first bits = 0 11110 000 -> num_codes 30, min_code_length 0 */
    in[0] = 0x78; in[1] &= 0x7f; 
    pos = 0;
    LHADecoder *d = lha_decoder_new(lha_decoder_for_name("-pm2-"), cb, NULL, 100000);
    uint8_t out[512]; size_t r, tot = 0;
    while ((r = lha_decoder_read(d, out, sizeof(out))) > 0 && tot < 20000) tot += r;
    lha_decoder_free(d);
  }
  printf("done\n"); return 0;
}
