#include <stdio.h>
#include <stdlib.h>
#include <string.h>
#include "lha_reader.h"
static int fail_at = -1, count = 0;
void *__real_malloc(size_t n);
void *__wrap_malloc(size_t n) { if (++count == fail_at) return NULL; return __real_malloc(n); }
int main(int argc, char **argv) {
  fail_at = atoi(argv[2]);
  LHAInputStream *s = lha_input_stream_from(argv[1]);
  LHAReader *r = lha_reader_new(s);
  LHAFileHeader *h;
  while ((h = lha_reader_next_file(r)) != NULL) {
    printf("hdr path=%s name=%s\n", h->path ? h->path : "(null)", h->filename ? h->filename : "(null)");
  }
  printf("mallocs=%d\n", count);
  lha_reader_free(r); lha_input_stream_free(s);
  return 0;
}
