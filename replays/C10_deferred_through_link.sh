#!/bin/sh
# Replay of the genuine C10 defect recorded as a known finding (rule C10 R4d): on the UNCHANGED tree, extraction replaces a file
# outside the extraction directory.  usage: C10_deferred_through_link.sh [path to lha]   (default /repo/src/lha); exit 1 = defect shown
LHA=${1:-/repo/src/lha}
here=$(cd "$(dirname "$0")" && pwd)
T=$(mktemp -d) || exit 2
trap 'rm -rf "$T"' EXIT
mkdir -p "$T/root" "$T/outside"
echo precious > "$T/outside/x"
# real/ ; dddddddd -> real (harmless) ; s -> dddddddd (harmless) ; s/x -> ABS (deferred, path length 3) ; dddddddd -> OUTSIDE (deferred, length 8: created first)
python3 "$here/C10_deferred_gen.py" "$T/a.lzh" d:real l:dddddddd:real l:s:dddddddd "l:s/x:$T/whatever" "l:dddddddd:$T/outside" || exit 2
(cd "$T/root" && "$LHA" xf "$T/a.lzh" >/dev/null 2>&1)
if [ -L "$T/outside/x" ] || [ "$(cat "$T/outside/x" 2>/dev/null)" != "precious" ]; then
	echo "DEFECT: $T/outside/x (outside the extraction directory) was replaced: $(ls -l "$T/outside/x" 2>&1)"
	exit 1
fi
echo "outside/x untouched"
exit 0
