#!/usr/bin/env python3
"""Tiny generator for level-0 LHA archives with a Unix extended area.

Usage: gen.py OUT.lzh SPEC...
  SPEC is one of
     d:PATH            directory entry   (PATH gets a trailing '/')
     D:NAME            directory entry, NAME stored verbatim (no '/' added)
     l:PATH:TARGET     symbolic link     (stored as -lhd- "PATH|TARGET")
     f:PATH:CONTENT    stored (-lh0-) regular file
"""
import struct
import sys


def crc16(data):
    crc = 0
    for b in data:
        crc ^= b
        for _ in range(8):
            crc = (crc >> 1) ^ 0xA001 if crc & 1 else crc >> 1
    return crc


def entry(method, name, mode, data=b""):
    name = name.encode("latin-1")
    ext = struct.pack("<BBIHHH", 0x55, 0, 0x4B3D3B00, mode, 1000, 1000)
    body = method
    body += struct.pack("<II", len(data), len(data))
    body += struct.pack("<I", 0x42437800)      # MS-DOS ftime
    body += bytes([0x20, 0])                   # attribute, header level 0
    body += bytes([len(name)]) + name
    body += struct.pack("<H", crc16(data))
    body += ext
    assert len(body) < 256
    return bytes([len(body), sum(body) & 0xFF]) + body + data


def main():
    out = sys.argv[1]
    blob = b""
    for spec in sys.argv[2:]:
        kind, rest = spec.split(":", 1)
        if kind == "d":
            blob += entry(b"-lhd-", rest.rstrip("/") + "/", 0o040755)
        elif kind == "D":
            blob += entry(b"-lhd-", rest, 0o040777)
        elif kind == "l":
            path, target = rest.split(":", 1)
            blob += entry(b"-lhd-", path + "|" + target, 0o120777)
        elif kind == "f":
            path, content = rest.split(":", 1)
            blob += entry(b"-lh0-", path, 0o100644, content.encode())
        else:
            raise SystemExit("bad spec " + spec)
    blob += b"\0"
    with open(out, "wb") as f:
        f.write(blob)


if __name__ == "__main__":
    main()
