/* replay: lha_crc16_buf with buf_len >= 2^32: the 32-bit loop counter wraps before reaching the bound and the call never returns.
   The buffer is an anonymous zero mapping (pages are shared zero pages, nothing is written). */
#include <stdio.h>
#include <stdint.h>
#include <stdlib.h>
#include <signal.h>
#include <unistd.h>
#include <sys/mman.h>
#include "crc16.h"
static void on_alarm(int s) { (void) s; static const char m[] = "TIMEOUT: lha_crc16_buf did not return within 90 s\n"; write(1, m, sizeof m - 1); _exit(1); }
int main(void) {
	size_t len = ((size_t) 1 << 32) + 16;
	uint8_t *buf = mmap(NULL, len, PROT_READ, MAP_PRIVATE | MAP_ANONYMOUS | MAP_NORESERVE, -1, 0);
	uint16_t crc = 0x1234, ref = 0x1234;
	if (buf == MAP_FAILED) { perror("mmap"); return 2; }
	signal(SIGALRM, on_alarm); alarm(90);
	lha_crc16_buf(&crc, buf, len);
	/* reference: CRC-16/ARC of len zero bytes from state 0x1234, bitwise */
	{ size_t i; int b; for (i = 0; i < len; ++i) { for (b = 0; b < 8; ++b) ref = (ref & 1) ? (ref >> 1) ^ 0xA001 : ref >> 1; } }
	printf("crc=%04x ref=%04x\n", crc, ref);
	return crc == ref ? 0 : 1;
}
