#include <stdio.h>
#include <stdlib.h>
#include <string.h>
#include "lha_reader.h"
static unsigned char *data; static size_t len, pos; static long reads;
static int rd(void *h, void *buf, size_t n) { reads++; if (reads > 1000000) { printf("HANG: >1e6 reads\n"); exit(3);} size_t k = len - pos < n ? len - pos : n; memcpy(buf, data + pos, k); pos += k; return (int) k; }
static LHAInputStreamType t = { rd, NULL, NULL };
int main(int argc, char **argv) {
  FILE *f = fopen(argv[1], "rb"); data = malloc(1<<20); len = fread(data, 1, 1<<20, f); fclose(f);
  len = atoi(argv[2]);
  LHAInputStream *s = lha_input_stream_new(&t, NULL);
  LHAReader *r = lha_reader_new(s); LHAFileHeader *h; int n = 0;
  while ((h = lha_reader_next_file(r)) != NULL) n++;
  printf("members=%d reads=%ld\n", n, reads);
  lha_reader_free(r); lha_input_stream_free(s); return 0;
}
