/* replay: -lz5- stream ending in the middle of a copy command: cmd[1] is read uninitialised.
   The same stream decoded with two read schedules (the caller does unrelated work between reads) gives different bytes. */
#include <stdio.h>
#include <string.h>
#include <stdlib.h>
#include "lha_decoder.h"
static const unsigned char stream[] = { 0x00, 0,0x0f, 0,0x0f, 0,0x0f, 0,0x0f, 0,0x0f, 0,0x0f, 0,0x0f, 0,0x0f,  0x00, 0x10 /* copy command cut after its first byte */ };
static size_t pos;
static size_t cb(void *buf, size_t n, void *u) { size_t left = sizeof(stream) - pos; if (n > left) n = left; memcpy(buf, stream + pos, n); pos += n; return n; }
static void scribble(int v) { volatile unsigned char junk[16384]; size_t k; for (k = 0; k < sizeof(junk); ++k) junk[k] = (unsigned char) v; }
static size_t run(int split, unsigned char *out) {
	LHADecoder *d; size_t n = 0, r;
	pos = 0;
	d = lha_decoder_new(lha_decoder_for_name("-lz5-"), cb, NULL, 1000);
	if (split) { r = lha_decoder_read(d, out, 100); n += r; scribble(0xEE); }
	else scribble(0x11);
	while ((r = lha_decoder_read(d, out + n, 1000 - n)) > 0) n += r;
	lha_decoder_free(d);
	return n;
}
int main(void) {
	unsigned char a[1024], b[1024]; size_t na, nb, i;
	memset(a, 0, sizeof a); memset(b, 0, sizeof b);
	na = run(0, a); nb = run(1, b);
	printf("single: %zu bytes:", na); for (i = 144; i < na; ++i) printf(" %02x", a[i]); printf("\n");
	printf("split : %zu bytes:", nb); for (i = 144; i < nb; ++i) printf(" %02x", b[i]); printf("\n");
	if (na != nb || memcmp(a, b, na)) { printf("DIFFERENT\n"); return 1; }
	printf("same\n"); return 0;
}
