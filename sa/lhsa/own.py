"""E6 OWN: allocation / ownership / release rules.

Vocabulary
  allocator      external function returning a fresh owned object (malloc, calloc, realloc, strdup, fopen, fdopen)
  returns-owned  defined function some of whose returned values are (zero-offset aliases of) an allocator /
                 returns-owned call result in its body
  releaser       free, fclose, and defined functions that may release their k-th parameter
  consume kind   what passing an owned pointer as argument k of a call does to the caller's obligation:
                 "none" | "always" | "on_result" (stored inside the object the callee returns: consumed iff result != NULL)
"""
from .ir import field_of_gep, Module
from .facts import Facts, Matcher, is_const, const_val
from .mem import root

EXT_ALLOC = {"malloc", "calloc", "realloc", "strdup", "strndup", "fopen", "fdopen", "fopen64", "tmpfile"}
EXT_RELEASE = {"free": 0, "fclose": 0, "realloc": 0}
NULL_TOLERANT = {"free"}


def zero_alias_closure(fn, vid):
    """SSA ids that are the same pointer as vid (bitcast, all-zero GEP, phi/select containing it,
    and loads of a local slot (alloca) into which it was stored)"""
    out = {vid}
    work = [vid]
    while work:
        x = work.pop()
        for u in fn.users(x):
            ok = False
            if u.op == "store" and u.ops[0] == ("v", x):
                r = root(fn, u.ops[1])
                if r[0] == "alloca" and r[2] == 0:
                    for l in fn.insts():
                        if l.op == "load" and l.id not in out and root(fn, l.ops[0]) == r and l.ty == fn.vals[x].ty:
                            out.add(l.id)
                            work.append(l.id)
                continue
            if u.op == "bitcast" and u.ops[0] == ("v", x):
                ok = True
            elif u.op == "getelementptr" and u.ops[0] == ("v", x) and all(
                    st["k"] != "field" and st.get("idx", ("ci", 1, 0))[0] == "ci" and st["idx"][1] == 0 for st in u.steps):
                ok = True
            elif u.op == "phi" and any(v == ("v", x) for v, _ in u.incoming):
                ok = True
            elif u.op == "select" and ("v", x) in u.ops[1:]:
                ok = True
            if ok and u.id not in out:
                out.add(u.id)
                work.append(u.id)
    return out


def derived_closure(fn, vid):
    """SSA ids derived from pointer vid by any GEP/bitcast/phi/select (interior pointers included)"""
    out = {vid}
    work = [vid]
    while work:
        x = work.pop()
        for u in fn.users(x):
            ok = False
            if u.op in ("bitcast", "getelementptr") and u.ops[0] == ("v", x):
                ok = True
            elif u.op == "phi" and any(v == ("v", x) for v, _ in u.incoming):
                ok = True
            elif u.op == "select" and ("v", x) in u.ops[1:]:
                ok = True
            if ok and u.id not in out:
                out.add(u.id)
                work.append(u.id)
    return out


class Ownership:
    def __init__(self, mod, cg):
        self.mod = mod
        self.cg = cg
        self._returns_owned = None
        self._consume = {}
        self.compute_returns_owned()

    # ---- allocators -------------------------------------------------------------
    def is_alloc_call(self, i):
        if i.op != "call" or not i.callee:
            return False
        if i.callee in EXT_ALLOC:
            return True
        f = self.mod.functions.get(i.callee)
        return f is not None and not f.decl and f.name in self._returns_owned

    def compute_returns_owned(self):
        self._returns_owned = set()
        changed = True
        while changed:
            changed = False
            for fn in self.mod.defined():
                if fn.name in self._returns_owned or not fn.ret.endswith("*"):
                    continue
                F = None
                for r in fn.insts():
                    if r.op != "ret" or not r.ops:
                        continue
                    # sources of the returned value through phi/select/bitcast
                    seen = set()
                    work = [r.ops[0]]
                    while work:
                        o = work.pop()
                        d = fn.defn(o)
                        if d is None or d.is_param or d.id in seen:
                            continue
                        seen.add(d.id)
                        if d.op == "phi":
                            work.extend(v for v, _ in d.incoming)
                        elif d.op == "select":
                            work.extend(d.ops[1:])
                        elif d.op == "bitcast":
                            work.append(d.ops[0])
                        elif d.op == "load":
                            rr = root(fn, d.ops[0])
                            if rr[0] == "alloca" and rr[2] == 0:
                                for st in fn.insts():
                                    if st.op == "store" and root(fn, st.ops[1]) == rr:
                                        work.append(st.ops[0])
                        elif d.op == "call" and self.is_alloc_call(d):
                            # the object was also put into a field of some other object (`r->curr = h; return h;`): the field owns it, what is
                            # returned is a borrowed alias - exactly as if the function had returned a load of that field
                            kept = False
                            for st in fn.insts():
                                if st.op == "store" and fn.defn(st.ops[0]) is not None and d.id in zero_alias_closure(fn, d.id) and \
                                        getattr(fn.defn(st.ops[0]), "id", None) in zero_alias_closure(fn, d.id):
                                    rr = root(fn, st.ops[1])
                                    if rr[0] in ("param", "load") and rr[2] is not None:
                                        kept = True
                            if kept:
                                continue
                            if fn.name not in self._returns_owned:
                                self._returns_owned.add(fn.name)
                                changed = True
        return self._returns_owned

    # ---- consumption summaries -----------------------------------------------------
    def consume_kind(self, callee_name, k, _stack=()):
        key = (callee_name, k)
        if key in self._consume:
            return self._consume[key]
        if key in _stack:
            return "none"
        f = self.mod.functions.get(callee_name)
        if f is None:
            return "always"       # unknown external: assume it may take it
        if f.decl:
            r = "always" if EXT_RELEASE.get(callee_name) == k else "none"
            self._consume[key] = r
            return r
        if k >= len(f.params):
            return "none"
        res = "none"
        vals = zero_alias_closure(f, f.params[k].id)
        F = Facts(f)
        M = Matcher(f)
        for v in vals:
            for u in f.users(v):
                if u.op == "call":
                    for ai, a in enumerate(u.ops):
                        if a == ("v", v):
                            targets = [u.callee] if u.callee else [t for (ins, rs, how) in self.cg.indirect if ins is u for t in rs if t != "<unknown-external>"]
                            for t in targets:
                                ck = self.consume_kind(t, ai, _stack + (key,))
                                if ck != "none":
                                    res = "always" if res != "on_result" or ck == "always" else res
                                    if ck == "always":
                                        res = "always"
                elif u.op == "store" and u.ops[0] == ("v", v):
                    # stored into memory: where?
                    r = root(f, u.ops[1])
                    if r[0] == "call" and self.is_alloc_call(f.vals[r[1]]) and f.name in self._returns_owned:
                        if res == "none":
                            res = "on_result"
                    elif r[0] == "alloca":
                        pass   # local variable: not an escape by itself
                    else:
                        res = "always"
                elif u.op == "ret":
                    res = "always"
        self._consume[key] = res
        return res

    # ---- local ownership ------------------------------------------------------------------
    def leak_paths(self, fn, alloc, F=None):
        """Forward search from the allocation: is a function exit reachable while the object is still
        owned by this function?  Returns list of (ret instruction, path description)."""
        F = F or Facts(fn)
        M = Matcher(fn)
        aliases = zero_alias_closure(fn, alloc.id)
        interior = derived_closure(fn, alloc.id)
        leaks = []

        def discharge(i, pending):
            """returns new state after instruction i: 'done' | ('pending', callid) | None (unchanged)"""
            if i.op == "ret" and i.ops and i.ops[0][0] == "v" and i.ops[0][1] in aliases:
                return "done"
            if i.op == "store" and i.ops[0][0] == "v" and i.ops[0][1] in aliases:
                r = root(fn, i.ops[1])
                if r[0] == "alloca":
                    # stored into a local slot (not promoted because its address escapes): follow loads of it? treat as alias source
                    return None
                return "done"
            if i.op == "call":
                for k, a in enumerate(i.ops):
                    if a[0] == "v" and a[1] in aliases:
                        if i.callee:
                            ck = self.consume_kind(i.callee, k)
                        else:
                            ck = "none"
                            for (ins, rs, how) in self.cg.indirect:
                                if ins is i:
                                    for t in rs:
                                        if t != "<unknown-external>" and self.consume_kind(t, k) != "none":
                                            ck = "always"
                        if ck == "always":
                            return "done"
                        if ck == "on_result":
                            return ("pending", i.id)
            return None

        # state: (block, index, pending) ; explore instruction by instruction
        start = (alloc.block.id, alloc.idx + 1, None)
        seen = set()
        work = [(start, [alloc.block.id])]
        null_pat = ("eq", ("inst", alloc.id), 0)
        while work:
            (b, idx, pend), path = work.pop()
            blk = fn.blocks[b]
            # a return of `phi [object, A], [NULL, B]` hands the object out only when the block is entered from A: the phi is read by the edge taken
            pred = path[-2] if len(path) > 1 else None
            rphi = None
            last = blk.insts[-1] if blk.insts else None
            if last is not None and last.op == "ret" and last.ops and last.ops[0][0] == "v" and pred is not None:
                dphi = fn.defn(last.ops[0])
                if dphi is not None and not dphi.is_param and dphi.op == "phi" and dphi.block.id == b:
                    rphi = dphi
            key = (b, idx, pend, pred if rphi is not None else None)
            if key in seen:
                continue
            seen.add(key)
            state = pend
            done = False
            for i in blk.insts[idx:]:
                if i.op == "ret" and rphi is not None:
                    inc = [v for v, pb in rphi.incoming if pb == pred]
                    if inc and all(not (v[0] == "v" and v[1] in aliases) for v in inc):
                        # something else (NULL, a status) is returned on this way in: the object is still ours at the exit
                        if state is None or state != "consumed":
                            leaks.append((i, path))
                        done = True
                        break
                d = discharge(i, state)
                if d == "done":
                    done = True
                    break
                if d is not None:
                    state = d[1]
                if i.op == "ret":
                    # still ours - or handed to a constructor-like callee whose result was never tested: if that call failed the object
                    # was not taken over, and nobody is left to release it
                    if state is None or (state is not None and state != "consumed"):
                        leaks.append((i, path))
                    done = True
                    break
                if i.op == "unreachable":
                    done = True
                    break
                if i.op == "call" and (i.callee in ("exit", "abort", "_exit")):
                    done = True
                    break
            if done:
                continue
            for s in blk.succs:
                ef = F.edge_facts(b, s)
                # the NULL edge of the allocation itself: nothing to release
                if any(M.match_fact(null_pat, f, {}) is not None for f in ef) or \
                   any(f[0] == "eq" and is_const(f[2]) and const_val(f[2]) == 0 and f[1][0] == "v" and f[1][1] in aliases for f in ef):
                    continue
                st2 = state
                if state is not None:
                    for f in ef:
                        if f[1] == ("v", state) and is_const(f[2]) and const_val(f[2]) == 0:
                            if f[0] == "eq":
                                st2 = None       # callee failed: still ours
                            elif f[0] == "ne":
                                st2 = "consumed"
                if st2 == "consumed":
                    continue
                work.append(((s, 0, st2), path + [s]))
        return leaks

    # ---- NULL-check discipline ---------------------------------------------------------------
    def unchecked_derefs(self, fn, alloc, F=None):
        """uses of the allocation result that dereference it where 'result != NULL' is not an available fact"""
        F = F or Facts(fn)
        M = Matcher(fn)
        pat = ("ne", ("inst", alloc.id), 0)
        # derived pointers; a phi is entered only if some incoming edge carrying the pointer lacks the
        # fact 'result != NULL' (otherwise the merged value is the checked pointer or something else)
        vals = {alloc.id}
        work = [alloc.id]
        while work:
            x = work.pop()
            for u in fn.users(x):
                ok = False
                if u.op in ("bitcast", "getelementptr") and u.ops[0] == ("v", x):
                    ok = True
                elif u.op == "select" and ("v", x) in u.ops[1:]:
                    ok = True
                elif u.op == "phi":
                    for v, pb in u.incoming:
                        if v == ("v", x) and M.find_fact(pat, F.on_edge(pb, u.block.id))[0] is None:
                            ok = True
                if ok and u.id not in vals:
                    vals.add(u.id)
                    work.append(u.id)
        bad = []
        for v in vals:
            for u in fn.users(v):
                deref = False
                if u.op == "load" and u.ops[0] == ("v", v):
                    deref = True
                elif u.op == "store" and u.ops[1] == ("v", v):
                    deref = True
                elif u.op == "call":
                    cn = self.mod.callee_cname(u) or ""
                    if cn in NULL_TOLERANT or cn.startswith("llvm.dbg") or cn.startswith("llvm.lifetime"):
                        continue
                    if any(a == ("v", v) for a in u.ops):
                        # passing the pointer to a callee that will dereference it
                        cf = self.mod.callee_fn(u)
                        if cf is not None and not cf.decl:
                            deref = self._callee_derefs(cf, [k for k, a in enumerate(u.ops) if a == ("v", v)])
                        else:
                            deref = cn not in ("realloc",)
                if deref:
                    f, _ = M.find_fact(pat, F.at_inst(u))
                    if f is None:
                        # also accept a NULL test on an alias (phi containing the value)
                        ok = False
                        for fct in F.at_inst(u):
                            if fct[0] == "ne" and is_const(fct[2]) and const_val(fct[2]) == 0 and fct[1][0] == "v" and fct[1][1] in zero_alias_closure(fn, alloc.id):
                                ok = True
                        if not ok:
                            bad.append(u)
        return bad

    def _callee_derefs(self, cf, ks, depth=0):
        if depth > 3:
            return True
        F = Facts(cf)
        M = Matcher(cf)
        for k in ks:
            if k >= len(cf.params):
                continue
            p = cf.params[k]
            vals = derived_closure(cf, p.id)
            for v in vals:
                for u in cf.users(v):
                    if (u.op == "load" and u.ops[0] == ("v", v)) or (u.op == "store" and u.ops[1] == ("v", v)):
                        f, _ = M.find_fact(("ne", ("param", k), 0), F.at_inst(u))
                        if f is None:
                            return True
                    elif u.op == "call" and any(a == ("v", v) for a in u.ops):
                        cn = self.mod.callee_cname(u) or ""
                        if cn in NULL_TOLERANT:
                            continue
                        f, _ = M.find_fact(("ne", ("param", k), 0), F.at_inst(u))
                        if f is None:
                            return True
        return False

    # ---- field ownership ---------------------------------------------------------------------------
    def stores_by_field(self):
        """(Struct, field) -> list of (store inst, value operand); stores through a phi of field addresses count for each"""
        out = {}
        for fn in self.mod.defined():
            for i in fn.insts():
                if i.op != "store":
                    continue
                for fo in self._addr_fields(fn, i.ops[1], set()):
                    out.setdefault(fo, []).append(i)
        return out

    def _addr_fields(self, fn, o, seen):
        d = fn.defn(o)
        if d is None or d.is_param or d.id in seen:
            return []
        seen.add(d.id)
        if d.op == "bitcast":
            return self._addr_fields(fn, d.ops[0], seen)
        if d.op == "getelementptr":
            fo = field_of_gep(self.mod, d)
            return [fo] if fo else []
        if d.op == "phi":
            r = []
            for v, _ in d.incoming:
                r += self._addr_fields(fn, v, seen)
            return r
        if d.op == "select":
            return self._addr_fields(fn, d.ops[1], seen) + self._addr_fields(fn, d.ops[2], seen)
        return []

    def value_is_fresh(self, fn, o):
        """is the stored value an alias of an allocation made in this function?"""
        seen = set()
        work = [o]
        while work:
            x = work.pop()
            d = fn.defn(x)
            if d is None or d.is_param or d.id in seen:
                continue
            seen.add(d.id)
            if d.op in ("bitcast",):
                work.append(d.ops[0])
            elif d.op == "getelementptr" and all(st["k"] != "field" and st.get("idx", ("ci", 1, 0))[0] == "ci" and st["idx"][1] == 0 for st in d.steps):
                work.append(d.ops[0])
            elif d.op == "phi":
                work.extend(v for v, _ in d.incoming)
            elif d.op == "select":
                work.extend(d.ops[1:])
            elif d.op == "load":
                rr = root(fn, d.ops[0])
                if rr[0] == "alloca" and rr[2] == 0:
                    for st in fn.insts():
                        if st.op == "store" and root(fn, st.ops[1]) == rr:
                            work.append(st.ops[0])
            elif d.op == "call" and self.is_alloc_call(d):
                return d
        return None
