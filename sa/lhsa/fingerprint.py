"""Structural fingerprints of functions, used to recognise a *pure rename*: a function of the reference tree that the rules name has
disappeared, and exactly one new function has the body the old one had.  The fingerprint covers the whole body (opcodes, types, predicates,
operand wiring, field accesses, constants, names of external callees, string literals) but none of the things a rename changes: the
function's own name, the names of other program functions it calls (replaced by '@def/<arity>') and of the globals it touches (replaced
by their type)."""
import hashlib


def fingerprint(fn):
    mod = fn.mod
    h = hashlib.sha256()

    def put(x):
        h.update(repr(x).encode())
        h.update(b"\x00")

    def opnd(o):
        k = o[0]
        if k == "v":
            return ("v", o[1])
        if k == "ci":
            return ("ci", o[1], o[2] if len(o) > 2 else 0)
        if k == "null":
            return ("null",)
        if k == "fn":
            f2 = mod.functions.get(o[1])
            return ("fn", o[1]) if f2 is None or f2.decl else ("fn", "@def/%d" % len(f2.params))
        if k == "gv":
            s = mod.const_string(o)
            if s is not None:
                return ("str", s)
            g = mod.globals.get(o[1], {})
            return ("gv", g.get("ty"))
        if k == "ce":
            s = mod.const_string(o)
            if s is not None:
                return ("str", s)
            return ("ce", o[1].op, tuple(opnd(x) for x in o[1].ops))
        return (k,)
    put((fn.ret, tuple(p.ty for p in fn.params), fn.vararg))
    for b in fn.blocks:
        put(("bb", b.id))
        for i in b.insts:
            if i.op == "call" and (i.callee or "").startswith("llvm.dbg"):
                continue
            callee = None
            if i.op == "call":
                f2 = mod.functions.get(i.callee) if i.callee else None
                callee = "<indirect>" if i.callee is None else (i.callee if f2 is None or f2.decl else "@def/%d" % len(f2.params))
            steps = None
            if i.op == "getelementptr":
                steps = tuple((s_["k"], s_.get("struct"), s_.get("field"), opnd(s_["idx"]) if "idx" in s_ else None) for s_ in i.steps)
            inc = tuple((opnd(v), pb) for v, pb in i.incoming) if i.op == "phi" else None
            sw = (i.d.get("default"), tuple(map(tuple, i.d.get("cases", [])))) if i.op == "switch" else None
            put((i.id, i.op, i.ty, i.pred, callee, tuple(opnd(o) for o in i.ops), steps, inc, sw, tuple(i.succs or ())))
    return h.hexdigest()[:24]


def features(fn):
    """what a function is *about*, as a set that survives renaming and moderate restructuring: the external functions it calls, the struct
    members it touches, its string literals, its larger constants, its signature shape and the file it lives in.  Used only to find where
    a vanished, rule-named function has most likely gone (build._find_renames); never as evidence for a property."""
    mod = fn.mod
    out = set()
    out.add(("file", (fn.file or "").split("/")[-1]))
    out.add(("sig", fn.ret, len(fn.params)))
    for i in fn.insts():
        if i.op == "call" and i.callee and not i.callee.startswith("llvm."):
            f2 = mod.functions.get(i.callee)
            if f2 is None or f2.decl:
                out.add(("ext", i.callee))
        if i.op == "getelementptr":
            for st in i.steps:
                if st["k"] == "field":
                    try:
                        out.add(("fld", mod.struct_cname(st["struct"]), st["field"]))
                    except Exception:
                        pass
        for o in list(i.ops) + ([v for v, _ in i.incoming] if i.op == "phi" else []):
            if o[0] == "ci" and isinstance(o[1], int) and (o[1] >= 16 or o[1] < -1):
                out.add(("k", o[1]))
            if o[0] in ("gv", "ce"):
                s = mod.const_string(o)
                if s is not None:
                    out.add(("str", bytes(s[:24])))
    return out
