"""E4 GF2: bit-level affine (over GF(2)) abstract evaluation of straight-line SSA.

A bit is either TOP (None) or a pair (c, S): constant c in {0,1} XOR the input-bit
symbols in frozenset S.  A value is a list of bits, least significant first.
Symbols are introduced by the caller: sym(name, width) -> bits (0, {name[k]}).
"""
from .facts import is_const, const_val

TOP = None
ZERO = (0, frozenset())
ONE = (1, frozenset())


def bx(a, b):
    if a is TOP or b is TOP:
        return TOP
    return (a[0] ^ b[0], a[1] ^ b[1])


def is_zero(b):
    return b is not TOP and b[0] == 0 and not b[1]


def is_constbit(b):
    return b is not TOP and not b[1]


def sym(name, width):
    return [(0, frozenset([(name, k)])) for k in range(width)]


def const_bits(v, width):
    return [(ONE if (v >> k) & 1 else ZERO) for k in range(width)]


class BitEval:
    def __init__(self, fn, bindings, const_tables=None, call_model=None):
        """bindings: SSA id -> list of bits (symbols for the inputs)."""
        self.fn = fn
        self.mod = fn.mod
        self.env = dict(bindings)
        self.blame = {}          # id -> reason for TOP
        self.const_tables = const_tables or {}
        self.call_model = call_model

    def width(self, o):
        if o[0] == "ci":
            return o[2] or 64
        d = self.fn.defn(o)
        return self.mod.int_bits(d.ty) if d is not None else None

    def val(self, o, width=None):
        if o[0] == "ci":
            w = width or o[2] or 64
            return const_bits(o[1] & ((1 << w) - 1), w)
        if o[0] != "v":
            return None
        if o[1] in self.env:
            return self.env[o[1]]
        d = self.fn.defn(o)
        if d is None or d.is_param:
            return None
        r = self._eval(d)
        self.env[o[1]] = r
        return r

    def _top(self, d, why):
        w = self.mod.int_bits(d.ty) or 1
        self.blame[d.id] = "%s at %s" % (why, d.where())
        return [TOP] * w

    def _eval(self, d):
        w = self.mod.int_bits(d.ty)
        op = d.op
        if w is None:
            return None
        if op in ("zext", "sext", "trunc"):
            a = self.val(d.ops[0])
            if a is None:
                return self._top(d, "operand of %s is not bit-evaluable" % op)
            if op == "trunc":
                return a[:w]
            fill = ZERO if op == "zext" else a[-1]
            return a + [fill] * (w - len(a))
        if op in ("xor", "and", "or", "add", "sub"):
            a = self.val(d.ops[0], w)
            b = self.val(d.ops[1], w)
            if a is None or b is None:
                return self._top(d, "operand of %s is not bit-evaluable" % op)
            if op == "xor":
                return [bx(x, y) for x, y in zip(a, b)]
            if op == "and":
                out = []
                for x, y in zip(a, b):
                    if is_zero(x) or is_zero(y):
                        out.append(ZERO)
                    elif is_constbit(x) and x[0] == 1:
                        out.append(y)
                    elif is_constbit(y) and y[0] == 1:
                        out.append(x)
                    elif x is not TOP and x == y:
                        out.append(x)
                    else:
                        out.append(TOP)
                if any(o is TOP for o in out):
                    self.blame[d.id] = "non-linear and at %s" % d.where()
                return out
            if op in ("or", "add"):
                out = []
                carry_possible = False
                for x, y in zip(a, b):
                    if op == "add" and carry_possible:
                        out.append(TOP)
                        continue
                    if is_zero(x):
                        out.append(y)
                    elif is_zero(y):
                        out.append(x)
                    elif op == "or" and is_constbit(x) and is_constbit(y):
                        out.append(ONE if (x[0] | y[0]) else ZERO)
                    elif op == "or" and x is not TOP and x == y:
                        out.append(x)
                    elif op == "or" and ((is_constbit(x) and x[0] == 1) or (is_constbit(y) and y[0] == 1)):
                        out.append(ONE)
                    else:
                        out.append(TOP)
                        carry_possible = True
                if any(o is TOP for o in out):
                    self.blame[d.id] = "overlapping %s at %s" % (op, d.where())
                return out
            return self._top(d, "sub is not bit-linear")
        if op in ("shl", "lshr", "ashr"):
            a = self.val(d.ops[0], w)
            if a is None or not is_const(d.ops[1]):
                return self._top(d, "shift by a non-constant")
            k = const_val(d.ops[1])
            if k >= w:
                return [ZERO] * w
            if op == "shl":
                return [ZERO] * k + a[:w - k]
            fill = ZERO if op == "lshr" else a[-1]
            return a[k:] + [fill] * k
        if op == "icmp" and d.pred in ("ne", "eq") and is_const(d.ops[1]) and const_val(d.ops[1]) == 0:
            a = self.val(d.ops[0])
            if a is None:
                return self._top(d, "operand of icmp not bit-evaluable")
            nz = [x for x in a if not is_zero(x)]
            if len(nz) == 0:
                return [ZERO if d.pred == "ne" else ONE]
            if len(nz) == 1 and nz[0] is not TOP:
                return [nz[0] if d.pred == "ne" else bx(nz[0], ONE)]
            return self._top(d, "icmp over several live bits")
        if op == "load":
            # constant table lookup T[index] with T affine in the index bits
            r = self._table_load(d)
            if r is not None:
                return r
            return self._top(d, "load that is neither an input nor an affine constant table")
        if op == "call" and self.call_model is not None:
            r = self.call_model(d)
            if r is not None:
                return r
            return self._top(d, "call without a bit-level model")
        if op == "select":
            return self._top(d, "select")
        if op == "phi":
            return self._top(d, "phi (not straight-line)")
        return self._top(d, "operation %s is not bit-linear" % op)

    def _table_load(self, d):
        a = self.fn.defn(d.ops[0])
        if a is None or a.is_param or a.op != "getelementptr" or a.ops[0][0] != "gv":
            return None
        g = self.mod.globals.get(a.ops[0][1])
        if not g or "init" not in g or g["init"]["k"] != "data":
            return None
        idxs = [st["idx"] for st in a.steps if "idx" in st]
        if len(idxs) != 2 or const_val(idxs[0]) != 0:
            return None
        elts = g["init"]["elts"]
        w = self.mod.int_bits(d.ty)
        ib = self.val(idxs[1])
        if ib is None:
            return None
        # live index bits
        live = [k for k, b in enumerate(ib) if not is_zero(b)]
        if any(ib[k] is TOP for k in live):
            return None
        n = len(elts)
        if live and (1 << (max(live) + 1)) > n:
            return None
        # affine check over the reachable index space (bits outside `live` are 0)
        t0 = elts[0]
        delta = {k: elts[1 << k] ^ t0 for k in live}
        for i in range(n):
            if any((i >> k) & 1 for k in range(n.bit_length()) if k not in live):
                continue
            v = t0
            for k in live:
                if (i >> k) & 1:
                    v ^= delta[k]
            if v != elts[i]:
                self.blame[d.id] = "table %s is not GF(2)-affine in its index at entry %d" % (g.get("cname", a.ops[0][1]), i)
                return None
        out = []
        for j in range(w):
            bit = ONE if (t0 >> j) & 1 else ZERO
            for k in live:
                if (delta[k] >> j) & 1:
                    bit = bx(bit, ib[k])
            out.append(bit)
        self.tables_used = getattr(self, "tables_used", set()) | {a.ops[0][1]}
        return out


def matrix(bits, inputs):
    """bits: list of (c,S); inputs: ordered list of symbol keys -> (const vector, rows) as python ints"""
    consts = 0
    cols = []
    for j, b in enumerate(bits):
        if b is TOP:
            return None
        consts |= b[0] << j
    rows = {}
    for s in inputs:
        r = 0
        for j, b in enumerate(bits):
            if s in b[1]:
                r |= 1 << j
        rows[s] = r
    extra = set()
    for b in bits:
        extra |= set(b[1]) - set(inputs)
    return consts, rows, extra


def crc16_arc_step(c, byte):
    c ^= byte
    for _ in range(8):
        c = (c >> 1) ^ (0xA001 if c & 1 else 0)
    return c & 0xFFFF
