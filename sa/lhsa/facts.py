"""E2 FACTS: available branch facts (forward must-dataflow), truth needs,
value sources, cut sets, and a small pattern language over SSA values.

A *fact* is (pred, a, b) with a, b operands (SSA refs or constants) and pred an
icmp predicate, normalised so that constants are on the right.  Facts refer to
SSA values, which are immutable, so facts are never killed.
"""
from .ir import CAST_OPS, Module, field_of_gep

NEG = {"eq": "ne", "ne": "eq", "ult": "uge", "uge": "ult", "ugt": "ule", "ule": "ugt",
       "slt": "sge", "sge": "slt", "sgt": "sle", "sle": "sgt"}
SWAP = {"eq": "eq", "ne": "ne", "ult": "ugt", "ugt": "ult", "ule": "uge", "uge": "ule",
        "slt": "sgt", "sgt": "slt", "sle": "sge", "sge": "sle"}


def is_const(o):
    return o[0] in ("ci", "null")


def const_val(o):
    if o[0] == "ci":
        return o[1]
    if o[0] == "null":
        return 0
    return None


def norm_fact(pred, a, b):
    if is_const(a) and not is_const(b):
        a, b, pred = b, a, SWAP[pred]
    return (pred, a, b)


_CALL_NAMES_SEEN = set()
_FIELDS_SEEN = set()


class Facts:
    def __init__(self, fn):
        self.fn = fn
        self.mod = fn.mod
        self._cond_cache = {}
        self._phase = 1
        self._inn1 = {}
        self._closed = {}
        self._compute()
        # second pass: boolean phis (`a && b` conditions) are expanded using the facts of pass 1
        self._inn1 = dict(self.inn)
        self._phase = 2
        self._cond_cache = {}
        self._compute()

    # ---- conditions -------------------------------------------------------
    def cond_facts(self, o, truth):
        """facts implied by i1 operand o having the given truth value"""
        key = (o, truth)
        if key in self._cond_cache:
            return self._cond_cache[key]
        self._cond_cache[key] = frozenset()  # recursion guard
        res = set()
        d = self.fn.defn(o)
        if d is not None and not d.is_param:
            if d.op == "icmp":
                pred = d.pred if truth else NEG[d.pred]
                a, b = d.ops
                res.add(norm_fact(pred, a, b))
                # a signed comparison of two values that cannot be negative in the comparison's width (narrow unsigned values promoted to int,
                # their sums, constants) says the same as the unsigned one: state both, so that rules written for `size_t` arithmetic read code
                # that does the same arithmetic on `uint8_t` operands promoted to `int`
                if pred in ("slt", "sle", "sgt", "sge") and self._nonneg(a) and self._nonneg(b):
                    res.add(norm_fact("u" + pred[1:], a, b))
                # (x != 0) where x is itself a boolean-like value: look through
                if is_const(b) and const_val(b) == 0 and d.pred in ("ne", "eq"):
                    inner_truth = truth if d.pred == "ne" else (not truth)
                    res |= self.cond_facts(a, inner_truth)
            elif d.op in ("zext", "sext", "trunc") :
                res |= self.cond_facts(d.ops[0], truth)
            elif d.op == "xor" and is_const(d.ops[1]) and const_val(d.ops[1]) in (1, -1, True):
                res |= self.cond_facts(d.ops[0], not truth)
            elif d.op == "and" and truth and self._is_bool(d):
                res |= self.cond_facts(d.ops[0], True) | self.cond_facts(d.ops[1], True)
            elif d.op == "or" and not truth and self._is_bool(d):
                res |= self.cond_facts(d.ops[0], False) | self.cond_facts(d.ops[1], False)
            elif d.op == "select" and self._is_bool(d):
                c, a, b = d.ops
                if truth and is_const(b) and const_val(b) == 0:
                    res |= self.cond_facts(c, True) | self.cond_facts(a, True)
                if not truth and is_const(a) and const_val(a) != 0:
                    res |= self.cond_facts(c, False) | self.cond_facts(b, False)
            elif d.op == "phi" and self._phase >= 2 and not d.ty.endswith("*"):
                # (any integer width: `int ok = helper(...); if (!ok) ...` leaves an i32 flag phi once the helper is inlined)
                # the phi is true (false) only if it came through an incoming that can be
                # true (false); facts common to all such incomings hold
                acc = None
                for v, pb in d.incoming:
                    if is_const(v) and bool(const_val(v)) != truth:
                        continue
                    fs = set(self.cond_facts(v, truth)) | set(self._inn1.get(pb, frozenset())) | set(self.edge_facts(pb, d.block.id))
                    acc = fs if acc is None else (acc & fs)
                if acc:
                    res |= acc
            if d.op != "icmp":
                # generic: value (non)zero
                res.add(norm_fact("ne" if truth else "eq", o, ("ci", 0, 0)))
        self._cond_cache[key] = frozenset(res)
        return self._cond_cache[key]

    def _is_bool(self, d):
        return d.ty == "i1"

    def _maxbits(self, o, depth=0):
        """least k such that o is known to lie in [0, 2^k), or None"""
        if is_const(o):
            c = const_val(o)
            return c.bit_length() if c is not None and c >= 0 else None
        d = self.fn.defn(o)
        if d is None or d.is_param or depth > 8:
            return None
        w = self.fn.mod.int_bits(d.ty) or 64
        if d.op == "zext":
            src = self.fn.defn(d.ops[0])
            sw = (self.fn.mod.int_bits(src.ty) if src is not None else None) or w
            inner = self._maxbits(d.ops[0], depth + 1)
            return min(sw, inner) if inner is not None else sw
        if d.op == "and":
            ks = [k for k in (self._maxbits(x, depth + 1) for x in d.ops) if k is not None]
            return min(ks) if ks else None
        if d.op in ("lshr", "urem", "udiv"):
            return self._maxbits(d.ops[0], depth + 1) if d.op != "urem" else (self._maxbits(d.ops[1], depth + 1) or self._maxbits(d.ops[0], depth + 1))
        if d.op in ("add", "or", "xor"):
            ka, kb = self._maxbits(d.ops[0], depth + 1), self._maxbits(d.ops[1], depth + 1)
            if ka is None or kb is None:
                return None
            k = max(ka, kb) + (1 if d.op == "add" else 0)
            return k if k < w else None
        if d.op == "mul":
            ka, kb = self._maxbits(d.ops[0], depth + 1), self._maxbits(d.ops[1], depth + 1)
            if ka is None or kb is None or ka + kb >= w:
                return None
            return ka + kb
        if d.op in ("phi", "select"):
            vals = [v for v, _ in d.incoming] if d.op == "phi" else d.ops[1:]
            ks = [self._maxbits(v, depth + 1) if v != ("v", d.id) else 0 for v in vals]
            return max(ks) if ks and all(k is not None for k in ks) else None
        return None

    def _nonneg(self, o):
        """o, read as a signed number of its own width, cannot be negative"""
        k = self._maxbits(o)
        if k is None:
            return False
        if is_const(o):
            return True
        d = self.fn.defn(o)
        w = (self.fn.mod.int_bits(d.ty) if d is not None else None) or 64
        return k < w

    def edge_facts(self, b, s):
        """facts established by taking edge b->s"""
        blk = self.fn.blocks[b]
        t = blk.term
        if t.op == "br" and len(t.ops) == 1:
            tt, ff = t.succs
            if tt == ff:
                return frozenset()
            return self.cond_facts(t.ops[0], s == tt)
        if t.op == "switch":
            v = t.ops[0]
            cases = t.d["cases"]
            default = t.d["default"]
            hit = [c for c, bb in cases if bb == s]
            res = set()
            if s == default:
                if not hit:
                    for c, bb in cases:
                        res.add(("ne", v, ("ci", c, 0)))
            elif len(hit) == 1:
                res.add(("eq", v, ("ci", hit[0], 0)))
            elif len(hit) > 1:
                # several case values share the target: the value is one of them (a set fact; see edges_refuting / edges_value_in)
                res.add(("in", v, ("cset", tuple(sorted(hit)))))
            if s == default and hit:
                for c, bb in cases:
                    if bb != s:
                        res.add(("ne", v, ("ci", c, 0)))
            # switch on a phi of constants (clang's cleanup-destination pattern): taking the edge for value c
            # means the phi came through an incoming edge carrying c; facts common to those edges hold
            d = self.fn.defn(v)
            if self._phase >= 2 and d is not None and not d.is_param and d.op == "phi" and d.block.id == b and \
                    all(is_const(x) for x, _ in d.incoming):
                poss = set(hit) if s != default or hit else {const_val(x) for x, _ in d.incoming} - {c for c, bb in cases}
                if s == default and hit:
                    poss |= {const_val(x) for x, _ in d.incoming} - {c for c, bb in cases}
                acc = None
                for x, pb in d.incoming:
                    if const_val(x) in poss:
                        fs = set(self._inn1.get(pb, frozenset())) | set(self.edge_facts(pb, b))
                        acc = fs if acc is None else (acc & fs)
                if acc:
                    res |= acc
            return frozenset(res)
        return frozenset()

    # ---- dataflow -----------------------------------------------------------
    def _compute(self):
        fn = self.fn
        rpo = fn.rpo()
        TOP = None
        inn = {b: TOP for b in rpo}
        inn[rpo[0]] = frozenset()
        self.out_edge = {}
        changed = True
        while changed:
            changed = False
            for b in rpo:
                if b != rpo[0]:
                    acc = TOP
                    for p in fn.blocks[b].preds:
                        if p not in inn or inn[p] is TOP:
                            continue
                        f = inn[p] | self.edge_facts(p, b)
                        acc = f if acc is TOP else (acc & f)
                    if acc is TOP:
                        continue
                    if inn[b] is TOP or acc != inn[b]:
                        inn[b] = acc
                        changed = True
        self.inn = {b: (f if f is not TOP else frozenset()) for b, f in inn.items()}
        self._closed = {}

    # ---- flag refinement ----------------------------------------------------------
    def _dominating_def(self, o, blk):
        """operand o is a constant, a parameter, or defined in a block that strictly dominates blk (so that the instance of o seen by a
        fact established before blk is the instance current facts talk about)"""
        if o[0] != "v":
            return True
        d = self.fn.defn(o)
        if d is None or d.is_param:
            return True
        return d.block.id != blk and self.fn.dominates(d.block.id, blk)

    def _refine_flags(self, facts):
        """Given the facts of a program point, sharpen what a known-(non)zero flag phi implies: the flag took its value on one of its
        incoming edges; an incoming whose own facts contradict what is known here is impossible; the facts common to the remaining
        incomings hold.  (`ok = 1` on the "nothing to read" edge and `ok = (p != NULL)` on the other; later `len != 0` rules the first
        out, so `ok != 0` implies `p != NULL`.)"""
        if self._phase < 2:
            return facts
        out = set(facts)
        for _ in range(3):
            added = False
            for f in list(out):
                if f[0] not in ("ne", "eq") or not is_const(f[2]) or const_val(f[2]) != 0:
                    continue
                x = f[1]
                d = self.fn.defn(x)
                while d is not None and not d.is_param and d.op in ("zext", "sext"):
                    x = d.ops[0]
                    d = self.fn.defn(x)
                if d is None or d.is_param or d.op != "phi" or d.ty.endswith("*"):
                    continue
                truth = f[0] == "ne"
                acc = None
                for v, pb in d.incoming:
                    if is_const(v) and bool(const_val(v)) != truth:
                        continue
                    fs = set(self.cond_facts(v, truth)) | set(self._inn1.get(pb, frozenset())) | set(self.edge_facts(pb, d.block.id))
                    contradicted = False
                    for g in fs:
                        if g[0] in NEG and (NEG[g[0]], g[1], g[2]) in out and self._dominating_def(g[1], d.block.id) and self._dominating_def(g[2], d.block.id):
                            contradicted = True
                            break
                    if contradicted:
                        continue
                    acc = fs if acc is None else (acc & fs)
                if acc and not acc <= out:
                    out |= acc
                    added = True
            if not added:
                break
        return frozenset(out)

    def at_block(self, b):
        if b not in self._closed:
            self._closed[b] = self._refine_flags(self.inn.get(b, frozenset()))
        return self._closed[b]

    def at_inst(self, inst):
        return self.at_block(inst.block.id)

    def on_edge(self, p, s):
        return self._refine_flags(self.at_block(p) | self.edge_facts(p, s))

    # ---- truth needs ----------------------------------------------------------
    def need_nonzero(self, o, _seen=None):
        """facts that must hold whenever operand o is (computed and) non-zero"""
        if _seen is None:
            _seen = set()
        if is_const(o):
            return frozenset()
        d = self.fn.defn(o)
        if d is None:
            return frozenset()
        if d.is_param:
            return frozenset([norm_fact("ne", o, ("ci", 0, 0))])
        if d.id in _seen:
            return None  # TOP (cycle): neutral for intersection
        _seen = _seen | {d.id}
        base = set(self.at_inst(d))
        if d.op == "phi":
            acc = None
            for v, pb in d.incoming:
                if is_const(v) and const_val(v) == 0:
                    continue
                sub = self.need_nonzero(v, _seen)
                if sub is None:
                    continue
                f = set(self.on_edge(pb, d.block.id)) | set(sub)
                acc = f if acc is None else (acc & f)
            if acc is None:
                acc = set()
            return frozenset(base | acc)
        if d.op in ("zext", "sext", "trunc") and d.op != "trunc":
            sub = self.need_nonzero(d.ops[0], _seen)
            return frozenset(base | (sub or set()))
        if d.op == "icmp" or d.ty == "i1":
            return frozenset(base | self.cond_facts(o, True))
        if d.op == "select":
            c, a, b = d.ops
            fa = None if (is_const(a) and const_val(a) == 0) else (set(self.cond_facts(c, True)) | set(self.need_nonzero(a, _seen) or set()))
            fb = None if (is_const(b) and const_val(b) == 0) else (set(self.cond_facts(c, False)) | set(self.need_nonzero(b, _seen) or set()))
            if fa is None and fb is None:
                return frozenset(base)
            if fa is None:
                return frozenset(base | fb)
            if fb is None:
                return frozenset(base | fa)
            return frozenset(base | (fa & fb))
        base.add(norm_fact("ne", o, ("ci", 0, 0)))
        return frozenset(base)

    # ---- sources ------------------------------------------------------------------
    def sources(self, o, through_casts=True, stop=()):
        """set of (operand, [edges]) leaves that may flow into o through phi/select/casts.
        Returns list of (leaf_operand, facts_on_the_way:frozenset)"""
        out = []
        seen = set()

        def rec(o, facts):
            d = self.fn.defn(o)
            if d is None or d.is_param:
                out.append((o, frozenset(facts)))
                return
            if d.op == "phi" and d.id in stop:
                out.append((o, frozenset(facts)))
                return
            if d.op == "phi":
                if d.id in seen:
                    return
                seen.add(d.id)
                for v, pb in d.incoming:
                    rec(v, facts | self.on_edge(pb, d.block.id))
                return
            if d.op == "select":
                rec(d.ops[1], facts | self.cond_facts(d.ops[0], True))
                rec(d.ops[2], facts | self.cond_facts(d.ops[0], False))
                return
            if through_casts and d.op in ("zext", "sext", "trunc", "bitcast"):
                rec(d.ops[0], facts)
                return
            out.append((o, frozenset(facts | self.at_inst(d))))

        rec(o, frozenset())
        return out

    # ---- cut sets -------------------------------------------------------------------
    def reaches_avoiding(self, start_block, target_block, cut_edges, start_after=None):
        """Is target reachable from start without crossing an edge in cut_edges?"""
        seen = {start_block}
        work = [start_block]
        if start_block == target_block and start_after is None:
            return True
        while work:
            b = work.pop()
            for s in self.fn.blocks[b].succs:
                if (b, s) in cut_edges:
                    continue
                if s == target_block:
                    return True
                if s not in seen:
                    seen.add(s)
                    work.append(s)
        return False

    def _value_edges(self, valpat):
        """(edge, fact) for every edge fact whose left side matches valpat"""
        m = Matcher(self.fn)
        for b in self.fn.blocks:
            for s in b.succs:
                for f in self.edge_facts(b.id, s):
                    if f[0] in ("eq", "ne", "in") and m.match(valpat, f[1], {}) is not None:
                        yield (b.id, s), f

    def edges_refuting(self, valpat, k):
        """edges whose facts contradict 'value == k': value != k, value == k' (k' != k), value in S with k not in S"""
        res = set()
        for e, f in self._value_edges(valpat):
            if f[0] == "ne" and is_const(f[2]) and const_val(f[2]) == k:
                res.add(e)
            elif f[0] == "eq" and is_const(f[2]) and const_val(f[2]) != k:
                res.add(e)
            elif f[0] == "in" and k not in f[2][1]:
                res.add(e)
        return res

    def edges_value_in(self, valpat, allowed):
        """edges whose facts imply that the value is one of `allowed`"""
        res = set()
        allowed = set(allowed)
        for e, f in self._value_edges(valpat):
            if f[0] == "eq" and is_const(f[2]) and const_val(f[2]) in allowed:
                res.add(e)
            elif f[0] == "in" and set(f[2][1]) <= allowed:
                res.add(e)
        return res

    def edges_with_fact(self, pat, env=None):
        """all CFG edges whose edge facts contain a fact matching pat"""
        res = set()
        m = Matcher(self.fn)
        for b in self.fn.blocks:
            for s in b.succs:
                for f in self.edge_facts(b.id, s):
                    if m.match_fact(pat, f, dict(env or {})) is not None:
                        res.add((b.id, s))
        return res


# -------------------------------------------------------------------------------
# Pattern language
#
#   int                      constant with this value (through casts)
#   ANY                      anything
#   ("bind", name, pat)      bind the SSA operand (after stripping casts) to name; if
#                            already bound must be the same operand
#   ("call", cname, [pats])  result of a call to the function with that C name
#   ("load", addrpat)        load from an address matching addrpat
#   ("field", S, f, basepat) address of field f of struct S (C names) of base
#   ("param", k|name)
#   ("gep", basepat, [idxpats]) generic GEP
#   ("bin", op, a, b)        binary operator (commutative ones tried both ways)
#   ("cast", op, pat)        explicit cast
#   ("or", p1, p2, ...)      alternatives
#   ("global", name)
#   ("str", bytes)           pointer to constant string
#   ("inst", id)             exactly that SSA value
# -------------------------------------------------------------------------------
ANY = ("any",)
COMMUTATIVE = {"add", "mul", "and", "or", "xor"}


class Matcher:
    def __init__(self, fn):
        self.fn = fn
        self.mod = fn.mod

    def strip(self, o, ops=("zext", "sext", "trunc", "bitcast")):
        while True:
            d = self.fn.defn(o)
            if d is not None and not d.is_param and d.op in ops:
                if d.op == "trunc" and not self._trunc_transparent(d):
                    return o            # a narrowing to 8 or 16 bits of something not known to fit: a value of its own
                o = d.ops[0]
                continue
            if d is not None and not d.is_param and d.op == "phi" and len(d.incoming) == 1 and d.incoming[0][0] != ("v", d.id):
                o = d.incoming[0][0]    # a phi with a single (remaining) incoming edge is that value
                continue
            if o[0] == "ce" and o[1].op in ops:
                o = o[1].ops[0]
                continue
            return o

    def _trunc_transparent(self, d):
        """pattern matching reads through a truncation unless it narrows to 8 or 16 bits something that may not fit.  (Narrowings to 32 bits
        are read through: the code stores size_t quantities in unsigned int fields in a dozen places the rules must see through; rules whose
        verdict depends on a 64 -> 32 narrowing ask min_width_through_casts.)"""
        from .lin import maxbits
        tw = self.mod.int_bits(d.ty) or 64
        if tw == 1 or tw >= 32:
            return True
        src = self.fn.defn(d.ops[0])
        # re-narrowing of a value that was widened from at most that width (uint8_t promoted to int and stored back) fits by construction
        k = maxbits(self.fn, d.ops[0])
        return k is not None and k <= tw

    def _trunc_keeps(self, d):
        """the truncation cannot change the value: the operand is known to fit the narrow type, or is widened again to at most ... no: only a
        known fit counts; plus the i1 truncations of boolean bytes the front end emits (`trunc i8 to i1` of a 0/1 flag)"""
        from .lin import maxbits
        tw = self.mod.int_bits(d.ty) or 64
        if tw == 1:
            return True
        k = maxbits(self.fn, d.ops[0])
        return k is not None and k <= tw

    def equiv(self, a, b):
        """same SSA value, or two loads of the same un-captured local with no
        intervening write (mem.equiv_loads)"""
        if a == b:
            return True
        da, db = self.fn.defn(a), self.fn.defn(b)
        if da is None or db is None or da.is_param or db.is_param:
            return False
        if da.op == "load" and db.op == "load":
            from .mem import equiv_loads
            return equiv_loads(self.fn, da, db)
        return False

    def match(self, pat, o, env):
        """returns env (dict) on success else None; env is updated functionally"""
        if pat is ANY or pat == ANY:
            return env
        if isinstance(pat, bool):
            pat = int(pat)
        if isinstance(pat, int):
            s = self.strip(o)
            v = const_val(s) if is_const(s) else None
            if v is None:
                return None
            if v == pat:
                return env
            # compare modulo width
            if s[0] == "ci" and s[2] and (v - pat) % (1 << s[2]) == 0:
                return env
            return None
        kind = pat[0]
        if kind == "or":
            for p in pat[1:]:
                e = self.match(p, o, dict(env))
                if e is not None:
                    return e
            return None
        if kind == "bind":
            s = self.strip(o)
            e = self.match(pat[2], o, env) if len(pat) > 2 else env
            if e is None:
                return None
            if pat[1] in e:
                return e if self.equiv(e[pat[1]], s) else None
            e = dict(e)
            e[pat[1]] = s
            return e
        if kind == "inst":
            return env if o == ("v", pat[1]) or self.equiv(self.strip(o), ("v", pat[1])) else None
        if kind == "cast":
            d = self.fn.defn(o)
            if d is None or d.is_param or d.op != pat[1]:
                return None
            return self.match(pat[2], d.ops[0], env)
        if kind == "str":
            s = self.mod.const_string(self.strip(o, ("bitcast",)))
            return env if s is not None and s == pat[1] else None
        if kind == "global":
            s = self.strip(o, ("bitcast",))
            return env if s[0] in ("gv", "fn") and s[1] == pat[1] else None
        s = self.strip(o)
        d = self.fn.defn(s)
        if kind == "phi":
            return env if d is not None and not d.is_param and d.op == "phi" else None
        if kind == "const":
            return env if is_const(s) else None
        if kind == "param":
            if d is None or not d.is_param:
                return None
            return env if pat[1] in (d.index, d.name) else None
        if kind == "call":
            if pat[1] is not None and pat[1] not in _CALL_NAMES_SEEN:
                _CALL_NAMES_SEEN.add(pat[1])
                from . import build
                build.note_requested(pat[1], bool(self.mod.by_cname.get(pat[1])))
            if d is None or d.is_param or d.op != "call":
                return None
            if pat[1] is not None and self.mod.callee_cname(d) != pat[1]:
                return None
            argp = pat[2] if len(pat) > 2 and pat[2] is not None else []
            if len(argp) > len(d.ops):
                return None
            for p, a in zip(argp, d.ops):
                env = self.match(p, a, env)
                if env is None:
                    return None
            return env
        if kind == "load":
            if d is None or d.is_param or d.op != "load":
                return None
            return self.match(pat[1], d.ops[0], env)
        if kind == "field":
            if pat[1] is not None and pat[2] is not None and (pat[1], pat[2]) not in _FIELDS_SEEN:
                _FIELDS_SEEN.add((pat[1], pat[2]))
                if (pat[1].lstrip("_"), pat[2]) in getattr(self.mod, "missing_fields", ()):
                    from . import build
                    build.REQUESTED_MISSING.add("field %s.%s" % (pat[1].lstrip("_"), pat[2]))
            steps = None
            base = None
            if d is not None and not d.is_param and d.op == "getelementptr":
                steps, base = d.steps, d.ops[0]
            elif s[0] == "ce" and s[1].op == "getelementptr":
                steps, base = s[1].steps, s[1].ops[0]
            if not steps:
                # field at offset 0 may be addressed through a bitcast of the base only;
                # not accepted (clang always emits the GEP)
                return None
            last = steps[-1]
            if last["k"] != "field":
                return None
            sname = Module.struct_cname(last["struct"])
            fname = self.mod.field_name(last["struct"], last["field"])
            if pat[1] is not None and sname != pat[1].lstrip("_"):
                return None
            if pat[2] is not None and fname != pat[2]:
                return None
            if len(steps) != 2 or steps[0]["idx"] != ("ci", 0, steps[0]["idx"][2] if steps[0]["idx"][0] == "ci" else 0):
                # nested field path: only match the last step, base pattern must be ANY
                if len(pat) > 3 and pat[3] is not ANY and pat[3] != ANY:
                    if len(steps) != 2:
                        return None
            return self.match(pat[3], base, env) if len(pat) > 3 else env
        if kind == "gep":
            idxp0 = pat[2] if len(pat) > 2 else None
            if idxp0 is not None and all(isinstance(x, int) and x == 0 for x in idxp0):
                # a zero-offset GEP may have been folded into its base
                e0 = self.match(pat[1], o, dict(env))
                if e0 is not None:
                    return e0
            if d is None or d.is_param or d.op != "getelementptr":
                return None
            env = self.match(pat[1], d.ops[0], env)
            if env is None:
                return None
            idxp = pat[2] if len(pat) > 2 else None
            if idxp is not None:
                idx = [st["idx"] for st in d.steps if "idx" in st]
                # drop a leading zero "ptr" step for array decay
                if len(idx) == len(idxp) + 1 and const_val(idx[0]) == 0:
                    idx = idx[1:]
                if len(idx) != len(idxp):
                    return None
                for p, a in zip(idxp, idx):
                    env = self.match(p, a, env)
                    if env is None:
                        return None
            return env
        if kind == "bin":
            if d is None or d.is_param or d.op != pat[1]:
                return None
            e = self.match(pat[2], d.ops[0], dict(env))
            if e is not None:
                e = self.match(pat[3], d.ops[1], e)
            if e is None and pat[1] in COMMUTATIVE:
                e = self.match(pat[2], d.ops[1], dict(env))
                if e is not None:
                    e = self.match(pat[3], d.ops[0], e)
            return e
        raise ValueError("bad pattern %r" % (pat,))

    def match_fact(self, pat, fact, env):
        """pat = (pred, apat, bpat); also tries the swapped orientation"""
        pp, pa, pb = pat
        fp, fa, fb = fact
        if fp == pp:
            e = self.match(pa, fa, dict(env))
            if e is not None:
                e = self.match(pb, fb, e)
            if e is not None:
                return e
        if SWAP.get(fp) == pp:
            e = self.match(pa, fb, dict(env))
            if e is not None:
                e = self.match(pb, fa, e)
            if e is not None:
                return e
        return None

    def find_fact(self, pat, facts, env=None):
        for f in facts:
            e = self.match_fact(pat, f, dict(env or {}))
            if e is not None:
                return f, e
        return None, None


def describe(fn, o, depth=3):
    """human-readable rendering of an operand (for reports)"""
    mod = fn.mod
    if o[0] == "ci":
        return str(o[1])
    if o[0] == "null":
        return "NULL"
    if o[0] == "cset":
        return "{%s}" % ", ".join(str(x) for x in o[1])
    if o[0] in ("gv", "fn"):
        return "@" + o[1]
    if o[0] == "ce":
        s = mod.const_string(o)
        if s is not None:
            return repr(s.decode("latin1"))
        return "constexpr"
    d = fn.defn(o)
    if d is None:
        return str(o)
    if d.is_param:
        return d.name
    nm = fn.var_name(d.id)
    if depth <= 0:
        return nm or "%%%d" % d.id
    if d.op == "call":
        return "%s(%s)" % (mod.callee_cname(d) or "<indirect>", ", ".join(describe(fn, a, depth - 1) for a in d.ops))
    if d.op == "load":
        return "*" + describe(fn, d.ops[0], depth - 1) if not _isfield(fn, d.ops[0]) else describe(fn, d.ops[0], depth - 1)
    if d.op == "getelementptr":
        fo = field_of_gep(mod, d)
        if fo:
            return "%s->%s" % (describe(fn, d.ops[0], depth - 1), fo[1])
        idx = [st["idx"] for st in d.steps if "idx" in st]
        return "%s[%s]" % (describe(fn, d.ops[0], depth - 1), "][".join(describe(fn, i, depth - 1) for i in idx))
    if d.op in CAST_OPS:
        return describe(fn, d.ops[0], depth)
    if d.op == "icmp":
        return "(%s %s %s)" % (describe(fn, d.ops[0], depth - 1), d.pred, describe(fn, d.ops[1], depth - 1))
    if d.op == "phi":
        return nm or "phi%d" % d.id
    if len(d.ops) == 2:
        return "(%s %s %s)" % (describe(fn, d.ops[0], depth - 1), d.op, describe(fn, d.ops[1], depth - 1))
    return nm or "%%%d" % d.id


def _isfield(fn, o):
    d = fn.defn(o)
    return d is not None and not d.is_param and d.op == "getelementptr" and field_of_gep(fn.mod, d) is not None


def describe_fact(fn, f):
    return "%s %s %s" % (describe(fn, f[1]), f[0], describe(fn, f[2]))
