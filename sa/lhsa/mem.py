"""Small memory reasoning: root objects, capture analysis for locals whose
address is passed to callees, equivalence of two loads of the same local."""
from .ir import field_of_gep

_NOCAPTURE_EXTERNAL = {
    # libc functions that do not retain their pointer arguments
    "memcpy", "memmove", "memset", "memcmp", "strlen", "strcmp", "strncmp", "strchr", "strrchr", "strcat", "strcpy",
    "sprintf", "printf", "fprintf", "fread", "fwrite", "free", "strdup", "vasprintf", "stat", "fstat", "utime", "time",
    "localtime", "mktime", "llvm.memcpy.p0i8.p0i8.i64", "llvm.memmove.p0i8.p0i8.i64", "llvm.memset.p0i8.i64",
    "llvm.va_start", "llvm.va_end", "vfprintf", "vprintf", "vsnprintf", "snprintf",
}


def root(fn, o):
    """(kind, key, const_offset|None) of the object a pointer operand is derived from"""
    off = 0
    while True:
        d = fn.defn(o)
        if d is None:
            if o[0] == "gv":
                return ("global", o[1], off)
            if o[0] == "ce" and o[1].op in ("bitcast", "getelementptr"):
                ce = o[1]
                if ce.op == "getelementptr":
                    c = _const_gep_off(ce.steps)
                    off = None if (c is None or off is None) else off + c
                o = ce.ops[0]
                continue
            return ("unknown", None, None)
        if d.is_param:
            return ("param", d.index, off)
        if d.op == "bitcast":
            o = d.ops[0]
            continue
        if d.op == "getelementptr":
            c = _const_gep_off(d.steps)
            off = None if (c is None or off is None) else off + c
            o = d.ops[0]
            continue
        if d.op == "alloca":
            return ("alloca", d.id, off)
        if d.op == "load":
            return ("load", d.id, off)
        if d.op == "call":
            return ("call", d.id, off)
        if d.op in ("phi", "select"):
            return ("phi", d.id, off)
        return ("unknown", None, None)


def _const_gep_off(steps):
    off = 0
    for s in steps:
        if s["k"] == "field":
            off += s["off"]
        elif s["k"] in ("ptr", "arr"):
            if s["idx"][0] != "ci":
                return None
            off += s["idx"][1] * s["el_size"]
        else:
            return None
    return off


def derived_values(fn, vid):
    """ids of SSA values that are pointer-derived (gep/bitcast/phi/select) from value vid"""
    out = {vid}
    work = [vid]
    while work:
        x = work.pop()
        for u in fn.users(x):
            if u.op in ("getelementptr", "bitcast", "phi", "select") and u.id not in out:
                if u.op == "getelementptr" and u.ops[0] != ("v", x):
                    continue
                out.add(u.id)
                work.append(u.id)
    return out


_cap_memo = {}


def param_captured(mod, fn, index, _stack=None):
    """May the callee retain (store somewhere / return) the pointer passed as parameter index?"""
    key = (id(mod), fn.name, index)
    if key in _cap_memo:
        return _cap_memo[key]
    _stack = _stack or set()
    if key in _stack:
        return False
    _stack = _stack | {key}
    if fn.decl:
        r = fn.name not in _NOCAPTURE_EXTERNAL
        _cap_memo[key] = r
        return r
    p = fn.params[index]
    vals = derived_values(fn, p.id)
    res = False
    for v in vals:
        for u in fn.users(v):
            if u.op == "store" and u.ops[0] == ("v", v):
                res = True
            elif u.op == "ret":
                res = True
            elif u.op == "call":
                for k, a in enumerate(u.ops):
                    if a == ("v", v):
                        cf = mod.callee_fn(u)
                        if cf is None:
                            res = True
                        elif k >= len(cf.params):
                            res = res or (cf.name not in _NOCAPTURE_EXTERNAL)
                        elif param_captured(mod, cf, k, _stack):
                            res = True
                if u.calleev == ("v", v):
                    pass
            elif u.op in ("ptrtoint",):
                res = True
    _cap_memo[key] = res
    return res


def alloca_captured(fn, alloca_id):
    mod = fn.mod
    vals = derived_values(fn, alloca_id)
    for v in vals:
        for u in fn.users(v):
            if u.op == "store" and u.ops[0] == ("v", v):
                return True
            if u.op in ("ret", "ptrtoint"):
                return True
            if u.op == "call":
                for k, a in enumerate(u.ops):
                    if a == ("v", v):
                        cf = mod.callee_fn(u)
                        if cf is None:
                            return True
                        if k >= len(cf.params):
                            if cf.name not in _NOCAPTURE_EXTERNAL:
                                return True
                        elif param_captured(mod, cf, k):
                            return True
    return False


def _between(fn, a, b):
    """instructions that can execute after a and before b on a path that does not
    pass through a again (a dominates b, so b's operand refers to the latest a)"""
    def succs(i):
        blk = i.block
        if i.idx + 1 < len(blk.insts):
            return [blk.insts[i.idx + 1]]
        return [fn.blocks[s].insts[0] for s in blk.succs if fn.blocks[s].insts]

    def preds(i):
        blk = i.block
        if i.idx > 0:
            return [blk.insts[i.idx - 1]]
        return [fn.blocks[p].insts[-1] for p in blk.preds if fn.blocks[p].insts]

    fwd = set()
    work = succs(a)
    while work:
        x = work.pop()
        if x.id in fwd or x is a or x is b:
            continue
        fwd.add(x.id)
        work.extend(succs(x))
    bwd = set()
    work = preds(b)
    while work:
        x = work.pop()
        if x.id in bwd or x is a or x is b:
            continue
        bwd.add(x.id)
        work.extend(preds(x))
    return [fn.vals[k] for k in fwd & bwd]


def equiv_loads(fn, l1, l2):
    """True if loads l1 and l2 (instructions) provably yield the same value: same
    local object and offset, the local's address is not captured, and no store to
    it / call receiving its address can execute between them."""
    if l1.id == l2.id:
        return True
    if l1.op != "load" or l2.op != "load" or l1.ty != l2.ty:
        return False
    r1, r2 = root(fn, l1.ops[0]), root(fn, l2.ops[0])
    if r1[0] != "alloca" or r1 != r2 or r1[2] is None:
        return False
    if not fn.dominates(l1.block.id, l2.block.id):
        l1, l2 = l2, l1
        if not fn.dominates(l1.block.id, l2.block.id):
            return False
    if alloca_captured(fn, r1[1]):
        return False
    vals = derived_values(fn, r1[1])
    for i in _between(fn, l1, l2):
        if i.op == "store" and root(fn, i.ops[1])[:2] == ("alloca", r1[1]):
            return False
        if i.op == "call" and any(a[0] == "v" and a[1] in vals for a in i.ops):
            return False
    return True
