"""E8 LOOPS: termination classifier.  Every natural loop must be placed in a class
with a witness:

 A  counted      a header phi changes by a non-zero constant on every back edge and an exit
                 edge compares it with a loop-invariant bound (or tests equality, step +-1)
 A' decreasing   a header phi P becomes P - X on every back edge with 0 < X <= P established by
                 branch facts, and the loop is left when P == 0
 B  input-driven a call to a read-like function sits in the body and every back edge carries the
                 negation of its 'exhausted' outcome
 C  NUL scan     pointer/index advances one element per iteration, exit tests the loaded byte for 0
 D  list walk    cursor advances along a `_next`-style link, exit tests it for NULL
 E  listed       named exception with a reason
"""
from .facts import Facts, Matcher, ANY, is_const, const_val, NEG, describe
from .ir import field_of_gep
from .mem import root

# read-like functions: callee C name -> list of fact patterns (pred, const) on the call result that mean
# "exhausted / failed"; the back edge must carry the negation of one of them
READ_LIKE = {
    "lha_reader_next_file": [("eq", 0)], "lha_filter_next_file": [("eq", 0)], "lha_basic_reader_next_file": [("eq", 0)],
    "lha_reader_read": [("eq", 0), ("ule", 0)], "lha_decoder_read": [("eq", 0), ("ule", 0)],
    "lha_input_stream_read": [("eq", 0)], "do_read": [("sle", 0), ("slt", 1)],
    "read_bits": [("slt", 0)], "read_bit": [("slt", 0)], "peek_bits": [("slt", 0)], "read_from_tree": [("slt", 0)],
    "read_code": [("slt", 0)], "read_length_value": [("slt", 0)], "read_offset_code": [("slt", 0)],
    "getchar": [("slt", 0)], "getc": [("slt", 0)], "extend_raw_data": [("eq", 0)], "read_next_entry": [("slt", 0)],
    "fread": [("eq", 0)], "<callback>": [("eq", 0)], "start_new_block": [("eq", 0)],
}


_PURE_EXTERNALS = {"printf", "fprintf", "puts", "putchar", "strlen", "strcmp", "strncmp", "fflush", "fwrite", "fputs", "tolower", "toupper",
                   "__ctype_b_loc", "__ctype_tolower_loc", "strchr", "strrchr", "memcmp", "safe_printf"}
_tw_cache = {}


def _type_writers(cg):
    k = id(cg)
    if k not in _tw_cache:
        tw = {}
        for f in cg.mod.defined():
            for i in f.insts():
                if i.op == "store":
                    a = f.defn(i.ops[1])
                    if a is not None:
                        tw.setdefault(a.ty, set()).add(f.name)
        _tw_cache[k] = tw
    return _tw_cache[k]


class LoopInfo:
    def __init__(self, fn, lp):
        self.fn, self.lp = fn, lp
        self.header = lp["header"]
        self.line = fn.blocks[self.header].term.line()
        self.cls = None
        self.witness = None
        self.notes = []
        self.narrow = None      # (iv bits, bound bits, bound description) when a counter narrower than its bound is compared after widening

    def key(self):
        return "%s@%s" % (self.fn.cname, self.line)



_PUBLIC = None


def public_api():
    """identifiers declared as functions in lib/public/*.h (callable by code outside the analysed program)"""
    global _PUBLIC
    if _PUBLIC is None:
        import glob, os, re
        from .build import REPO
        _PUBLIC = {"main"}
        for h in glob.glob(os.path.join(REPO, "lib", "public", "*.h")):
            _PUBLIC |= set(re.findall(r"\b([A-Za-z_][A-Za-z0-9_]*)\s*\(", open(h, errors="replace").read()))
    return _PUBLIC


def widened_iv(fn, M, lhs_raw, p):
    """if the compared value is phi p (possibly +-const) widened by zext/sext, return (iv bits, compared bits)"""
    d = fn.defn(lhs_raw)
    if d is not None and not d.is_param and d.op in ("zext", "sext"):
        inner = M.strip(d.ops[0], ("bitcast",))
        di = fn.defn(inner)
        if di is not None and not di.is_param and di.op in ("add", "sub") and is_const(di.ops[1]):
            inner = M.strip(di.ops[0], ("bitcast",))
        if inner == ("v", p.id):
            return fn.mod.int_bits(p.ty) or 0, fn.mod.int_bits(d.ty) or 0
    return None


def fits(fn, F, M, o, bits, at_block, cg=None, depth=0):
    """operand o is provably < 2^bits (unsigned) at at_block: constants, values widened from <= bits, masked / shifted values,
    phi/select of such, a - b under the fact a >= b, and parameters all of whose direct call sites pass such values"""
    if is_const(o):
        return 0 <= const_val(o) < (1 << bits)
    d = fn.defn(o)
    if d is None or depth > 14:
        return False
    if d.is_param:
        if cg is None:
            return False
        # every call site of fn: direct calls, and indirect calls the call graph resolves to fn (table / callback fields)
        sites = [(c.fn, c) for (caller, callee), cs in cg.sites.items() if callee == fn.name for c in cs]
        sites += [(c.fn, c) for c, targets, how in cg.indirect if fn.name in targets]
        if not sites or (not fn.internal and not any(True for _ in sites)):
            return False
        if not fn.internal and fn.name not in cg.addr_taken and False:
            return False
        from .facts import Facts
        for g, c in sites:
            if d.index >= len(c.ops):
                return False
            if not fits(g, Facts(g) if g is not fn else F, Matcher(g), c.ops[d.index], bits, c.block.id, cg, depth + 2):
                return False
        # an externally visible function of the public API can also be called from outside the program
        return fn.internal or fn.cname not in public_api()
    w = fn.mod.int_bits(d.ty) or 64
    if w <= bits:
        return True
    if d.op in ("zext",):
        return _bits_of(fn, d.ops[0]) <= bits or fits(fn, F, M, d.ops[0], bits, at_block, cg, depth + 1)
    if d.op == "and":
        return any(is_const(x) and 0 <= const_val(x) < (1 << bits) for x in d.ops) or any(fits(fn, F, M, x, bits, at_block, cg, depth + 1) for x in d.ops)
    if d.op in ("lshr", "udiv", "urem"):
        return fits(fn, F, M, d.ops[0], bits, at_block, cg, depth + 1) or (d.op == "urem" and fits(fn, F, M, d.ops[1], bits, at_block, cg, depth + 1))
    if d.op in ("phi", "select"):
        vals = [v for v, _ in d.incoming] if d.op == "phi" else d.ops[1:]
        return all(M.strip(v) == ("v", d.id) or fits(fn, F, M, v, bits, at_block, cg, depth + 1) for v in vals)
    if d.op == "sub":
        a, b = d.ops
        # the whole difference is the left side minus the right side of an available fact X >= Y with X fitting: 0 <= o <= X
        from .lin import linform

        def atom(x):
            dx = fn.defn(x)
            if dx is None:
                return None
            if dx.is_param:
                return "p%d" % dx.index
            return "v%d" % dx.id if dx.op in ("phi", "load", "call", "select") else None
        lo = linform(fn, o, atom)
        if lo is not None:
            for f in F.at_block(at_block):
                if f[0] in ("uge", "ugt") and not is_const(f[1]):
                    lx, ly = linform(fn, f[1], atom), linform(fn, f[2], atom)
                    if lx is not None and ly is not None and lx.add(ly, -1) == lo and fits(fn, F, M, f[1], bits, at_block, cg, depth + 1):
                        return True
        if fits(fn, F, M, a, bits, at_block, cg, depth + 1):
            for f in F.at_block(at_block):
                if f[0] in ("uge", "ugt") and M.strip(f[1]) == M.strip(a):
                    if M.strip(f[2]) == M.strip(b) or (is_const(f[2]) and is_const(b) and const_val(f[2]) >= const_val(b)):
                        return True
                    # a >= b + c  (c >= 0)
                    e = M.match(("bin", "add", ("bind", "x"), ("bind", "c", ("const",))), f[2], {})
                    if e is not None and M.strip(e["x"]) == M.strip(b) and const_val(e["c"]) >= 0:
                        return True
        return False
    if d.op == "sext":
        # non-negative narrow value: y = v (+ c) with a signed lower bound on v among the facts
        y = d.ops[0]
        if _bits_of(fn, y) > bits:
            return False
        c0 = 0
        v = y
        for _ in range(4):          # y = ((v + c1) - c2) + ...
            dy = fn.defn(v)
            if dy is not None and not dy.is_param and dy.op in ("add", "sub") and is_const(dy.ops[1]):
                cc = const_val(dy.ops[1])
                if cc >= (1 << 31):
                    cc -= (1 << 32)
                c0 += cc if dy.op == "add" else -cc
                v = dy.ops[0]
            else:
                break
        for f in F.at_block(at_block):
            if M.strip(f[1], ()) == M.strip(v, ()) and is_const(f[2]):
                k = const_val(f[2])
                if k >= (1 << 31):
                    k -= (1 << 32)
                lo = k if f[0] == "sge" else (k + 1 if f[0] == "sgt" else None)
                if lo is not None and lo + c0 >= 0 and lo + c0 < (1 << 31):
                    return True
        return False
    return False


def _bits_of(fn, o):
    if is_const(o):
        return 64
    d = fn.defn(o)
    return (fn.mod.int_bits(d.ty) or 64) if d is not None else 64


def _invariant(fn, lp, o, cg, depth=0):
    """operand o does not change while the loop runs"""
    if is_const(o) or o[0] in ("gv", "fn", "null", "ce"):
        return True
    d = fn.defn(o)
    if d is None:
        return False
    if d.is_param or d.block.id not in lp["body"]:
        return True
    if depth > 8:
        return False
    if d.op in ("zext", "sext", "trunc", "bitcast", "add", "sub", "mul", "and", "or", "shl", "lshr", "getelementptr"):
        return all(_invariant(fn, lp, x, cg, depth + 1) for x in d.ops)
    if d.op == "load":
        if not _invariant(fn, lp, d.ops[0], cg, depth + 1):
            return False
        r0 = root(fn, d.ops[0])
        if r0[0] == "global" and fn.mod.globals.get(r0[1], {}).get("constant"):
            return True
        a = fn.defn(d.ops[0])
        fo = field_of_gep(fn.mod, a) if a is not None and not a.is_param and a.op == "getelementptr" else None
        for b in lp["body"]:
            for i in fn.blocks[b].insts:
                if i.op == "store":
                    a2 = fn.defn(i.ops[1])
                    fo2 = field_of_gep(fn.mod, a2) if a2 is not None and not a2.is_param and a2.op == "getelementptr" else None
                    if fo is None or fo2 is None or fo == fo2:
                        r1, r2 = root(fn, d.ops[0]), root(fn, i.ops[1])
                        if r1[0] == "alloca" and r2[0] == "alloca" and r1[1] != r2[1]:
                            continue
                        if fo is not None and fo2 is not None and fo != fo2:
                            continue
                        return False
                elif i.op == "call" and i.callee and not i.callee.startswith("llvm.dbg"):
                    if fo is None:
                        r1 = root(fn, d.ops[0])
                        if r1[0] == "alloca":
                            from .mem import alloca_captured, derived_values
                            if not alloca_captured(fn, r1[1]) and not any(a_[0] == "v" and a_[1] in derived_values(fn, r1[1]) for a_ in i.ops):
                                continue
                        # type-based: does anything reachable from the callee store through a pointer of this type?
                        a0 = fn.defn(d.ops[0])
                        aty = a0.ty if a0 is not None else None
                        if cg is not None and aty is not None and not (cg.reachable([i.callee]) & _type_writers(cg).get(aty, set())):
                            cf = fn.mod.functions.get(i.callee)
                            if cf is not None and (not cf.decl or i.callee in _PURE_EXTERNALS):
                                continue
                        return False
                    if cg is not None and (cg.reachable([i.callee]) & cg.field_writers(fo[0], fo[1])):
                        return False
        return True
    return False


def classify(fn, F, cg=None, exceptions=None):
    """returns list of LoopInfo for fn"""
    M = Matcher(fn)
    out = []
    for lp in fn.loops():
        li = LoopInfo(fn, lp)
        out.append(li)
        hdr = fn.blocks[lp["header"]]
        body = lp["body"]
        phis = [i for i in hdr.insts if i.op == "phi"]
        # ---------------- class A / A' / C / D via header phis ----------------
        for p in phis:
            backs = [(v, b) for v, b in p.incoming if b in body]
            if not backs:
                continue
            # constant step?
            steps = set()
            for v, b in backs:
                e = M.match(("bin", "add", ("inst", p.id), ("bind", "c", ("const",))), v, {})
                if e is not None:
                    steps.add(const_val(e["c"]))
                    continue
                e = M.match(("bin", "sub", ("inst", p.id), ("bind", "c", ("const",))), v, {})
                if e is not None:
                    steps.add(-const_val(e["c"]))
                    continue
                e = M.match(("gep", ("inst", p.id), [("bind", "c", ("const",))]), v, {})
                if e is not None and p.ty.endswith("*"):
                    steps.add(const_val(e["c"]))
                    continue
                steps.add(None)
            if None not in steps and steps and all(s != 0 for s in steps) and (all(s > 0 for s in steps) or all(s < 0 for s in steps)):
                up = all(s > 0 for s in steps)
                for (b, s) in lp["exits"]:
                    for f in F.edge_facts(b, s):
                        lhs, rhs = M.strip(f[1]), f[2]
                        # allow comparing phi +- const
                        base = lhs
                        dl = fn.defn(lhs)
                        if dl is not None and not dl.is_param and dl.op in ("add", "sub") and is_const(dl.ops[1]):
                            base = M.strip(dl.ops[0])
                        if base == ("v", p.id) and _invariant(fn, lp, rhs, cg):
                            if f[0] in (("uge", "ugt", "sge", "sgt") if up else ("ule", "ult", "sle", "slt")) or \
                               (f[0] == "eq" and steps <= {1, -1}):
                                wi = widened_iv(fn, M, f[1], p)
                                if wi and up and wi[0] < wi[1] and not fits(fn, F, M, rhs, wi[0], lp["header"], cg):
                                    # a counter of wi[0] bits is compared, after widening, with a wider bound not known to fit: it would wrap first
                                    li.narrow = (wi[0], wi[1], describe(fn, rhs))
                                    continue
                                li.cls = "A"
                                li.witness = "%s steps by %s each iteration; exit when it is %s the invariant bound" % (
                                    fn.var_name(p.id) or "%%%d" % p.id, sorted(steps), f[0])
                        # bound on the left (swapped orientation is normalised by facts, but handle rhs phi)
                        rb = M.strip(rhs) if not is_const(rhs) else None
                        if rb == ("v", p.id) and _invariant(fn, lp, f[1], cg):
                            if f[0] in (("ule", "ult", "sle", "slt") if up else ("uge", "ugt", "sge", "sgt")) or (f[0] == "eq" and steps <= {1, -1}):
                                li.cls = "A"
                                li.witness = "%s steps by %s each iteration; exit when the invariant bound is %s it" % (
                                    fn.var_name(p.id) or "%%%d" % p.id, sorted(steps), f[0])
                if li.cls is None:
                    _class_a_latch(fn, F, M, lp, li, p, up, steps, cg)
                if li.cls:
                    break
                # NUL scan: step +1 and exit on loaded byte == 0
                if steps == {1}:
                    for (b, s) in lp["exits"]:
                        for f in F.edge_facts(b, s):
                            if f[0] == "eq" and is_const(f[2]) and const_val(f[2]) == 0:
                                d = fn.defn(M.strip(f[1]))
                                if d is not None and not d.is_param and d.op == "load":
                                    a = M.strip(d.ops[0], ("bitcast",))
                                    if a == ("v", p.id) or M.match(("gep", ANY, [("inst", p.id)]), d.ops[0], {}) is not None:
                                        li.cls = "C"
                                        li.witness = ("advances one element per iteration; exit when the element at the cursor is %s" %
                                                      ("NUL (NUL-terminated string)" if d.size == 1 else "NULL/0 (sentinel-terminated array)"))
                if li.cls:
                    break
            # A': strictly decreasing by a positive amount bounded by the value
            if li.cls is None and len(backs) >= 1:
                ok = True
                for v, b in backs:
                    e = M.match(("bin", "sub", ("inst", p.id), ("bind", "x")), v, {})
                    if e is None:
                        ok = False
                        break
                    for s, fs in F.sources(e["x"], stop=(p.id,)):
                        facts = set(fs) | set(F.on_edge(b, lp["header"]))
                        if is_const(s):
                            c = const_val(s)
                            good = c > 0 and (M.find_fact(("ugt", ("inst", p.id), c), facts)[0] is not None or M.find_fact(("uge", ("inst", p.id), c), facts)[0] is not None
                                              or any(M.find_fact(("ugt", ("inst", p.id), c2), facts)[0] is not None for c2 in range(c, c + 1)))
                        elif M.strip(s) == ("v", p.id):
                            good = M.find_fact(("ugt", ("inst", p.id), 0), facts)[0] is not None or M.find_fact(("ne", ("inst", p.id), 0), facts)[0] is not None
                        else:
                            good = False
                        if not good:
                            ok = False
                if ok:
                    for (b, s) in lp["exits"]:
                        if M.find_fact(("ule", ("inst", p.id), 0), F.edge_facts(b, s))[0] is not None or M.find_fact(("eq", ("inst", p.id), 0), F.edge_facts(b, s))[0] is not None:
                            li.cls = "A'"
                            li.witness = "%s decreases by a positive amount not exceeding itself on every iteration; exit at 0" % (fn.var_name(p.id) or "%%%d" % p.id)
                if li.cls:
                    break
            # D list walk: p' = load(field _next of p)  or  p' = &(*p)->_next
            if li.cls is None and p.ty.endswith("*"):
                link = None
                for v, b in backs:
                    e1 = M.match(("load", ("field", None, None, ("inst", p.id))), v, {})
                    e2 = M.match(("field", None, None, ("load", ("inst", p.id))), v, {})
                    if e1 is None and e2 is None:
                        link = None
                        break
                    link = "direct" if e1 is not None else "indirect"
                if link:
                    for (b, s) in lp["exits"]:
                        for f in F.edge_facts(b, s):
                            if f[0] == "eq" and is_const(f[2]) and const_val(f[2]) == 0:
                                t = M.strip(f[1], ("bitcast",))
                                if t == ("v", p.id) or M.match(("load", ("inst", p.id)), f[1], {}) is not None:
                                    li.cls = "D"
                                    li.witness = "cursor follows a link field each iteration; exit when it reaches NULL (acyclic list)"
                if li.cls:
                    break
        if li.cls:
            continue
        # ---------------- D (memory-carried): while (obj->head != NULL) { x = head; head = x->next; ... } ----------------
        for (b, s) in lp["exits"]:
            for f in F.edge_facts(b, s):
                if f[0] == "eq" and is_const(f[2]) and const_val(f[2]) == 0:
                    d = fn.defn(M.strip(f[1], ("bitcast",)))
                    if d is not None and not d.is_param and d.op == "load":
                        a = fn.defn(d.ops[0])
                        fo = field_of_gep(fn.mod, a) if a is not None and not a.is_param and a.op == "getelementptr" else None
                        cell = M.strip(d.ops[0], ("bitcast",))
                        # the head cell: a struct field, or any pointer defined outside the loop (e.g. a `Node **list` parameter)
                        outside = a is None or a.is_param or a.block.id not in body
                        if fo or outside:
                            for bb in body:
                                for st in fn.blocks[bb].insts:
                                    if st.op != "store":
                                        continue
                                    same_cell = (fo is not None and M.match(("field", fo[0], fo[1], ANY), st.ops[1], {}) is not None) or \
                                        (st.op == "store" and M.strip(st.ops[1], ("bitcast",)) == cell)
                                    if st.op == "store" and same_cell and all(fn.dominates(bb, l) for l in lp["latches"]) and \
                                            (M.match(("load", ("field", None, None, ("inst", d.id))), st.ops[0], {}) is not None or
                                             any(M.match(("load", ("field", None, None, ("inst", d2.id))), st.ops[0], {}) is not None
                                                 for bb2 in body for d2 in fn.blocks[bb2].insts if d2.op == "load" and M.equiv(("v", d2.id), ("v", d.id)))):
                                        li.cls = "D"
                                        li.witness = "list head %s is replaced by its successor on every iteration; exit when it is NULL (acyclic list)" % (
                                            "%s.%s" % fo if fo else "cell *%s" % (fn.var_name(cell[1]) if cell[0] == "v" else "?"))
        if li.cls:
            continue
        # ---------------- nested / monotone induction, scans, memory-carried counters ----------------
        _more_classes(fn, F, M, lp, li, phis, cg)
        if li.cls:
            continue
        # ---------------- class B ----------------
        calls = []
        for b in body:
            for i in fn.blocks[b].insts:
                if i.op == "call":
                    cn = fn.mod.callee_cname(i)
                    if cn in READ_LIKE:
                        calls.append((i, cn))
                    elif cn is None and i.calleev is not None:
                        # indirect: decoder callbacks / stream read
                        a = fn.defn(i.calleev)
                        if a is not None and not a.is_param and a.op == "load":
                            g = fn.defn(a.ops[0])
                            fo = field_of_gep(fn.mod, g) if g is not None and not g.is_param and g.op == "getelementptr" else None
                            if fo and fo[1] in ("callback", "read"):
                                calls.append((i, "<callback>"))
        def refutes(facts, vid, cn):
            """the facts exclude every exhausted outcome of read-like callee cn for the value with SSA id vid"""
            lo, hi = -(1 << 63), (1 << 63) - 1
            nonzero = False
            for f in facts:
                if M.strip(f[1]) != ("v", vid) or not is_const(f[2]) or const_val(f[2]) is None:
                    continue
                kk = const_val(f[2])
                if kk >= (1 << 31) and f[0][0] == "s":
                    kk -= (1 << 32)
                if f[0] in ("sgt", "ugt"):
                    lo = max(lo, kk + 1)
                elif f[0] in ("sge", "uge"):
                    lo = max(lo, kk)
                elif f[0] == "slt":
                    hi = min(hi, kk - 1)
                elif f[0] == "sle":
                    hi = min(hi, kk)
                elif f[0] == "eq":
                    lo, hi = max(lo, kk), min(hi, kk)
                elif f[0] == "ne" and kk == 0:
                    nonzero = True
            for pred, k in READ_LIKE[cn]:
                ex_lo, ex_hi = {"eq": (k, k), "slt": (-(1 << 63), k - 1), "sle": (-(1 << 63), k), "ule": (0, k)}.get(pred, (None, None))
                ok_ = ex_lo is not None and (hi < ex_lo or lo > ex_hi)
                if pred in ("eq", "ule") and k == 0 and nonzero:
                    ok_ = True
                if M.find_fact((NEG[pred], ("inst", vid), k), facts)[0] is not None:
                    ok_ = True
                if not ok_:
                    return False
            return True
        for c, cn in calls:
            good = True
            for latch in lp["latches"]:
                if not refutes(F.on_edge(latch, lp["header"]), c.id, cn):
                    good = False
            if not good:
                # rotated form: `x = read(); while (x is fine) { ...; x = read(); }` - the result feeds a header phi on every back edge and
                # the header lets the body run only if that phi is not an exhausted outcome (an exhausted source stays exhausted)
                for ph in phis:
                    backs_ = [v for v, pb in ph.incoming if pb in body]
                    if backs_ and all(M.strip(v) == ("v", c.id) for v in backs_) and all(fn.dominates(c.block.id, l) for l in lp["latches"]):
                        ins = [s_ for s_ in hdr.succs if s_ in body]
                        if ins and all(refutes(F.edge_facts(lp["header"], s_), ph.id, cn) for s_ in ins) and all(s_ in body for s_ in hdr.succs if not any((lp["header"], s_) == e for e in lp["exits"])):
                            good = True
            if good:
                li.cls = "B"
                li.witness = "each iteration consumes input through %s and the back edge is taken only if it was not exhausted" % cn
                break
        if li.cls:
            continue
        if exceptions and li.key() in exceptions:
            li.cls = "E"
            li.witness = exceptions[li.key()]
    # Width side condition of the counted classes: an up-counting header phi that is compared, after widening, with a wider
    # loop-invariant bound reaches that bound only if the bound fits the counter's width; otherwise the counter wraps first.
    for li in out:
        if li.cls not in ("A", "A'"):
            li.narrow = None if li.cls is not None else li.narrow
            continue
        li.narrow = None
        lp = li.lp
        hdr = fn.blocks[lp["header"]]
        edges = [(b, s) for (b, s) in lp["exits"]] + [(l, lp["header"]) for l in lp["latches"]]
        for p in [i for i in hdr.insts if i.op == "phi" and not i.ty.endswith("*")]:
            backs = [v for v, b in p.incoming if b in lp["body"]]
            up = bool(backs) and all(M.match(("bin", "add", ("inst", p.id), ("bind", "c", ("const",))), v, {}) is not None for v in backs)
            if not up:
                continue
            for (b, s) in edges:
                for f in (F.edge_facts(b, s) if s != lp["header"] or b not in lp["latches"] else F.on_edge(b, s)):
                    for lhs, rhs in ((f[1], f[2]), (f[2], f[1])):
                        if is_const(lhs):
                            continue
                        wi = widened_iv(fn, M, lhs, p)
                        if wi and wi[0] < wi[1] and _invariant(fn, lp, rhs, cg) and not fits(fn, F, M, rhs, wi[0], lp["header"], cg):
                            li.narrow = (wi[0], wi[1], describe(fn, rhs))
        if li.narrow:
            li.notes.append("class %s witness set aside: %s" % (li.cls, li.witness))
            li.cls = None
            li.witness = None
    return out


def _lin_in(fn, o, p, lp, cg):
    """operand as k*p + invariant part; returns k or None"""
    from .lin import linform
    inv_syms = {}

    def symf(x):
        x2 = Matcher(fn).strip(x)
        if x2 == ("v", p.id):
            return "P"
        if _invariant(fn, lp, x, cg):
            inv_syms[x] = 1
            return "inv%d" % (len(inv_syms))
        return None
    l = linform(fn, o, symf)
    if l is None:
        return None
    return l.t.get("P", 0)


def _class_a_latch(fn, F, M, lp, li, p, up, steps, cg):
    """constant-step phi: accept when every back edge carries 'P below bound' (up) / 'P above bound' (down),
    or an exit/latch comparison is linear in P with the right sign"""
    name = fn.var_name(p.id) or "%%%d" % p.id
    good_up = ("ult", "ule", "slt", "sle")
    good_dn = ("ugt", "uge", "sgt", "sge")
    all_ok = True
    for latch in lp["latches"]:
        ok = False
        for f in F.on_edge(latch, lp["header"]):
            for lhs, rhs, pred in ((f[1], f[2], f[0]), (f[2], f[1], {"ult": "ugt", "ule": "uge", "slt": "sgt", "sle": "sge", "ugt": "ult", "uge": "ule", "sgt": "slt", "sge": "sle"}.get(f[0]))):
                if pred is None or is_const(lhs):
                    continue
                k = _lin_in(fn, lhs, p, lp, cg)
                k2 = 0 if is_const(rhs) else _lin_in(fn, rhs, p, lp, cg)
                if k is None or k2 is None:
                    continue
                kk = k - k2
                if kk == 0:
                    continue
                rising = (kk > 0) == up      # the compared expression rises over the iterations
                if (rising and pred in good_up) or (not rising and pred in good_dn):
                    ok = True
        if not ok:
            all_ok = False
    if all_ok and lp["latches"]:
        li.cls = "A"
        li.witness = "%s steps by %s each iteration and every back edge requires it to be still %s an invariant bound" % (name, sorted(steps), "below" if up else "above")
        return
    for (b, s) in lp["exits"]:
        for f in F.edge_facts(b, s):
            if is_const(f[1]):
                continue
            k = _lin_in(fn, f[1], p, lp, cg)
            k2 = 0 if is_const(f[2]) else _lin_in(fn, f[2], p, lp, cg)
            if k is None or k2 is None or k - k2 == 0:
                continue
            rising = ((k - k2) > 0) == up
            if (rising and f[0] in good_dn) or (not rising and f[0] in good_up):
                li.cls = "A"
                li.witness = "%s steps by %s each iteration; exit when a linear expression of it crosses an invariant bound (%s)" % (name, sorted(steps), f[0])
                return


def _monotone(fn, M, p, v, down, seen):
    """does value v derive from phi p only through decrements (down) / increments; returns (ok, strict)"""
    v = M.strip(v)
    if v == ("v", p.id):
        return True, False
    d = fn.defn(v)
    if d is None or d.is_param:
        return False, False
    if d.id in seen:
        return True, True     # inside an inner cycle: covered by the other incomings
    seen = seen | {d.id}
    if d.op == "phi":
        strict = True
        for x, _ in d.incoming:
            ok, st = _monotone(fn, M, p, x, down, seen)
            if not ok:
                return False, False
            strict = strict and st
        return True, strict
    c = None
    if d.op in ("add", "sub") and is_const(d.ops[1]):
        c = const_val(d.ops[1]) if d.op == "add" else -const_val(d.ops[1])
    elif d.op == "getelementptr" and len([s for s in d.steps if "idx" in s]) == 1 and is_const(d.steps[0]["idx"]):
        c = const_val(d.steps[0]["idx"])
    if c is not None and c != 0 and ((c < 0) == down):
        ok, st = _monotone(fn, M, p, d.ops[0], down, seen)
        return ok, True
    return False, False


def _more_classes(fn, F, M, lp, li, phis, cg):
    body = lp["body"]
    for p in phis:
        backs = [(v, b) for v, b in p.incoming if b in body]
        if not backs:
            continue
        name = fn.var_name(p.id) or "%%%d" % p.id
        # monotone chain (nested loops modify the same variable)
        for down in (True, False):
            res = [_monotone(fn, M, p, v, down, frozenset()) for v, b in backs]
            if all(ok and st for ok, st in res):
                good = ("sle", "slt", "ule", "ult") if down else ("sge", "sgt", "uge", "ugt")
                for (b, s) in lp["exits"]:
                    for f in F.edge_facts(b, s):
                        if M.strip(f[1]) == ("v", p.id) and _invariant(fn, lp, f[2], cg) and f[0] in good:
                            li.cls = "A"
                            li.witness = "%s only %s (strictly, on every path through the body and its inner loops); exit when it is %s the invariant bound" % (
                                name, "decreases" if down else "increases", f[0])
                            return
                ok_l = True
                for latch in lp["latches"]:
                    fl = F.on_edge(latch, lp["header"])
                    if not any(M.strip(f[1]) == ("v", p.id) and _invariant(fn, lp, f[2], cg) and f[0] in (("sge", "sgt", "uge", "ugt") if down else ("sle", "slt", "ule", "ult")) for f in fl):
                        ok_l = False
                if ok_l and lp["latches"]:
                    li.cls = "A"
                    li.witness = "%s only %s and every back edge requires it to be still within the invariant bound" % (name, "decreases" if down else "increases")
                    return
        # A'': increases by a positive amount, back edge requires P <= B
        ok = True
        for v, b in backs:
            e = M.match(("bin", "add", ("inst", p.id), ("bind", "x")), v, {})
            if e is None:
                ok = False
                break
            facts = F.on_edge(b, lp["header"])
            pos = False
            xs = M.strip(e["x"])
            direct = xs[0] == "v" and (M.find_fact(("ne", ("inst", xs[1]), 0), facts)[0] is not None or
                                       any(f[0] in ("uge", "ugt") and M.strip(f[1]) == xs for f in facts))
            for s, fs in ([] if direct else F.sources(e["x"], stop=(p.id,))):
                allf = set(fs) | set(facts)
                if is_const(s):
                    pos = const_val(s) > 0
                else:
                    pos = M.find_fact(("ne", ("inst", M.strip(s)[1]) if M.strip(s)[0] == "v" else ANY, 0), allf)[0] is not None or \
                        any(f[0] in ("uge", "ugt") and M.strip(f[1]) == M.strip(s) for f in allf)
                if not pos:
                    break
            if not pos and not direct:
                ok = False
            if not any(M.strip(f[1]) == ("v", p.id) and f[0] in ("ule", "ult") and _invariant(fn, lp, f[2], cg) for f in facts):
                ok = False
        if ok and backs:
            li.cls = "A'"
            li.witness = "%s grows by a positive amount each iteration and every back edge requires it to be still at most the invariant bound" % name
            return
        # scans: while (*p == c) ++p  (c != 0: stops at the terminator at the latest)
        if p.ty.endswith("*") or True:
            stepok = all(M.match(("gep", ("inst", p.id), [1]), v, {}) is not None or M.match(("bin", "add", ("inst", p.id), 1), v, {}) is not None for v, b in backs)
            if stepok:
                allc = True
                for latch in lp["latches"]:
                    okc = False
                    for f in F.on_edge(latch, lp["header"]):
                        d = fn.defn(M.strip(f[1]))
                        if d is not None and not d.is_param and d.op == "load":
                            a = M.strip(d.ops[0], ("bitcast",))
                            at_cursor = a == ("v", p.id) or M.match(("gep", ANY, [("inst", p.id)]), d.ops[0], {}) is not None
                            if at_cursor and ((f[0] == "eq" and is_const(f[2]) and const_val(f[2]) != 0) or (f[0] == "ne" and is_const(f[2]) and const_val(f[2]) == 0)):
                                okc = True
                    if not okc:
                        allc = False
                if allc and lp["latches"]:
                    li.cls = "C"
                    li.witness = "cursor advances one element per iteration and the back edge requires the element at the cursor to be non-zero (terminated string/array)"
                    return
        # strchr advance: p' = strchr(p, c) + 1, exit when strchr returns NULL
        for v, b in backs:
            e = M.match(("gep", ("bind", "s", ("call", "strchr", [("inst", p.id), ANY])), [1]), v, {})
            if e is not None and any(M.find_fact(("eq", ("inst", e["s"][1]), 0), F.edge_facts(b2, s2))[0] is not None for (b2, s2) in lp["exits"]):
                li.cls = "C"
                li.witness = "cursor moves past the next separator found by strchr each iteration; exit when strchr finds none (NUL-terminated string)"
                return
        # list walk with the test on the back edge
        if p.ty.endswith("*"):
            link = all(M.match(("load", ("field", None, None, ("inst", p.id))), v, {}) is not None or M.match(("field", None, None, ("load", ("inst", p.id))), v, {}) is not None for v, b in backs)
            if link and all(any(f[0] == "ne" and is_const(f[2]) and const_val(f[2]) == 0 and (M.strip(f[1], ("bitcast",)) == ("v", p.id) or M.match(("load", ("inst", p.id)), f[1], {}) is not None)
                                for f in F.on_edge(latch, lp["header"])) for latch in lp["latches"]):
                li.cls = "D"
                li.witness = "cursor follows a link field each iteration and the back edge requires the node to be non-NULL (acyclic list)"
                return
    # A-mem: counter kept in memory: exit compares load(F) with an invariant; every path through the body stores F = load(F) +- const
    for (b, s) in lp["exits"]:
        for f in F.edge_facts(b, s):
            d = fn.defn(M.strip(f[1]))
            if d is None or d.is_param or d.op != "load" or d.block.id not in body:
                continue
            if not _invariant_except(fn, lp, f[2], cg):
                continue
            sts = [st for bb in body for st in fn.blocks[bb].insts if st.op == "store" and M.strip(st.ops[1], ("bitcast",)) == M.strip(d.ops[0], ("bitcast",))]
            if len(sts) != 1:
                continue
            st = sts[0]
            e = M.match(("bin", "add", ("or", ("inst", d.id), ("load", ("inst", M.strip(d.ops[0], ("bitcast",))[1]) if M.strip(d.ops[0], ("bitcast",))[0] == "v" else ANY)), ("bind", "c", ("const",))), st.ops[0], {})
            if e is None:
                continue
            c = const_val(e["c"])
            if c == 0:
                continue
            # the store lies on every path from header to latch
            if not all(fn.dominates(st.block.id, latch) for latch in lp["latches"]):
                continue
            if (f[0] == "eq" and abs(c) == 1) or (c > 0 and f[0] in ("uge", "ugt", "sge", "sgt")) or (c < 0 and f[0] in ("ule", "ult", "sle", "slt")):
                li.cls = "A"
                li.witness = "a counter kept in memory changes by %+d exactly once per iteration; exit when it is %s an invariant bound" % (c, f[0])
                return


def _invariant_except(fn, lp, o, cg):
    return _invariant(fn, lp, o, cg)
