"""E8 LOOPS: termination classifier.  Every natural loop must be placed in a class
with a witness:

 A  counted      a header phi changes by a non-zero constant on every back edge and an exit
                 edge compares it with a loop-invariant bound (or tests equality, step +-1)
 A' decreasing   a header phi P becomes P - X on every back edge with 0 < X <= P established by
                 branch facts, and the loop is left when P == 0
 B  input-driven a call to a read-like function sits in the body and every back edge carries the
                 negation of its 'exhausted' outcome
 C  NUL scan     pointer/index advances one element per iteration, exit tests the loaded byte for 0
 D  list walk    cursor advances along a `_next`-style link, exit tests it for NULL
 E  listed       named exception with a reason
"""
from .facts import Facts, Matcher, ANY, is_const, const_val, NEG, SWAP, norm_fact, describe
from .ir import field_of_gep
from .mem import root

# read-like functions: callee C name -> list of fact patterns (pred, const) on the call result that mean
# "exhausted / failed"; the back edge must carry the negation of one of them
READ_LIKE = {
    "lha_reader_next_file": [("eq", 0)], "lha_filter_next_file": [("eq", 0)], "lha_basic_reader_next_file": [("eq", 0)],
    "lha_reader_read": [("eq", 0), ("ule", 0)], "lha_decoder_read": [("eq", 0), ("ule", 0)],
    "lha_input_stream_read": [("eq", 0)], "do_read": [("sle", 0), ("slt", 1)],
    "read_bits": [("slt", 0)], "read_bit": [("slt", 0)], "peek_bits": [("slt", 0)], "read_from_tree": [("slt", 0)],
    "read_code": [("slt", 0)], "read_length_value": [("slt", 0)], "read_offset_code": [("slt", 0)],
    "getchar": [("slt", 0)], "getc": [("slt", 0)], "extend_raw_data": [("eq", 0)], "read_next_entry": [("slt", 0)],
    "fread": [("eq", 0)], "<callback>": [("eq", 0)], "start_new_block": [("eq", 0)],
}


_PURE_EXTERNALS = {"printf", "fprintf", "puts", "putchar", "strlen", "strcmp", "strncmp", "fflush", "fwrite", "fputs", "tolower", "toupper",
                   "__ctype_b_loc", "__ctype_tolower_loc", "strchr", "strrchr", "memcmp", "safe_printf"}
_tw_cache = {}


def _type_writers(cg):
    k = id(cg)
    if k not in _tw_cache:
        tw = {}
        for f in cg.mod.defined():
            for i in f.insts():
                if i.op == "store":
                    a = f.defn(i.ops[1])
                    if a is not None:
                        tw.setdefault(a.ty, set()).add(f.name)
        _tw_cache[k] = tw
    return _tw_cache[k]


class LoopInfo:
    def __init__(self, fn, lp):
        self.fn, self.lp = fn, lp
        self.header = lp["header"]
        self.line = fn.blocks[self.header].term.line()
        self.cls = None
        self.wrap = None
        self.witness = None
        self.notes = []
        self.narrow = None      # (iv bits, bound bits, bound description) when a counter narrower than its bound is compared after widening

    def key(self):
        return "%s@%s" % (self.fn.cname, self.line)



_PUBLIC = None


def public_api():
    """identifiers declared as functions in lib/public/*.h (callable by code outside the analysed program)"""
    global _PUBLIC
    if _PUBLIC is None:
        import glob, os, re
        from .build import REPO
        _PUBLIC = {"main"}
        for h in glob.glob(os.path.join(REPO, "lib", "public", "*.h")):
            _PUBLIC |= set(re.findall(r"\b([A-Za-z_][A-Za-z0-9_]*)\s*\(", open(h, errors="replace").read()))
    return _PUBLIC


def widened_iv(fn, M, lhs_raw, p):
    """if the compared value is phi p (possibly +-const) widened by zext/sext, return (iv bits, compared bits)"""
    d = fn.defn(lhs_raw)
    if d is not None and not d.is_param and d.op in ("zext", "sext"):
        inner = M.strip(d.ops[0], ("bitcast",))
        di = fn.defn(inner)
        if di is not None and not di.is_param and di.op in ("add", "sub") and is_const(di.ops[1]):
            inner = M.strip(di.ops[0], ("bitcast",))
        if inner == ("v", p.id):
            return fn.mod.int_bits(p.ty) or 0, fn.mod.int_bits(d.ty) or 0
    return None


def fits(fn, F, M, o, bits, at_block, cg=None, depth=0):
    """operand o is provably < 2^bits (unsigned) at at_block: constants, values widened from <= bits, masked / shifted values,
    phi/select of such, a - b under the fact a >= b, and parameters all of whose direct call sites pass such values"""
    if is_const(o):
        return 0 <= const_val(o) < (1 << bits)
    d = fn.defn(o)
    if d is None or depth > 14:
        return False
    if d.is_param:
        if cg is None:
            return False
        # every call site of fn: direct calls, and indirect calls the call graph resolves to fn (table / callback fields)
        sites = [(c.fn, c) for (caller, callee), cs in cg.sites.items() if callee == fn.name for c in cs]
        sites += [(c.fn, c) for c, targets, how in cg.indirect if fn.name in targets]
        if not sites or (not fn.internal and not any(True for _ in sites)):
            return False
        if not fn.internal and fn.name not in cg.addr_taken and False:
            return False
        from .facts import Facts
        for g, c in sites:
            if d.index >= len(c.ops):
                return False
            if not fits(g, Facts(g) if g is not fn else F, Matcher(g), c.ops[d.index], bits, c.block.id, cg, depth + 2):
                return False
        # an externally visible function of the public API can also be called from outside the program
        return fn.internal or fn.cname not in public_api()
    w = fn.mod.int_bits(d.ty) or 64
    if w <= bits:
        return True
    if d.op in ("zext",):
        return _bits_of(fn, d.ops[0]) <= bits or fits(fn, F, M, d.ops[0], bits, at_block, cg, depth + 1)
    if d.op == "and":
        return any(is_const(x) and 0 <= const_val(x) < (1 << bits) for x in d.ops) or any(fits(fn, F, M, x, bits, at_block, cg, depth + 1) for x in d.ops)
    if d.op in ("lshr", "udiv", "urem"):
        return fits(fn, F, M, d.ops[0], bits, at_block, cg, depth + 1) or (d.op == "urem" and fits(fn, F, M, d.ops[1], bits, at_block, cg, depth + 1))
    if d.op in ("phi", "select"):
        vals = [v for v, _ in d.incoming] if d.op == "phi" else d.ops[1:]
        return all(M.strip(v) == ("v", d.id) or fits(fn, F, M, v, bits, at_block, cg, depth + 1) for v in vals)
    if d.op == "sub":
        a, b = d.ops
        # the whole difference is the left side minus the right side of an available fact X >= Y with X fitting: 0 <= o <= X
        from .lin import linform

        def atom(x):
            dx = fn.defn(x)
            if dx is None:
                return None
            if dx.is_param:
                return "p%d" % dx.index
            return "v%d" % dx.id if dx.op in ("phi", "load", "call", "select") else None
        lo = linform(fn, o, atom)
        if lo is not None:
            for f in F.at_block(at_block):
                if f[0] in ("uge", "ugt") and not is_const(f[1]):
                    lx, ly = linform(fn, f[1], atom), linform(fn, f[2], atom)
                    if lx is not None and ly is not None and lx.add(ly, -1) == lo and fits(fn, F, M, f[1], bits, at_block, cg, depth + 1):
                        return True
        if fits(fn, F, M, a, bits, at_block, cg, depth + 1):
            for f in F.at_block(at_block):
                if f[0] in ("uge", "ugt") and M.strip(f[1]) == M.strip(a):
                    if M.strip(f[2]) == M.strip(b) or (is_const(f[2]) and is_const(b) and const_val(f[2]) >= const_val(b)):
                        return True
                    # a >= b + c  (c >= 0)
                    e = M.match(("bin", "add", ("bind", "x"), ("bind", "c", ("const",))), f[2], {})
                    if e is not None and M.strip(e["x"]) == M.strip(b) and const_val(e["c"]) >= 0:
                        return True
        return False
    if d.op == "sext":
        # non-negative narrow value: y = v (+ c) with a signed lower bound on v among the facts
        y = d.ops[0]
        if _bits_of(fn, y) > bits:
            return False
        c0 = 0
        v = y
        for _ in range(4):          # y = ((v + c1) - c2) + ...
            dy = fn.defn(v)
            if dy is not None and not dy.is_param and dy.op in ("add", "sub") and is_const(dy.ops[1]):
                cc = const_val(dy.ops[1])
                if cc >= (1 << 31):
                    cc -= (1 << 32)
                c0 += cc if dy.op == "add" else -cc
                v = dy.ops[0]
            else:
                break
        for f in F.at_block(at_block):
            if M.strip(f[1], ()) == M.strip(v, ()) and is_const(f[2]):
                k = const_val(f[2])
                if k >= (1 << 31):
                    k -= (1 << 32)
                lo = k if f[0] == "sge" else (k + 1 if f[0] == "sgt" else None)
                if lo is not None and lo + c0 >= 0 and lo + c0 < (1 << 31):
                    return True
        return False
    return False


_NEG = {"ugt": "ule", "uge": "ult", "ult": "uge", "ule": "ugt", "sgt": "sle", "sge": "slt", "slt": "sge", "sle": "sgt"}


def wrap_safe(fn, F, M, cont_pred, lhs, rhs, up, smax, cg, at, cw=None):
    """the loop continues under `lhs cont_pred rhs` with lhs rising (up) or falling by at most smax per iteration: can lhs get past the bound at all,
    or would it wrap round inside its type first?  `k <= B` never fails when B is the largest value of the type; `k >= B` never fails for B == 0."""
    ty = None
    d = fn.defn(lhs) if not is_const(lhs) else None
    if d is not None:
        ty = d.ty
    if ty is None or ty.endswith("*"):
        return True                     # pointers: the object ends long before the address space does
    w = fn.mod.int_bits(ty) or 64
    strict = cont_pred in ("ult", "slt", "ugt", "sgt")
    if cw is not None and cw < w and up:
        # the counter itself is only cw bits wide and is widened for the comparison: it must be able to get past the bound before it wraps to 0
        if strict and smax == 1:
            return True                 # k < B in steps of one: whether B fits the counter is the `narrow` question, asked by the caller
        need = smax or (1 << 16)
        if is_const(rhs):
            return const_val(rhs) is not None and 0 <= const_val(rhs) and const_val(rhs) + need <= (1 << cw) - 1
        iv = interval(fn, F, M, rhs, F.at_block(at))
        return iv[1] + need <= (1 << cw) - 1
    if strict and (smax is not None and smax == 1):
        return True                     # k < B, k += 1: k reaches B exactly
    signed = cont_pred[0] == "s"
    if smax is None:
        smax = 1 << 16                  # a linear form of the counter: some room is needed, how much is not computed
    if is_const(rhs):
        c = const_val(rhs)
        if c is None:
            return False
        if signed and c >= (1 << (w - 1)):
            c -= (1 << w)
        if not signed and c < 0:
            c += (1 << w)
        hi = ((1 << (w - 1)) - 1) if signed else ((1 << w) - 1)
        lo = -(1 << (w - 1)) if signed else 0
        return (c + smax <= hi) if up else (c - smax >= lo)
    if w >= 64 and cw is None:
        # a 64-bit count compared with a 64-bit quantity that is not a constant: lengths, sizes and positions of objects and streams stay below
        # 2^63 (the assumption RANGE and the symbolic bounds already rest on, DESIGN §6), so there is room on either side
        return True
    iv = interval(fn, F, M, rhs, F.at_block(at))
    if up:
        if fits(fn, F, M, rhs, w - 2 if signed else w - 1, at, cg):
            return True
        # read as signed the bound has a finite upper end with room to spare (for an unsigned comparison it must also be known non-negative)
        return iv[1] < (1 << (w - 2)) and (signed or iv[0] >= 0)
    if signed:
        return fits(fn, F, M, rhs, w - 2, at, cg) or iv[0] > -(1 << (w - 2))       # a bound far from INT_MIN
    if iv[0] >= smax:
        return True
    # unsigned, counting down to a variable bound: it must be known to be at least smax
    return any(f[0] in ("uge", "ugt") and M.strip(f[1]) == M.strip(rhs) and is_const(f[2]) and (const_val(f[2]) or 0) >= smax for f in F.at_block(at))



def _bits_of(fn, o):
    if is_const(o):
        return 64
    d = fn.defn(o)
    return (fn.mod.int_bits(d.ty) or 64) if d is not None else 64


def _invariant(fn, lp, o, cg, depth=0):
    """operand o does not change while the loop runs"""
    if is_const(o) or o[0] in ("gv", "fn", "null", "ce"):
        return True
    d = fn.defn(o)
    if d is None:
        return False
    if d.is_param or d.block.id not in lp["body"]:
        return True
    if depth > 8:
        return False
    if d.op in ("zext", "sext", "trunc", "bitcast", "add", "sub", "mul", "and", "or", "shl", "lshr", "getelementptr"):
        return all(_invariant(fn, lp, x, cg, depth + 1) for x in d.ops)
    if d.op == "load":
        if not _invariant(fn, lp, d.ops[0], cg, depth + 1):
            return False
        r0 = root(fn, d.ops[0])
        if r0[0] == "global" and fn.mod.globals.get(r0[1], {}).get("constant"):
            return True
        a = fn.defn(d.ops[0])
        fo = field_of_gep(fn.mod, a) if a is not None and not a.is_param and a.op == "getelementptr" else None
        for b in lp["body"]:
            for i in fn.blocks[b].insts:
                if i.op == "store":
                    a2 = fn.defn(i.ops[1])
                    fo2 = field_of_gep(fn.mod, a2) if a2 is not None and not a2.is_param and a2.op == "getelementptr" else None
                    if fo is None or fo2 is None or fo == fo2:
                        r1, r2 = root(fn, d.ops[0]), root(fn, i.ops[1])
                        if r1[0] == "alloca" and r2[0] == "alloca" and r1[1] != r2[1]:
                            continue
                        if fo is not None and fo2 is not None and fo != fo2:
                            continue
                        return False
                elif i.op == "call" and i.callee and not i.callee.startswith("llvm.dbg"):
                    if fo is None:
                        r1 = root(fn, d.ops[0])
                        if r1[0] == "alloca":
                            from .mem import alloca_captured, derived_values
                            if not alloca_captured(fn, r1[1]) and not any(a_[0] == "v" and a_[1] in derived_values(fn, r1[1]) for a_ in i.ops):
                                continue
                        # type-based: does anything reachable from the callee store through a pointer of this type?
                        a0 = fn.defn(d.ops[0])
                        aty = a0.ty if a0 is not None else None
                        if cg is not None and aty is not None and not (cg.reachable([i.callee]) & _type_writers(cg).get(aty, set())):
                            cf = fn.mod.functions.get(i.callee)
                            if cf is not None and (not cf.decl or i.callee in _PURE_EXTERNALS):
                                continue
                        return False
                    if cg is not None and (cg.reachable([i.callee]) & cg.field_writers(fo[0], fo[1])):
                        return False
        return True
    return False


# Read-like functions whose *contract* is consumption of a finite external sequence (bytes of the input, members of the archive,
# declared length of a member, characters of stdin): a non-exhausted outcome means that sequence advanced.
TRUSTED_IO = {"lha_reader_next_file", "lha_filter_next_file", "lha_basic_reader_next_file", "lha_reader_read", "lha_decoder_read",
              "lha_input_stream_read", "do_read", "getchar", "getc", "extend_raw_data", "fread", "<callback>"}
# Everything else in READ_LIKE belongs to the bit-level family, where "did not fail" does NOT by itself mean "consumed input":
# peek_bits never consumes, read_bits(r, 0) consumes nothing, read_from_tree on a single-leaf tree reads no bit.  For those the
# consumption is *derived* (consuming_function): every non-exhausted return lies behind a successful read_bits(r, n >= 1) /
# read_bit, directly or through a function already shown to consume.
_BIT_PRIMITIVES = {"read_bits", "read_bit"}


def refutes_exhausted(M, facts, vid, cn):
    """the facts exclude every exhausted outcome of read-like callee cn for the value with SSA id vid"""
    lo, hi = -(1 << 63), (1 << 63) - 1
    nonzero = False
    for f in facts:
        if M.strip(f[1]) != ("v", vid) or not is_const(f[2]) or const_val(f[2]) is None:
            continue
        kk = const_val(f[2])
        if kk >= (1 << 31) and f[0][0] == "s":
            kk -= (1 << 32)
        if f[0] in ("sgt", "ugt"):
            lo = max(lo, kk + 1)
        elif f[0] in ("sge", "uge"):
            lo = max(lo, kk)
        elif f[0] == "slt":
            hi = min(hi, kk - 1)
        elif f[0] == "sle":
            hi = min(hi, kk)
        elif f[0] == "eq":
            lo, hi = max(lo, kk), min(hi, kk)
        elif f[0] == "ne" and kk == 0:
            nonzero = True
    for pred, k in READ_LIKE[cn]:
        ex_lo, ex_hi = {"eq": (k, k), "slt": (-(1 << 63), k - 1), "sle": (-(1 << 63), k), "ule": (0, k)}.get(pred, (None, None))
        ok_ = ex_lo is not None and (hi < ex_lo or lo > ex_hi)
        if pred in ("eq", "ule") and k == 0 and nonzero:
            ok_ = True
        if M.find_fact((NEG[pred], ("inst", vid), k), facts)[0] is not None:
            ok_ = True
        if not ok_:
            return False
    return True


def _const_exhausted(cn, o):
    if not is_const(o) or const_val(o) is None:
        return False
    k = const_val(o)
    if k >= (1 << 31):
        k -= (1 << 32)
    for pred, c in READ_LIKE[cn]:
        if (pred == "eq" and k == c) or (pred == "slt" and k < c) or (pred == "sle" and k <= c) or (pred == "ule" and 0 <= k <= c):
            return True
    return False


_consume_cache = {}


def call_consumes(fn, F, M, c, cn, stack=()):
    """a non-exhausted outcome of read-like call c (callee C name cn) in fn means that input was consumed"""
    if cn in TRUSTED_IO:
        return True
    if cn == "read_bits":
        if len(c.ops) < 2:
            return False
        n = c.ops[1]
        if is_const(n):
            return 0 < const_val(n) < (1 << 31)
        fs = F.at_inst(c)
        ns = M.strip(n)
        return any(M.strip(f[1]) == ns and is_const(f[2]) and ((f[0] in ("ugt", "sgt") and const_val(f[2]) >= 0) or (f[0] in ("uge", "sge") and const_val(f[2]) >= 1) or
                                                                 (f[0] == "ne" and const_val(f[2]) == 0)) for f in fs)
    g = fn.mod.functions.get(c.callee) if c.callee else None
    if g is None or g.decl:
        return False
    return consuming_function(g, stack)


def _bit_decrements(g, F, M):
    """stores `reader->bits = reader->bits - c` with a constant c >= 1 under a fact that the count is at least c (no wrap)"""
    out = []
    for st in g.insts():
        if st.op != "store":
            continue
        a = g.defn(st.ops[1])
        fo = field_of_gep(g.mod, a) if a is not None and not a.is_param and a.op == "getelementptr" else None
        if not fo or fo != ("BitStreamReader", "bits"):
            continue
        e = M.match(("bin", "sub", ("bind", "x", ("load", ("field", "BitStreamReader", "bits", ANY))), ("bind", "c", ("const",))), st.ops[0], {})
        c = const_val(e["c"]) if e is not None else None
        if e is None:
            e = M.match(("bin", "add", ("bind", "x", ("load", ("field", "BitStreamReader", "bits", ANY))), ("bind", "c", ("const",))), st.ops[0], {})
            c = None
            if e is not None and const_val(e["c"]) is not None:
                c = (1 << 32) - const_val(e["c"]) if const_val(e["c"]) >= (1 << 31) else -const_val(e["c"])
        if e is None or c is None or not (1 <= c <= 32):
            continue
        fs = F.at_inst(st)
        xs = M.strip(e["x"])
        if any(M.strip(f[1]) == xs and is_const(f[2]) and ((f[0] == "ne" and const_val(f[2]) == 0 and c == 1) or (f[0] == "uge" and const_val(f[2]) >= c) or
                                                         (f[0] == "ugt" and const_val(f[2]) >= c - 1)) for f in fs) or \
                any(M.match(("load", ("field", "BitStreamReader", "bits", ANY)), f[1], {}) is not None and is_const(f[2]) and
                    ((f[0] == "ne" and const_val(f[2]) == 0 and c == 1) or (f[0] == "uge" and const_val(f[2]) >= c) or (f[0] == "ugt" and const_val(f[2]) >= c - 1)) for f in fs):
            out.append(st)
    return out


def consuming_function(g, stack=()):
    """every return of g whose value is not an exhausted outcome lies behind a successful consuming read"""
    key = (id(g.mod), g.name)
    if key in _consume_cache:
        return _consume_cache[key]
    if g.name in stack or g.cname not in READ_LIKE:
        return False
    from .facts import Facts
    F = Facts(g)
    M = Matcher(g)
    reads = []
    for i in g.insts():
        if i.op == "call":
            cn = g.mod.callee_cname(i)
            if cn in READ_LIKE and cn not in TRUSTED_IO and call_consumes(g, F, M, i, cn, stack + (g.name,)):
                reads.append((i, cn))
    ok = True
    nret = 0
    for r in g.insts():
        if r.op != "ret" or not r.ops:
            continue
        for s, fs in F.sources(r.ops[0]):
            nret += 1
            if _const_exhausted(g.cname, s):
                continue
            ss = M.strip(s)
            if any(ss == ("v", c.id) and READ_LIKE[cn] == READ_LIKE[g.cname] for c, cn in reads):
                continue            # the result of a consuming read handed on unchanged: exhausted stays exhausted, success consumed
            if any(refutes_exhausted(M, fs, c.id, cn) for c, cn in reads):
                continue
            # taken straight from the bit buffer: the value is computed in a block through which `reader->bits -= c` (c >= 1) runs,
            # under the fact that at least that many bits are waiting
            ds = g.defn(ss)
            if ds is not None and not ds.is_param and any(g.dominates(st.block.id, ds.block.id) for st in _bit_decrements(g, F, M)):
                continue
            ok = False
    ok = ok and nret > 0
    _consume_cache[key] = ok
    return ok


INF = float("inf")


def _sc(k, bits=32):
    return k - (1 << bits) if k >= (1 << (bits - 1)) else k


def interval(fn, F, M, v, facts, depth=0, seen=frozenset(), bound=None):
    """signed interval (lo, hi) of integer operand v wherever `facts` and the facts at v's definition hold; (-INF, INF) if unknown.
    A small expression evaluator (constants, + - << >> & % / casts, phi/select, read_bits) - enough for counts decoded from a few bits."""
    if is_const(v):
        c = const_val(v)
        if c is None:
            return (-INF, INF)
        return (_sc(c, 64) if c >= (1 << 63) else (_sc(c) if (1 << 31) <= c < (1 << 32) else c),) * 2
    d = fn.defn(v)
    if d is None or depth > 10:
        return (-INF, INF)
    w = fn.mod.int_bits(d.ty) or 64
    lo, hi = -(1 << (w - 1)), (1 << (w - 1)) - 1            # whatever it is, it is a w-bit value (read as signed)
    if bound is not None:                                   # v is the source that produced a merged value known to lie in `bound`
        lo, hi = max(lo, bound[0]), min(hi, bound[1])

    def meet(a, b):
        return (max(a[0], b[0]), min(a[1], b[1]))
    allf = set(facts) | (set(F.at_inst(d)) if not d.is_param else set())
    vs = M.strip(v, ())
    known_nonneg = False
    for f in allf:
        if M.strip(f[1], ()) != vs or not is_const(f[2]) or const_val(f[2]) is None:
            continue
        k = _sc(const_val(f[2]), w) if w in (8, 16, 32, 64) and const_val(f[2]) >= (1 << (w - 1)) else const_val(f[2])
        if f[0] == "sge":
            lo = max(lo, k)
        elif f[0] == "sgt":
            lo = max(lo, k + 1)
        elif f[0] == "sle":
            hi = min(hi, k)
        elif f[0] == "slt":
            hi = min(hi, k - 1)
        elif f[0] == "eq":
            lo, hi = max(lo, k), min(hi, k)
        elif f[0] in ("ult", "ule") and k >= 0:
            # unsigned upper bound below 2^(w-1): the value is non-negative and below it
            lo, hi = max(lo, 0), min(hi, k - 1 if f[0] == "ult" else k)
    if d.is_param:
        return (lo, hi)
    r = (-INF, INF)
    op = d.op
    sub = lambda o: interval(fn, F, M, o, allf, depth + 1, seen)      # d exists only where the facts at its definition hold: so do its operands there
    if op in ("add", "sub"):
        a, b = sub(d.ops[0]), sub(d.ops[1])
        r = (a[0] + b[0], a[1] + b[1]) if op == "add" else (a[0] - b[1], a[1] - b[0])
        if r[0] < -(1 << (w - 1)) or r[1] >= (1 << (w - 1)):
            r = (-INF, INF)         # may wrap
    elif op in ("zext", "sext", "trunc"):
        a = sub(d.ops[0])
        wf = fn.mod.int_bits(fn.defn(d.ops[0]).ty) if fn.defn(d.ops[0]) is not None else None
        if op == "zext":
            r = a if a[0] >= 0 else ((0, (1 << wf) - 1) if wf else (0, INF))
        elif op == "sext":
            r = a
        else:
            r = a if a[0] >= -(1 << (w - 1)) and a[1] < (1 << (w - 1)) else (-INF, INF)
    elif op == "and":
        for x in d.ops:
            if is_const(x) and const_val(x) is not None and 0 <= const_val(x) < (1 << (w - 1)):
                r = meet(r, (0, const_val(x)))
        a, b = sub(d.ops[0]), sub(d.ops[1])
        if a[0] >= 0:
            r = meet(r, (0, a[1]))
        if b[0] >= 0:
            r = meet(r, (0, b[1]))
    elif op in ("srem", "urem") and is_const(d.ops[1]) and (const_val(d.ops[1]) or 0) > 0:
        c = const_val(d.ops[1])
        a = sub(d.ops[0])
        r = (0, c - 1) if (a[0] >= 0 or op == "urem") else (-(c - 1), c - 1)
    elif op in ("sdiv", "udiv") and is_const(d.ops[1]) and (const_val(d.ops[1]) or 0) > 0:
        c = const_val(d.ops[1])
        a = sub(d.ops[0])
        if a[0] >= 0 and a[1] < INF:
            r = (a[0] // c, a[1] // c)
    elif op == "shl":
        a, b = sub(d.ops[0]), sub(d.ops[1])
        if a[0] >= 0 and b[0] >= 0 and a[1] < INF and b[1] < w and (a[1] << int(b[1])) < (1 << (w - 1)):
            r = (a[0] << int(b[0]), a[1] << int(b[1]))
    elif op in ("lshr", "ashr"):
        a, b = sub(d.ops[0]), sub(d.ops[1])
        if a[0] >= 0 and b[0] >= 0 and a[1] < INF and b[1] < INF:
            r = (a[0] >> int(min(b[1], 63)), a[1] >> int(b[0]))
    elif op == "phi" or op == "select":
        if d.id in seen:
            r = (-INF, INF)             # a value carried round a loop: nothing is known of it here (no widening is attempted)
        else:
            srcs = [(x, F.on_edge(pb, d.block.id)) for x, pb in d.incoming] if op == "phi" else \
                [(d.ops[1], F.cond_facts(d.ops[0], True)), (d.ops[2], F.cond_facts(d.ops[0], False))]
            ulo, uhi = INF, -INF
            for x, fs in srcs:
                a = interval(fn, F, M, x, set(allf) | set(fs), depth + 1, seen | {d.id}, (lo, hi))
                a = meet(a, (lo, hi))           # what is known of the merged value holds for the source that produced it
                if a[0] > a[1]:
                    continue                    # this source is excluded by the facts
                ulo, uhi = min(ulo, a[0]), max(uhi, a[1])
            r = (ulo, uhi) if ulo <= uhi else (-INF, INF)
    elif op == "call":
        cn = fn.mod.callee_cname(d)
        if cn in ("read_bits", "peek_bits") and len(d.ops) >= 2:
            n = sub(d.ops[1])
            if 0 <= n[0] and n[1] <= 30:
                r = (-1, (1 << int(n[1])) - 1)
        elif cn == "read_bit":
            r = (-1, 1)
    elif op == "load" and d.size in (1, 2):
        r = (-(1 << (8 * d.size - 1)), (1 << (8 * d.size)) - 1)
    return meet(r, (lo, hi))


def _positive(fn, F, M, v, facts):
    """v > 0 wherever `facts` hold"""
    iv = interval(fn, F, M, v, facts)
    return iv[0] >= 1 and iv[0] <= iv[1]


def _first_iteration_runs(fn, F, M, L):
    """the loop L cannot be left during its first pass through the header region: walking from the header with the header phis at
    their entry values, every branch met is decided by the facts on the entry edge and stays inside L until a back edge (or a point
    from which no exit of L is reachable without passing the header again)"""
    hdr = L["header"]
    body = L["body"]
    entries = [p for p in fn.blocks[hdr].preds if p not in body]
    if len(entries) != 1:
        return False
    pre = entries[0]
    facts = set(F.on_edge(pre, hdr))
    env = {}
    for i in fn.blocks[hdr].insts:
        if i.op == "phi":
            for v, pb in i.incoming:
                if pb == pre:
                    env[i.id] = v

    def sub(o):
        o2 = M.strip(o, ("bitcast",)) if not is_const(o) else o
        if o2[0] == "v" and o2[1] in env:
            return env[o2[1]]
        o3 = M.strip(o) if not is_const(o) else o          # a widened / narrowed copy of a phi that enters with a small constant
        if o3[0] == "v" and o3[1] in env and is_const(env[o3[1]]) and const_val(env[o3[1]]) is not None and 0 <= const_val(env[o3[1]]) < 128:
            return env[o3[1]]
        return o

    def truth(o, depth=0):
        """True / False / None for an i1 operand under env + facts"""
        if is_const(o):
            return bool(const_val(o))
        if o[0] == "v" and o[1] in env:
            return truth(env[o[1]], depth + 1) if depth < 6 else None
        d = fn.defn(o)
        if d is None or d.is_param or d.op != "icmp":
            return None
        a, b = sub(d.ops[0]), sub(d.ops[1])
        pred = d.pred
        if is_const(a) and is_const(b):
            x, y = const_val(a), const_val(b)
            if pred[0] == "s":
                x = x - (1 << 32) if x >= (1 << 31) else x
                y = y - (1 << 32) if y >= (1 << 31) else y
            return {"eq": x == y, "ne": x != y, "slt": x < y, "ult": x < y, "sle": x <= y, "ule": x <= y, "sgt": x > y, "ugt": x > y, "sge": x >= y, "uge": x >= y}[pred]
        p_, a_, b_ = norm_fact(pred, a, b)
        for cand, val in (((p_, a_, b_), True), ((NEG[p_], a_, b_), False)):
            for f in facts:
                if f[0] == cand[0] and M.strip(f[1]) == M.strip(cand[1]) and (f[2] == cand[2] or (not is_const(f[2]) and not is_const(cand[2]) and M.strip(f[2]) == M.strip(cand[2]))):
                    return val
                if not is_const(f[2]) and not is_const(cand[2]) and f[0] == SWAP[cand[0]] and M.strip(f[1]) == M.strip(cand[2]) and M.strip(f[2]) == M.strip(cand[1]):
                    return val
        # x > 0 / x >= 1 / x != 0 for a value shown positive by its sources
        if is_const(b_) and ((p_ in ("sgt", "ugt", "ne") and const_val(b_) == 0) or (p_ in ("sge", "uge") and const_val(b_) == 1)):
            if _positive(fn, F, M, a_, facts):
                return True
        if is_const(b_) and ((p_ in ("sle", "ule", "eq") and const_val(b_) == 0) or (p_ in ("slt", "ult") and const_val(b_) == 1)):
            if _positive(fn, F, M, a_, facts):
                return False
        return None

    cur, prev = hdr, pre
    for _ in range(64):
        blk = fn.blocks[cur]
        if cur != hdr:
            for i in blk.insts:
                if i.op == "phi":
                    for v, pb in i.incoming:
                        if pb == prev:
                            env[i.id] = sub(v) if not is_const(v) else v
        t = blk.term
        succs = blk.succs
        if len(succs) == 1:
            nxt = succs[0]
        elif t.op == "br" and len(t.succs) == 2 and t.ops:
            tv = truth(t.ops[0])
            if tv is None:
                break
            nxt = t.succs[0] if tv else t.succs[1]
        else:
            break
        if nxt not in body:
            return False
        if nxt == hdr:
            return True
        prev, cur = cur, nxt
    # stuck at `cur`: fine only if no exit of L can be reached from here without passing the header again
    seen, work = set(), [cur]
    while work:
        x = work.pop()
        if x in seen or x == hdr and x != cur:
            continue
        seen.add(x)
        for s2 in fn.blocks[x].succs:
            if s2 not in body:
                return False
            if s2 != hdr:
                work.append(s2)
    return True


def classify(fn, F, cg=None, exceptions=None):
    """returns list of LoopInfo for fn"""
    M = Matcher(fn)
    out = []
    for lp in fn.loops():
        li = LoopInfo(fn, lp)
        out.append(li)
        hdr = fn.blocks[lp["header"]]
        body = lp["body"]
        phis = [i for i in hdr.insts if i.op == "phi"]
        # ---------------- class A / A' / C / D via header phis ----------------
        for p in phis:
            backs = [(v, b) for v, b in p.incoming if b in body]
            if not backs:
                continue
            # constant step?
            steps = set()
            for v, b in backs:
                e = M.match(("bin", "add", ("inst", p.id), ("bind", "c", ("const",))), v, {})
                if e is not None:
                    steps.add(const_val(e["c"]))
                    continue
                e = M.match(("bin", "sub", ("inst", p.id), ("bind", "c", ("const",))), v, {})
                if e is not None:
                    steps.add(-const_val(e["c"]))
                    continue
                e = M.match(("gep", ("inst", p.id), [("bind", "c", ("const",))]), v, {})
                if e is not None and p.ty.endswith("*"):
                    steps.add(const_val(e["c"]))
                    continue
                steps.add(None)
            if None not in steps and steps and all(s != 0 for s in steps) and (all(s > 0 for s in steps) or all(s < 0 for s in steps)):
                up = all(s > 0 for s in steps)
                for (b, s) in lp["exits"]:
                    for f in F.edge_facts(b, s):
                        lhs, rhs = M.strip(f[1]), f[2]
                        # allow comparing phi +- const
                        base = lhs
                        dl = fn.defn(lhs)
                        if dl is not None and not dl.is_param and dl.op in ("add", "sub") and is_const(dl.ops[1]):
                            base = M.strip(dl.ops[0])
                        if base == ("v", p.id) and _invariant(fn, lp, rhs, cg):
                            if f[0] in (("uge", "ugt", "sge", "sgt") if up else ("ule", "ult", "sle", "slt")) or \
                               (f[0] == "eq" and steps <= {1, -1}):
                                wi = widened_iv(fn, M, f[1], p)
                                if f[0] != "eq" and not wrap_safe(fn, F, M, _NEG[f[0]], f[1], rhs, up, max(abs(x) for x in steps), cg, lp["header"],
                                                                  cw=wi[0] if wi and wi[0] < wi[1] else None):
                                    li.wrap = "%s %s %s" % (describe(fn, f[1]), _NEG[f[0]], describe(fn, rhs))
                                    continue
                                if wi and up and wi[0] < wi[1] and not fits(fn, F, M, rhs, wi[0], lp["header"], cg):
                                    # a counter of wi[0] bits is compared, after widening, with a wider bound not known to fit: it would wrap first
                                    li.narrow = (wi[0], wi[1], describe(fn, rhs))
                                    continue
                                li.cls = "A"
                                li.witness = "%s steps by %s each iteration; exit when it is %s the invariant bound" % (
                                    fn.var_name(p.id) or "%%%d" % p.id, sorted(steps), f[0])
                        # bound on the left (swapped orientation is normalised by facts, but handle rhs phi)
                        rb = M.strip(rhs) if not is_const(rhs) else None
                        if rb == ("v", p.id) and _invariant(fn, lp, f[1], cg):
                            if f[0] in (("ule", "ult", "sle", "slt") if up else ("uge", "ugt", "sge", "sgt")) or (f[0] == "eq" and steps <= {1, -1}):
                                swp = {"ult": "ugt", "ule": "uge", "slt": "sgt", "sle": "sge", "ugt": "ult", "uge": "ule", "sgt": "slt", "sge": "sle"}
                                if f[0] != "eq" and not wrap_safe(fn, F, M, _NEG[swp[f[0]]], rhs, f[1], up, max(abs(x) for x in steps), cg, lp["header"]):
                                    li.wrap = "%s %s %s" % (describe(fn, rhs), _NEG[swp[f[0]]], describe(fn, f[1]))
                                    continue
                                li.cls = "A"
                                li.witness = "%s steps by %s each iteration; exit when the invariant bound is %s it" % (
                                    fn.var_name(p.id) or "%%%d" % p.id, sorted(steps), f[0])
                if li.cls is None and up and steps == {1} and not p.ty.endswith("*"):
                    # mask exit: the loop is left at the first k with a bit outside m, `(k & ~m) != 0`, and m is known to fit in fewer bits than k has:
                    # k = 2^bits(m) has such a bit, and k gets there because it steps by one from a start below that
                    kw = fn.mod.int_bits(p.ty) or 0
                    starts = [v for v, b in p.incoming if b not in body]
                    for (b, s) in lp["exits"]:
                        for f in F.edge_facts(b, s):
                            if f[0] != "ne" or not is_const(f[2]) or const_val(f[2]) != 0:
                                continue
                            # raw operands (the matcher would strip the very casts that make the mask narrow)
                            da = fn.defn(f[1])
                            if da is None or da.is_param or da.op != "and" or (fn.mod.int_bits(da.ty) or 0) != kw:
                                continue
                            oth = [o for o in da.ops if o != ("v", p.id)]
                            if len(oth) != 1:
                                continue
                            dx = fn.defn(oth[0])
                            if dx is None or dx.is_param or dx.op != "xor" or not is_const(dx.ops[1]) or const_val(dx.ops[1]) not in (-1, (1 << kw) - 1):
                                continue
                            e = {"m": dx.ops[0]}
                            if not _invariant(fn, lp, e["m"], cg):
                                continue
                            for bits in (8, 16, 24, 31):
                                if bits < kw and fits(fn, F, M, e["m"], bits, lp["header"], cg) and \
                                        all(is_const(v) and 0 <= const_val(v) <= (1 << bits) for v in starts):
                                    li.cls = "A"
                                    li.witness = ("%s steps by one from a start <= 2^%d; exit at the first value with a bit outside the mask %s, which fits %d bits: at the latest at 2^%d" %
                                                  (fn.var_name(p.id) or "%%%d" % p.id, bits, describe(fn, e["m"]), bits, bits))
                                    break
                if li.cls is None:
                    _class_a_latch(fn, F, M, lp, li, p, up, steps, cg)
                if li.cls:
                    break
                # NUL scan: step +1 and exit on loaded byte == 0
                if steps == {1}:
                    for (b, s) in lp["exits"]:
                        for f in F.edge_facts(b, s):
                            if f[0] == "eq" and is_const(f[2]) and const_val(f[2]) == 0:
                                d = fn.defn(M.strip(f[1]))
                                if d is not None and not d.is_param and d.op == "load":
                                    a = M.strip(d.ops[0], ("bitcast",))
                                    if a != ("v", p.id) and M.match(("gep", ANY, [("inst", p.id)]), d.ops[0], {}) is not None and (fn.mod.int_bits(p.ty) or 64) < 32:
                                        # s[i] with an index narrower than any string can be long: i wraps to 0 before a terminator beyond 2^w is reached
                                        li.narrow = (fn.mod.int_bits(p.ty), 64, "the position of the terminator")
                                        continue
                                    if a == ("v", p.id) or M.match(("gep", ANY, [("inst", p.id)]), d.ops[0], {}) is not None:
                                        li.cls = "C"
                                        li.witness = ("advances one element per iteration; exit when the element at the cursor is %s" %
                                                      ("NUL (NUL-terminated string)" if d.size == 1 else "NULL/0 (sentinel-terminated array)"))
                if li.cls:
                    break
            # A': strictly decreasing by a positive amount bounded by the value
            if li.cls is None and len(backs) >= 1:
                ok = True
                for v, b in backs:
                    e = M.match(("bin", "sub", ("inst", p.id), ("bind", "x")), v, {})
                    if e is None:
                        ok = False
                        break
                    for s, fs in F.sources(e["x"], stop=(p.id,)):
                        facts = set(fs) | set(F.on_edge(b, lp["header"]))
                        if is_const(s):
                            c = const_val(s)
                            good = c > 0 and (M.find_fact(("ugt", ("inst", p.id), c), facts)[0] is not None or M.find_fact(("uge", ("inst", p.id), c), facts)[0] is not None
                                              or any(M.find_fact(("ugt", ("inst", p.id), c2), facts)[0] is not None for c2 in range(c, c + 1)))
                        elif M.strip(s) == ("v", p.id):
                            good = M.find_fact(("ugt", ("inst", p.id), 0), facts)[0] is not None or M.find_fact(("ne", ("inst", p.id), 0), facts)[0] is not None
                        else:
                            good = False
                        if not good:
                            ok = False
                if ok:
                    for (b, s) in lp["exits"]:
                        if M.find_fact(("ule", ("inst", p.id), 0), F.edge_facts(b, s))[0] is not None or M.find_fact(("eq", ("inst", p.id), 0), F.edge_facts(b, s))[0] is not None:
                            li.cls = "A'"
                            li.witness = "%s decreases by a positive amount not exceeding itself on every iteration; exit at 0" % (fn.var_name(p.id) or "%%%d" % p.id)
                if li.cls:
                    break
            # D list walk: p' = load(field _next of p)  or  p' = &(*p)->_next
            if li.cls is None and p.ty.endswith("*"):
                link = None
                for v, b in backs:
                    e1 = M.match(("load", ("field", None, None, ("inst", p.id))), v, {})
                    e2 = M.match(("field", None, None, ("load", ("inst", p.id))), v, {})
                    if e1 is None and e2 is None:
                        link = None
                        break
                    link = "direct" if e1 is not None else "indirect"
                if link:
                    for (b, s) in lp["exits"]:
                        for f in F.edge_facts(b, s):
                            if f[0] == "eq" and is_const(f[2]) and const_val(f[2]) == 0:
                                t = M.strip(f[1], ("bitcast",))
                                if t == ("v", p.id) or M.match(("load", ("inst", p.id)), f[1], {}) is not None:
                                    li.cls = "D"
                                    li.witness = "cursor follows a link field each iteration; exit when it reaches NULL (acyclic list)"
                if li.cls:
                    break
        if li.cls:
            continue
        # ---------------- D (memory-carried): while (obj->head != NULL) { x = head; head = x->next; ... } ----------------
        for (b, s) in lp["exits"]:
            for f in F.edge_facts(b, s):
                if f[0] == "eq" and is_const(f[2]) and const_val(f[2]) == 0:
                    d = fn.defn(M.strip(f[1], ("bitcast",)))
                    if d is not None and not d.is_param and d.op == "load":
                        a = fn.defn(d.ops[0])
                        fo = field_of_gep(fn.mod, a) if a is not None and not a.is_param and a.op == "getelementptr" else None
                        cell = M.strip(d.ops[0], ("bitcast",))
                        # the head cell: a struct field, or any pointer defined outside the loop (e.g. a `Node **list` parameter)
                        outside = a is None or a.is_param or a.block.id not in body
                        if fo or outside:
                            for bb in body:
                                for st in fn.blocks[bb].insts:
                                    if st.op != "store":
                                        continue
                                    same_cell = (fo is not None and M.match(("field", fo[0], fo[1], ANY), st.ops[1], {}) is not None) or \
                                        (st.op == "store" and M.strip(st.ops[1], ("bitcast",)) == cell)
                                    if st.op == "store" and same_cell and all(fn.dominates(bb, l) for l in lp["latches"]) and \
                                            (M.match(("load", ("field", None, None, ("inst", d.id))), st.ops[0], {}) is not None or
                                             any(M.match(("load", ("field", None, None, ("inst", d2.id))), st.ops[0], {}) is not None
                                                 for bb2 in body for d2 in fn.blocks[bb2].insts if d2.op == "load" and M.equiv(("v", d2.id), ("v", d.id)))):
                                        li.cls = "D"
                                        li.witness = "list head %s is replaced by its successor on every iteration; exit when it is NULL (acyclic list)" % (
                                            "%s.%s" % fo if fo else "cell *%s" % (fn.var_name(cell[1]) if cell[0] == "v" else "?"))
        if li.cls:
            continue
        # ---------------- nested / monotone induction, scans, memory-carried counters ----------------
        _more_classes(fn, F, M, lp, li, phis, cg)
        if li.cls:
            continue
        # ---------------- class B ----------------
        calls = []
        for b in body:
            for i in fn.blocks[b].insts:
                if i.op == "call":
                    cn = fn.mod.callee_cname(i)
                    if cn in READ_LIKE:
                        calls.append((i, cn))
                    elif cn is None and i.calleev is not None:
                        # indirect: decoder callbacks / stream read
                        a = fn.defn(i.calleev)
                        if a is not None and not a.is_param and a.op == "load":
                            g = fn.defn(a.ops[0])
                            fo = field_of_gep(fn.mod, g) if g is not None and not g.is_param and g.op == "getelementptr" else None
                            if fo and fo[1] in ("callback", "read"):
                                calls.append((i, "<callback>"))
        def refutes(facts, vid, cn):
            return refutes_exhausted(M, facts, vid, cn)
        nonconsuming = [(c, cn) for c, cn in calls if not call_consumes(fn, F, M, c, cn)]
        calls = [(c, cn) for c, cn in calls if (c, cn) not in nonconsuming]
        if nonconsuming:
            li.notes.append("not a progress witness (a successful outcome need not consume input): %s" % sorted({cn for _, cn in nonconsuming}))
        for c, cn in calls:
            good = True
            for latch in lp["latches"]:
                if not refutes(F.on_edge(latch, lp["header"]), c.id, cn):
                    good = False
            if not good:
                # rotated form: `x = read(); while (x is fine) { ...; x = read(); }` - the result feeds a header phi on every back edge and
                # the header lets the body run only if that phi is not an exhausted outcome (an exhausted source stays exhausted)
                for ph in phis:
                    backs_ = [v for v, pb in ph.incoming if pb in body]
                    if backs_ and all(M.strip(v) == ("v", c.id) for v in backs_) and all(fn.dominates(c.block.id, l) for l in lp["latches"]):
                        ins = [s_ for s_ in hdr.succs if s_ in body]
                        if ins and all(refutes(F.edge_facts(lp["header"], s_), ph.id, cn) for s_ in ins) and all(s_ in body for s_ in hdr.succs if not any((lp["header"], s_) == e for e in lp["exits"])):
                            good = True
            if good:
                li.cls = "B"
                li.witness = "each iteration consumes input through %s and the back edge is taken only if it was not exhausted" % cn
                break
        if li.cls:
            continue
        if exceptions and li.key() in exceptions:
            li.cls = "E"
            li.witness = exceptions[li.key()]
    # Width side condition of the counted classes: an up-counting header phi that is compared, after widening, with a wider
    # loop-invariant bound reaches that bound only if the bound fits the counter's width; otherwise the counter wraps first.
    for li in out:
        if li.cls not in ("A", "A'"):
            li.narrow = None if li.cls is not None else li.narrow
            continue
        li.narrow = None
        lp = li.lp
        hdr = fn.blocks[lp["header"]]
        edges = [(b, s) for (b, s) in lp["exits"]] + [(l, lp["header"]) for l in lp["latches"]]
        for p in [i for i in hdr.insts if i.op == "phi" and not i.ty.endswith("*")]:
            backs = [v for v, b in p.incoming if b in lp["body"]]
            up = bool(backs) and all(M.match(("bin", "add", ("inst", p.id), ("bind", "c", ("const",))), v, {}) is not None for v in backs)
            if not up:
                continue
            for (b, s) in edges:
                for f in (F.edge_facts(b, s) if s != lp["header"] or b not in lp["latches"] else F.on_edge(b, s)):
                    for lhs, rhs in ((f[1], f[2]), (f[2], f[1])):
                        if is_const(lhs):
                            continue
                        wi = widened_iv(fn, M, lhs, p)
                        if wi and wi[0] < wi[1] and _invariant(fn, lp, rhs, cg) and not fits(fn, F, M, rhs, wi[0], lp["header"], cg):
                            li.narrow = (wi[0], wi[1], describe(fn, rhs))
        if li.narrow:
            li.notes.append("class %s witness set aside: %s" % (li.cls, li.witness))
            li.cls = None
            li.witness = None
    return out


def _lin_in(fn, o, p, lp, cg):
    """operand as k*p + invariant part; returns k or None"""
    from .lin import linform
    inv_syms = {}

    def symf(x):
        x2 = Matcher(fn).strip(x)
        if x2 == ("v", p.id):
            return "P"
        if _invariant(fn, lp, x, cg):
            inv_syms[x] = 1
            return "inv%d" % (len(inv_syms))
        return None
    l = linform(fn, o, symf)
    if l is None:
        return None
    return l.t.get("P", 0)


def _class_a_latch(fn, F, M, lp, li, p, up, steps, cg):
    """constant-step phi: accept when every back edge carries 'P below bound' (up) / 'P above bound' (down),
    or an exit/latch comparison is linear in P with the right sign"""
    name = fn.var_name(p.id) or "%%%d" % p.id
    good_up = ("ult", "ule", "slt", "sle")
    good_dn = ("ugt", "uge", "sgt", "sge")
    all_ok = True
    for latch in lp["latches"]:
        ok = False
        for f in F.on_edge(latch, lp["header"]):
            for lhs, rhs, pred in ((f[1], f[2], f[0]), (f[2], f[1], {"ult": "ugt", "ule": "uge", "slt": "sgt", "sle": "sge", "ugt": "ult", "uge": "ule", "sgt": "slt", "sge": "sle"}.get(f[0]))):
                if pred is None or is_const(lhs):
                    continue
                k = _lin_in(fn, lhs, p, lp, cg)
                k2 = 0 if is_const(rhs) else _lin_in(fn, rhs, p, lp, cg)
                if k is None or k2 is None:
                    continue
                kk = k - k2
                if kk == 0 or k == 0:
                    continue                 # (the moving side on the right: the swapped orientation looks at it)
                rising = (kk > 0) == up      # the compared expression rises over the iterations
                if (rising and pred in good_up) or (not rising and pred in good_dn):
                    sm = max(abs(x) for x in steps) * abs(kk) if abs(kk) == 1 else None
                    wi = widened_iv(fn, M, lhs, p)
                    if wrap_safe(fn, F, M, pred, lhs, rhs, rising, sm, cg, lp["header"], cw=wi[0] if wi and wi[0] < wi[1] else None):
                        ok = True
                    else:
                        li.wrap = "%s %s %s" % (describe(fn, lhs), pred, describe(fn, rhs))
        if not ok:
            all_ok = False
    if all_ok and lp["latches"]:
        li.cls = "A"
        li.witness = "%s steps by %s each iteration and every back edge requires it to be still %s an invariant bound" % (name, sorted(steps), "below" if up else "above")
        return
    for (b, s) in lp["exits"]:
        for f in F.edge_facts(b, s):
            if is_const(f[1]):
                continue
            k = _lin_in(fn, f[1], p, lp, cg)
            k2 = 0 if is_const(f[2]) else _lin_in(fn, f[2], p, lp, cg)
            if k is None or k2 is None or k - k2 == 0:
                continue
            rising = ((k - k2) > 0) == up
            if (rising and f[0] in good_dn) or (not rising and f[0] in good_up):
                sm = max(abs(x) for x in steps) if abs(k - k2) == 1 else None
                wi = widened_iv(fn, M, f[1], p)
                if not wrap_safe(fn, F, M, _NEG[f[0]], f[1], f[2], rising, sm, cg, lp["header"], cw=wi[0] if wi and wi[0] < wi[1] else None):
                    li.wrap = "%s %s %s" % (describe(fn, f[1]), _NEG[f[0]], describe(fn, f[2]))
                    continue
                li.cls = "A"
                li.witness = "%s steps by %s each iteration; exit when a linear expression of it crosses an invariant bound (%s)" % (name, sorted(steps), f[0])
                return


def _infeasible_incoming(fn, M, d, pb, facts):
    """incoming edge pb of phi d cannot be the one taken when `facts` hold: a sibling phi of the same block (a status flag) receives a
    constant along pb that the facts about that sibling exclude"""
    for q in d.block.insts:
        if q.op != "phi" or q.id == d.id:
            continue
        for v, b in q.incoming:
            if b != pb or not is_const(v) or const_val(v) is None:
                continue
            k = const_val(v)
            for f in facts:
                if M.strip(f[1], ()) != ("v", q.id) or not is_const(f[2]) or const_val(f[2]) is None:
                    continue
                c = const_val(f[2])
                if (f[0] == "ne" and k == c) or (f[0] == "eq" and k != c) or (f[0] in ("ugt", "sgt") and k <= c and k >= 0 and c >= 0) or \
                        (f[0] in ("uge", "sge") and k < c and k >= 0 and c >= 0):
                    return True
    return False


def _monotone(fn, M, p, v, down, seen, F=None, facts=()):
    """does value v derive from phi p only through decrements (down) / increments; returns (ok, strict)"""
    v = M.strip(v)
    if v == ("v", p.id):
        return True, False
    d = fn.defn(v)
    if d is None or d.is_param:
        return False, False
    if d.id in seen:
        return True, True     # inside an inner cycle: covered by the other incomings
    seen = seen | {d.id}
    if d.op == "phi":
        strict = True
        # header phi of an inner loop that cannot be left during its first pass: whenever the inner loop is left, the phi holds a value
        # that came round a back edge, so only those incomings need to be strict
        inner = None
        if F is not None:
            for L in fn.loops():
                if L["header"] == d.block.id and L["header"] != p.block.id and _first_iteration_runs(fn, F, M, L):
                    inner = L
        # facts of the back edge apply to this evaluation of the phi only if its block is not inside a loop nested in p's loop
        nested = any(d.block.id in L["body"] and L["header"] != p.block.id and p.block.id not in L["body"] for L in fn.loops())
        for x, pb in d.incoming:
            if facts and not nested and _infeasible_incoming(fn, M, d, pb, facts):
                continue
            f2 = facts
            if facts and not nested:
                # what is known of a sibling flag phi holds for the value it received along this edge
                extra = set()
                for q in d.block.insts:
                    if q.op != "phi" or q.id == d.id:
                        continue
                    for qv, qb in q.incoming:
                        if qb == pb and not is_const(qv):
                            for f in facts:
                                if M.strip(f[1], ()) == ("v", q.id) and is_const(f[2]):
                                    extra.add((f[0], qv, f[2]))
                if extra:
                    f2 = set(facts) | extra
            ok, st = _monotone(fn, M, p, x, down, seen, F, f2)
            if not ok:
                return False, False
            if inner is not None and pb not in inner["body"]:
                continue
            strict = strict and st
        return True, strict
    c = None
    if d.op in ("add", "sub") and is_const(d.ops[1]):
        c = const_val(d.ops[1]) if d.op == "add" else -const_val(d.ops[1])
    elif d.op == "getelementptr" and len([s for s in d.steps if "idx" in s]) == 1 and is_const(d.steps[0]["idx"]):
        c = const_val(d.steps[0]["idx"])
    if c is not None and c != 0 and ((c < 0) == down):
        ok, st = _monotone(fn, M, p, d.ops[0], down, seen, F, facts)
        return ok, True
    if F is not None and d.op == "add" and not is_const(d.ops[1]) and not down:
        # p-derived value plus an amount whose interval is non-negative: strict when it is at least 1.  (Only upwards, and only when the
        # sum cannot wrap past the bound test: a 64-bit counter, or an amount below 2^16.  Downwards `P - X` needs X <= P: class A'.)
        wd = fn.mod.int_bits(d.ty) or 0
        for a, b in ((d.ops[0], d.ops[1]), (d.ops[1], d.ops[0])):
            iv = interval(fn, F, M, b, facts)
            if iv[0] >= 0 and iv[0] <= iv[1] and (wd >= 64 and iv[1] < (1 << 32) or iv[1] < (1 << 16)):
                ok, st = _monotone(fn, M, p, a, down, seen, F, facts)
                if ok:
                    return True, st or iv[0] >= 1
    return False, False


def _more_classes(fn, F, M, lp, li, phis, cg):
    body = lp["body"]
    for p in phis:
        backs = [(v, b) for v, b in p.incoming if b in body]
        if not backs:
            continue
        name = fn.var_name(p.id) or "%%%d" % p.id
        # monotone chain (nested loops modify the same variable)
        for down in (True, False):
            res = [_monotone(fn, M, p, v, down, frozenset(), F, F.on_edge(b, lp["header"])) for v, b in backs]
            if all(ok and st for ok, st in res):
                good = ("sle", "slt", "ule", "ult") if down else ("sge", "sgt", "uge", "ugt")
                # the bound may be tested on the counter itself (while) or on its updated value (do ... while)
                tested = {("v", p.id)} | {M.strip(v) for v, b in backs}
                for (b, s) in lp["exits"]:
                    for f in F.edge_facts(b, s):
                        if M.strip(f[1]) in tested and _invariant(fn, lp, f[2], cg) and f[0] in good:
                            wi = widened_iv(fn, M, f[1], p)
                            if not wrap_safe(fn, F, M, _NEG[f[0]], f[1], f[2], not down, None, cg, lp["header"], cw=wi[0] if wi and wi[0] < wi[1] else None):
                                li.wrap = "%s %s %s" % (describe(fn, f[1]), _NEG[f[0]], describe(fn, f[2]))
                                continue
                            li.cls = "A"
                            li.witness = "%s only %s (strictly, on every path through the body and its inner loops); exit when it is %s the invariant bound" % (
                                name, "decreases" if down else "increases", f[0])
                            return
                ok_l = True
                for latch in lp["latches"]:
                    fl = F.on_edge(latch, lp["header"])
                    mine = {("v", p.id)} | {M.strip(v) for v, b in backs if b == latch}
                    if not any(M.strip(f[1]) in mine and _invariant(fn, lp, f[2], cg) and f[0] in (("sge", "sgt", "uge", "ugt") if down else ("sle", "slt", "ule", "ult")) and
                               wrap_safe(fn, F, M, f[0], f[1], f[2], not down, None, cg, lp["header"],
                                         cw=(lambda wi: wi[0] if wi and wi[0] < wi[1] else None)(widened_iv(fn, M, f[1], p))) for f in fl):
                        ok_l = False
                if ok_l and lp["latches"]:
                    li.cls = "A"
                    li.witness = "%s only %s and every back edge requires it to be still within the invariant bound" % (name, "decreases" if down else "increases")
                    return
        # A'': increases by a positive amount, back edge requires P <= B
        ok = True
        for v, b in backs:
            e = M.match(("bin", "add", ("inst", p.id), ("bind", "x")), v, {})
            if e is None:
                ok = False
                break
            facts = F.on_edge(b, lp["header"])
            pos = False
            xs = M.strip(e["x"])
            direct = xs[0] == "v" and (M.find_fact(("ne", ("inst", xs[1]), 0), facts)[0] is not None or
                                       any(f[0] in ("uge", "ugt") and M.strip(f[1]) == xs for f in facts))
            for s, fs in ([] if direct else F.sources(e["x"], stop=(p.id,))):
                allf = set(fs) | set(facts)
                if is_const(s):
                    pos = const_val(s) > 0
                else:
                    pos = M.find_fact(("ne", ("inst", M.strip(s)[1]) if M.strip(s)[0] == "v" else ANY, 0), allf)[0] is not None or \
                        any(f[0] in ("uge", "ugt") and M.strip(f[1]) == M.strip(s) for f in allf)
                if not pos:
                    break
            if not pos and not direct:
                ok = False
            cands = [f for f in facts if M.strip(f[1]) == ("v", p.id) and f[0] in ("ule", "ult") and _invariant(fn, lp, f[2], cg)]
            safe = [f for f in cands if wrap_safe(fn, F, M, f[0], f[1], f[2], True, None, cg, lp["header"],
                                                  cw=(lambda wi: wi[0] if wi and wi[0] < wi[1] else None)(widened_iv(fn, M, f[1], p)))]
            if cands and not safe:
                wi = widened_iv(fn, M, cands[0][1], p)
                if wi and wi[0] < wi[1]:
                    li.narrow = (wi[0], wi[1], describe(fn, cands[0][2]))
                else:
                    li.wrap = "%s %s %s" % (describe(fn, cands[0][1]), cands[0][0], describe(fn, cands[0][2]))
            if not safe:
                ok = False
        if ok and backs:
            li.cls = "A'"
            li.witness = "%s grows by a positive amount each iteration and every back edge requires it to be still at most the invariant bound" % name
            return
        # scans: while (*p == c) ++p  (c != 0: stops at the terminator at the latest)
        if p.ty.endswith("*") or True:
            stepok = all(M.match(("gep", ("inst", p.id), [1]), v, {}) is not None or M.match(("bin", "add", ("inst", p.id), 1), v, {}) is not None for v, b in backs)
            if stepok:
                allc = True
                for latch in lp["latches"]:
                    okc = False
                    for f in F.on_edge(latch, lp["header"]):
                        d = fn.defn(M.strip(f[1]))
                        if d is not None and not d.is_param and d.op == "load":
                            a = M.strip(d.ops[0], ("bitcast",))
                            at_cursor = a == ("v", p.id) or M.match(("gep", ANY, [("inst", p.id)]), d.ops[0], {}) is not None
                            if at_cursor and a != ("v", p.id) and not p.ty.endswith("*") and (fn.mod.int_bits(p.ty) or 64) < 32:
                                # s[i] with an index of 8 or 16 bits: it wraps to 0 before it can reach a terminator further out
                                li.narrow = (fn.mod.int_bits(p.ty), 64, "the position of the terminator")
                                at_cursor = False
                            if at_cursor and ((f[0] == "eq" and is_const(f[2]) and const_val(f[2]) != 0) or (f[0] == "ne" and is_const(f[2]) and const_val(f[2]) == 0)):
                                okc = True
                    if not okc:
                        allc = False
                if allc and lp["latches"]:
                    li.cls = "C"
                    li.witness = "cursor advances one element per iteration and the back edge requires the element at the cursor to be non-zero (terminated string/array)"
                    return
        # search-and-replace: every iteration finds one occurrence of a byte with strchr / memchr and overwrites it with another byte
        from .bytemap import find_search_replace
        for sr in find_search_replace(fn, F):
            if sr.loop["header"] == lp["header"]:
                li.cls = "C"
                li.witness = ("each iteration finds the next 0x%02x with %s and overwrites it with 0x%02x; exit when none is found (one occurrence fewer each "
                              "time, in a finite buffer)" % (sr.byte, sr.kind, sr.repl))
                return
        # strchr advance: p' = strchr(p, c) + 1, exit when strchr returns NULL
        es_ = [M.match(("gep", ("bind", "s", ("call", "strchr", [("inst", p.id), ANY])), [1]), v, {}) for v, b in backs]
        if es_ and all(e is not None for e in es_) and all(
                any(M.find_fact(("eq", ("inst", e["s"][1]), 0), F.edge_facts(b2, s2))[0] is not None for (b2, s2) in lp["exits"]) for e in es_):
            # EVERY back edge carries the cursor past the separator that was found (one that leaves it on the separator finds it again for ever)
            li.cls = "C"
            li.witness = "cursor moves past the next separator found by strchr each iteration; exit when strchr finds none (NUL-terminated string)"
            return
        # list walk with the test on the back edge
        if p.ty.endswith("*"):
            link = all(M.match(("load", ("field", None, None, ("inst", p.id))), v, {}) is not None or M.match(("field", None, None, ("load", ("inst", p.id))), v, {}) is not None for v, b in backs)
            if link and all(any(f[0] == "ne" and is_const(f[2]) and const_val(f[2]) == 0 and (M.strip(f[1], ("bitcast",)) == ("v", p.id) or M.match(("load", ("inst", p.id)), f[1], {}) is not None)
                                for f in F.on_edge(latch, lp["header"])) for latch in lp["latches"]):
                li.cls = "D"
                li.witness = "cursor follows a link field each iteration and the back edge requires the node to be non-NULL (acyclic list)"
                return
    # A-mem: counter kept in memory: exit compares load(F) with an invariant; every path through the body stores F = load(F) +- const
    for (b, s) in lp["exits"]:
        for f in F.edge_facts(b, s):
            d = fn.defn(M.strip(f[1]))
            if d is None or d.is_param or d.op != "load" or d.block.id not in body:
                continue
            if not _invariant_except(fn, lp, f[2], cg):
                continue
            sts = [st for bb in body for st in fn.blocks[bb].insts if st.op == "store" and M.strip(st.ops[1], ("bitcast",)) == M.strip(d.ops[0], ("bitcast",))]
            if len(sts) != 1:
                continue
            st = sts[0]
            e = M.match(("bin", "add", ("or", ("inst", d.id), ("load", ("inst", M.strip(d.ops[0], ("bitcast",))[1]) if M.strip(d.ops[0], ("bitcast",))[0] == "v" else ANY)), ("bind", "c", ("const",))), st.ops[0], {})
            if e is None:
                continue
            c = const_val(e["c"])
            if c == 0:
                continue
            # the store lies on every path from header to latch
            if not all(fn.dominates(st.block.id, latch) for latch in lp["latches"]):
                continue
            if (f[0] == "eq" and abs(c) == 1) or (c > 0 and f[0] in ("uge", "ugt", "sge", "sgt")) or (c < 0 and f[0] in ("ule", "ult", "sle", "slt")):
                li.cls = "A"
                li.witness = "a counter kept in memory changes by %+d exactly once per iteration; exit when it is %s an invariant bound" % (c, f[0])
                return


def _invariant_except(fn, lp, o, cg):
    return _invariant(fn, lp, o, cg)
