"""The extended-header registry and its dispatcher, decided by singleton-domain evaluation (consteval) over all 256 type bytes."""
from .facts import const_val
from .consteval import ConstEval


def registry_global(mod):
    """the registry table: the one global array of pointers to extended-header type descriptors (found by its type, whatever its name)"""
    import re
    c = [g for g in mod.globals.values() if re.match(r"\[\d+ x %struct\.LHAExtHeaderType\*\]$", g.get("ty", "")) and not g.get("decl")]
    return c[0] if len(c) == 1 else None


def registry_entries(mod):
    """[(type byte, decoder C name, min_len)] from the initialiser of the registry table, or None"""
    reg = registry_global(mod)
    if not reg or reg.get("init", {}).get("k") != "agg":
        return None
    out = []
    for e in reg["init"]["elems"]:
        g = mod.globals.get(e["v"][1]) if e["k"] == "scalar" and e["v"][0] == "gv" else None
        if not g or g["init"]["k"] != "agg":
            return None
        num, dec, ml = [x["v"] for x in g["init"]["elems"]]
        out.append((const_val(num) & 0xFF, mod.functions[dec[1]].cname if dec[0] == "fn" and dec[1] in mod.functions else str(dec), const_val(ml)))
    return out


def evaluate_dispatch(mod, dsp, table, safety_only=False):
    """table: {type: (decoder, min_len)}.  Returns (wrong, inconclusive): lists of findings"""
    ce = ConstEval(mod)
    wrong, incon = [], []
    H, D = ("sym", "header"), ("sym", "data")
    for t in range(256):
        want = table.get(t)
        cases = [((1 << 40), want is not None)]
        if want:
            cases += [(want[1], True)] + ([(want[1] - 1, False)] if want[1] > 0 else [])
        for dl, expect_call in cases:
            r = ce.dispatch(dsp, [H, t, D, dl])
            if r is None:
                incon.append((t, getattr(ce, "why", "?")))
                continue
            called = None
            if r[0] == "calls":
                called = mod.functions[r[1][1]].cname if r[1][0] == "fn" and r[1][1] in mod.functions else str(r[1])
            got = "calls %s" % called if called else "returns %s without a decoder" % (r[1][1] if r[0] == "ret" and r[1] else "?")
            if safety_only:
                # memory safety only: whatever decoder runs must be a registered one and must have received at least its own min_len
                if called is not None:
                    mls = [ml for (d_, ml) in table.values() if d_ == called]
                    if not mls or dl < min(mls):
                        wrong.append("type 0x%02x with %d data bytes %s, whose registry min_len is %s" % (t, dl, got, min(mls) if mls else "unknown (not a registered decoder)"))
                    else:
                        a = r[2]
                        if len(a) < 3 or a[0] != H or a[1] != D or a[2] is None or a[2][0] != "ci" or a[2][1] > dl:
                            wrong.append("type 0x%02x: decoder does not receive (header, data, at most data_len)" % t)
                continue
            if expect_call != (called is not None) or (expect_call and called != want[0]):
                wrong.append("type 0x%02x with %d data bytes %s, expected %s" % (t, dl, got, "a call of %s" % want[0] if expect_call else "to be skipped (return 1)"))
            elif r[0] == "ret" and (r[1] is None or r[1][0] != "ci" or r[1][1] != 1):
                wrong.append("type 0x%02x with %d data bytes: skipped headers must report success (1), got %s" % (t, dl, r[1]))
            elif r[0] == "calls":
                a = r[2]
                if len(a) < 3 or a[0] != H or a[1] != D or a[2] is None or a[2][0] != "ci" or a[2][1] != dl:
                    wrong.append("type 0x%02x: decoder does not receive (header, data, data_len) unchanged" % t)
    return wrong, incon
