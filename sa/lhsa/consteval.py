"""Exhaustive evaluation of a small pure function over a finite argument domain.

Not an execution of the program: the function's SSA form is evaluated by abstract interpretation in the *singleton* domain, reading memory only
from the initialisers of global variables that the caller has established to be never written.  Used where a property quantifies over a
small finite domain (the 256 extended-header type bytes against the registry table) and a structural rule would either miss a wrong
early exit or reject a correct one.  Anything the evaluator does not model (calls, stores, non-constant memory) makes the result
*inconclusive* (None), never a verdict.
"""
from .facts import is_const, const_val


class Inconclusive(Exception):
    pass


class _IndirectCall(Exception):
    def __init__(self, callee, args):
        self.callee, self.args = callee, args


class ConstEval:
    def __init__(self, mod, fuel=20000):
        self.mod = mod
        self.fuel = fuel

    # values: ("ci", v, bits) | ("null",) | ("gp", global, path) | ("fn", name)
    def _mask(self, v, bits):
        return v & ((1 << bits) - 1)

    def _init_at(self, g, path):
        node = self.mod.globals[g].get("init")
        for k in path:
            if node is None:
                raise Inconclusive("no initialiser for %s" % g)
            if node.get("k") == "agg":
                if not (0 <= k < len(node["elems"])):
                    raise Inconclusive("index %d outside %s" % (k, g))
                node = node["elems"][k]
            elif node.get("k") == "data":
                if not (0 <= k < len(node["elts"])):
                    raise Inconclusive("index %d outside %s" % (k, g))
                return ("ci", node["elts"][k], node.get("bits", 32))
            elif node.get("k") == "zero":
                return ("ci", 0, 64)
            else:
                raise Inconclusive("cannot index into %s" % node.get("k"))
        if node.get("k") == "scalar":
            v = node["v"]
            if v[0] == "ci":
                return ("ci", v[1], v[2] if len(v) > 2 else 64)
            if v[0] == "gv":
                return ("gp", v[1], ())
            if v[0] == "fn":
                return ("fn", v[1])
            if v[0] == "null":
                return ("null",)
        if node.get("k") == "zero":
            return ("ci", 0, 64)
        raise Inconclusive("unsupported initialiser %s" % node.get("k"))

    def call(self, fn, args):
        """args: list of python ints (for integer parameters; None = unknown, usable only as an argument passed on).  Returns a value
        tuple, or None if inconclusive"""
        try:
            r = self._run(fn, args)
            return r
        except Inconclusive as e:
            self.why = str(e)
            return None

    def dispatch(self, fn, args):
        """evaluate fn until it either returns -> ("ret", value) or reaches an indirect call -> ("calls", callee value, evaluated args or None)"""
        try:
            self._stop_indirect = True
            return ("ret", self._run(fn, args))
        except _IndirectCall as e:
            return ("calls", e.callee, e.args)
        except Inconclusive as e:
            self.why = str(e)
            return None
        finally:
            self._stop_indirect = False

    def _run(self, fn, args):
        mod = self.mod
        env = {}
        for p, a in zip(fn.params, args):
            if a is None:
                continue
            if isinstance(a, tuple):
                env[p.id] = a
            else:
                env[p.id] = ("ci", self._mask(a, mod.int_bits(p.ty) or 64), mod.int_bits(p.ty) or 64)

        def val(o):
            if o[0] == "ci":
                return ("ci", o[1], o[2] if len(o) > 2 and o[2] else 64)
            if o[0] == "null":
                return ("null",)
            if o[0] == "gv":
                return ("gp", o[1], ())
            if o[0] == "fn":
                return ("fn", o[1])
            if o[0] == "v":
                if o[1] not in env:
                    raise Inconclusive("value %%%d not computed" % o[1])
                return env[o[1]]
            raise Inconclusive("operand %s" % (o,))

        def sgn(v, bits):
            v = self._mask(v, bits)
            return v - (1 << bits) if v >> (bits - 1) else v
        blk, prev = 0, None
        fuel = self.fuel
        while True:
            b = fn.blocks[blk]
            # phis first, simultaneously
            newv = {}
            for i in b.insts:
                if i.op != "phi":
                    break
                for v, pb in i.incoming:
                    if pb == prev:
                        newv[i.id] = val(v)
                        break
                else:
                    raise Inconclusive("phi without incoming for bb%s" % prev)
            env.update(newv)
            for i in b.insts:
                fuel -= 1
                if fuel <= 0:
                    raise Inconclusive("evaluation budget exhausted")
                op = i.op
                if op == "phi":
                    continue
                bits = mod.int_bits(i.ty) or 64
                if op in ("add", "sub", "mul", "and", "or", "xor", "shl", "lshr", "ashr", "udiv", "urem"):
                    a, c = val(i.ops[0]), val(i.ops[1])
                    if a[0] != "ci" or c[0] != "ci":
                        raise Inconclusive("arithmetic on a pointer")
                    x, y = a[1], c[1]
                    if op in ("udiv", "urem") and self._mask(y, bits) == 0:
                        raise Inconclusive("division by zero")
                    r = {"add": x + y, "sub": x - y, "mul": x * y, "and": x & y, "or": x | y, "xor": x ^ y, "shl": x << (y % 64), "lshr": self._mask(x, bits) >> (y % 64),
                         "ashr": sgn(x, bits) >> (y % 64), "udiv": self._mask(x, bits) // max(1, self._mask(y, bits)), "urem": self._mask(x, bits) % max(1, self._mask(y, bits))}[op]
                    env[i.id] = ("ci", self._mask(r, bits), bits)
                elif op in ("zext", "trunc"):
                    a = val(i.ops[0])
                    if a[0] != "ci":
                        raise Inconclusive("cast of pointer")
                    env[i.id] = ("ci", self._mask(self._mask(a[1], a[2]), bits), bits)
                elif op == "sext":
                    a = val(i.ops[0])
                    env[i.id] = ("ci", self._mask(sgn(a[1], a[2]), bits), bits)
                elif op == "bitcast":
                    env[i.id] = val(i.ops[0])
                elif op == "icmp":
                    a, c = val(i.ops[0]), val(i.ops[1])
                    if a[0] == "ci" and c[0] == "ci":
                        w = max(a[2], c[2]) if a[2] == c[2] else a[2]
                        x, y = self._mask(a[1], w), self._mask(c[1], w)
                        r = {"eq": x == y, "ne": x != y, "ult": x < y, "ule": x <= y, "ugt": x > y, "uge": x >= y,
                             "slt": sgn(x, w) < sgn(y, w), "sle": sgn(x, w) <= sgn(y, w), "sgt": sgn(x, w) > sgn(y, w), "sge": sgn(x, w) >= sgn(y, w)}[i.pred]
                    elif i.pred in ("eq", "ne"):
                        r = (a == c) if i.pred == "eq" else (a != c)
                    else:
                        raise Inconclusive("ordered comparison of pointers")
                    env[i.id] = ("ci", 1 if r else 0, 1)
                elif op == "select":
                    c = val(i.ops[0])
                    env[i.id] = val(i.ops[1]) if c[1] else val(i.ops[2])
                elif op == "getelementptr":
                    base = val(i.ops[0])
                    if base[0] != "gp":
                        raise Inconclusive("address computation on a non-global pointer")
                    path = list(base[2])
                    for k, stp in enumerate(i.steps):
                        if stp["k"] == "field":
                            path.append(stp["field"])
                        else:
                            ix = val(stp["idx"])
                            if ix[0] != "ci":
                                raise Inconclusive("non-integer index")
                            n = sgn(ix[1], ix[2])
                            if stp["k"] == "ptr":
                                if n != 0:
                                    raise Inconclusive("pointer arithmetic across objects")
                            else:
                                path.append(n)
                    env[i.id] = ("gp", base[1], tuple(path))
                elif op == "load":
                    p = val(i.ops[0])
                    if p[0] != "gp":
                        raise Inconclusive("load from non-constant memory")
                    v = self._init_at(p[1], p[2])
                    if v[0] == "ci":
                        v = ("ci", self._mask(v[1], bits), bits)
                    env[i.id] = v
                elif op == "br":
                    if len(i.ops) == 1:
                        c = val(i.ops[0])
                        nxt = i.succs[0] if c[1] else i.succs[1]
                    else:
                        nxt = i.succs[0]
                    prev, blk = blk, nxt
                    break
                elif op == "switch":
                    c = val(i.ops[0])
                    nxt = i.d["default"]
                    for cv, bb in i.d["cases"]:
                        if self._mask(cv, c[2]) == self._mask(c[1], c[2]):
                            nxt = bb
                    prev, blk = blk, nxt
                    break
                elif op == "ret":
                    return val(i.ops[0]) if i.ops else None
                elif op == "call" and (i.callee or "").startswith("llvm.dbg"):
                    continue
                elif op == "call" and i.callee is None and getattr(self, "_stop_indirect", False):
                    def _try(o):
                        try:
                            return val(o)
                        except Inconclusive:
                            return None
                    raise _IndirectCall(val(i.calleev), [_try(a) for a in i.ops])
                elif op == "call" and i.callee in mod.functions and not mod.functions[i.callee].decl:
                    def _try(o):
                        try:
                            return val(o)
                        except Inconclusive:
                            return None
                    r = self._run(mod.functions[i.callee], [_try(a) for a in i.ops])
                    if r is not None:
                        env[i.id] = r
                else:
                    raise Inconclusive("unsupported instruction %s at %s" % (op, i.where()))
            else:
                raise Inconclusive("block without terminator")
