"""E3 RANGE: forward abstract interpretation over SSA (inlined units) for memory bounds.

Domain
  integers : intervals over Z in the *signed* reading of the value's width (an unsigned reading is
             derived on demand); any operation that may wrap goes to the full range
  pointers : (region, byte-offset interval); regions are allocas, globals, contract-sized
             parameters, heap sites, and sub-objects (struct fields) entered by a GEP field step
  memory   : integer struct fields and array elements are summarised by unit-wide invariants
             (join of everything stored + the zero initialisation), iterated to a fixed point;
             constant globals are read exactly
Branch conditions refine SSA values per CFG edge (back through casts and +-const); loop-header phis
are widened to thresholds (the function's constants) and then narrowed.

Obligations: every load, store and mem-intrinsic / callback write whose region has a known size
must satisfy 0 <= off and off + width <= size.
"""
import re
from .facts import is_const, const_val
from .ir import Module, field_of_gep

INF = float("inf")


def srange(w):
    return (-(1 << (w - 1)), (1 << (w - 1)) - 1)


def urange(w):
    return (0, (1 << w) - 1)


class I:
    """interval [lo, hi] over Z (signed reading); bottom if lo > hi"""
    __slots__ = ("lo", "hi")

    def __init__(self, lo, hi):
        self.lo, self.hi = lo, hi

    def bot(self):
        return self.lo > self.hi

    def join(self, o):
        if self.bot():
            return o
        if o.bot():
            return self
        if isinstance(self, SI) or isinstance(o, SI):
            n1, p1 = split_of(self)
            n2, p2 = split_of(o)
            return mk_split(_pjoin(n1, n2), _pjoin(p1, p2))
        return I(min(self.lo, o.lo), max(self.hi, o.hi))

    def meet(self, o):
        if isinstance(self, SI) or isinstance(o, SI):
            n1, p1 = split_of(self)
            n2, p2 = split_of(o)
            return mk_split(_pmeet(n1, n2), _pmeet(p1, p2))
        if isinstance(self, UI2) or isinstance(o, UI2):
            x, y = (self, o) if isinstance(self, UI2) else (o, self)
            pa, pb = _pmeet(x.a, I(y.lo, y.hi)), _pmeet(x.b, I(y.lo, y.hi))
            if pa.lo > pa.hi:
                return pb
            if pb.lo > pb.hi:
                return pa
            return UI2(pa, pb)
        return I(max(self.lo, o.lo), min(self.hi, o.hi))

    def __eq__(self, o):
        return isinstance(o, I) and (self.lo, self.hi) == (o.lo, o.hi)

    def __hash__(self):
        return hash((self.lo, self.hi))

    def __repr__(self):
        return "[%s,%s]" % (self.lo, self.hi)

    def is_const(self):
        return self.lo == self.hi


def _pjoin(a, b):
    if a.lo > a.hi:
        return b
    if b.lo > b.hi:
        return a
    return I(min(a.lo, b.lo), max(a.hi, b.hi))


def _pmeet(a, b):
    return I(max(a.lo, b.lo), min(a.hi, b.hi))


def sjoin(a, b):
    """sign-split aware join (used for memory invariants)"""
    if a.lo > a.hi:
        return b
    if b.lo > b.hi:
        return a
    n1, p1 = split_of(a)
    n2, p2 = split_of(b)
    return mk_split(_pjoin(n1, n2), _pjoin(p1, p2))


class SI(I):
    """interval with a sign split: value in neg (all < 0) or in pos (all >= 0); lo/hi are the hull"""
    __slots__ = ("neg", "pos")

    def __init__(self, neg, pos):
        h = neg.join(pos)
        I.__init__(self, h.lo, h.hi)
        self.neg, self.pos = neg, pos

    def __eq__(self, o):
        if isinstance(o, SI):
            return (self.neg, self.pos) == (o.neg, o.pos)
        return False

    def __hash__(self):
        return hash((self.lo, self.hi, self.neg.lo, self.neg.hi, self.pos.lo, self.pos.hi))

    def __repr__(self):
        return "{%s|%s}" % (self.neg if not self.neg.bot() else "-", self.pos if not self.pos.bot() else "-")


def split_of(iv):
    if isinstance(iv, SI):
        return iv.neg, iv.pos
    if iv.bot():
        return iv, iv
    return I(iv.lo, min(iv.hi, -1)), I(max(iv.lo, 0), iv.hi)


def mk_split(neg, pos):
    neg = neg if not neg.bot() else I(1, 0)
    pos = pos if not pos.bot() else I(1, 0)
    if neg.bot() or pos.bot():
        h = neg.join(pos)
        return I(h.lo, h.hi)
    if neg.hi + 1 >= pos.lo:
        return I(neg.lo, pos.hi)
    return SI(neg, pos)


class UI2(I):
    """two disjoint ranges lo_part < hi_part (result of zero-extending a sign-split value)"""
    __slots__ = ("a", "b")

    def __init__(self, a, b):
        I.__init__(self, a.lo, b.hi)
        self.a, self.b = a, b

    def __eq__(self, o):
        return isinstance(o, UI2) and (self.a, self.b) == (o.a, o.b)

    def __hash__(self):
        return hash((self.a.lo, self.a.hi, self.b.lo, self.b.hi))

    def __repr__(self):
        return "{%s,%s}" % (self.a, self.b)


BOT = I(1, 0)


def top(w):
    lo, hi = srange(w)
    return I(lo, hi)


def norm(lo, hi, w):
    """re-encode a mathematical interval into the signed w-bit reading; full range if it may wrap"""
    if lo > hi:
        return BOT
    smin, smax = srange(w)
    if smin <= lo and hi <= smax:
        return I(lo, hi)
    if hi - lo >= (1 << w):
        return top(w)
    m = 1 << w
    lo2 = ((lo - smin) % m) + smin
    hi2 = lo2 + (hi - lo)
    if hi2 <= smax:
        return I(lo2, hi2)
    return top(w)


def unsigned(iv, w):
    """unsigned reading of a signed-reading interval"""
    if iv.bot():
        return iv
    if iv.lo >= 0:
        return iv
    m = 1 << w
    if iv.hi < 0:
        return I(iv.lo + m, iv.hi + m)
    return I(0, m - 1)


def from_unsigned(lo, hi, w):
    return norm(lo, hi, w)


class P:
    """pointer: region key + offset interval (bytes)"""
    __slots__ = ("region", "off")

    def __init__(self, region, off):
        self.region, self.off = region, off

    def __eq__(self, o):
        return isinstance(o, P) and self.region == o.region and self.off == o.off

    def __hash__(self):
        return hash((self.region, self.off))

    def __repr__(self):
        return "ptr(%s+%s)" % (self.region, self.off)


UNKNOWN_PTR = P(("unknown",), I(-INF, INF))
NULLP = P(("null",), I(0, 0))


class Obligation:
    __slots__ = ("inst", "kind", "region", "off", "width", "size", "ok", "desc", "note", "ptr_op", "len_op", "val_op")

    def __init__(self, inst, kind, region, off, width, size, ok, desc, note=None):
        self.inst, self.kind, self.region, self.off, self.width, self.size, self.ok, self.desc, self.note = \
            inst, kind, region, off, width, size, ok, desc, note
        self.ptr_op = self.len_op = self.val_op = None

    def identity(self):
        i = self.inst
        return (i.fn.name, i.src_fn(), self.desc, self.kind)


class UnitState:
    """invariants shared by all entry functions of a unit"""

    def __init__(self, mod):
        self.mod = mod
        self.field = {}        # (struct ty, field idx) -> I      integer fields
        self.elem = {}         # (struct ty, field idx) -> I      elements of array fields
        self.alloca_elem = {}  # (fn name, alloca id) -> I
        self.given = {}        # assumptions: (StructCName, field) -> (I, name)
        self.given_elem = {}
        self.changed = False
        self.round = 0
        self.pending = {}
        self._thr = []
        self.site_assumptions = []
        self.used_assumptions = {}
        self.ptr_field = {}
        self.ptr_field_pending = {}
        self.ctx_cache = {}
        self.ctx_analyses = {}
        self.default_contracts = {}
        self.candidates = {}
        self.private_state = False      # set for decoder units: the state struct is TU-private and zero-initialised (calloc in lha_decoder_new)
        self._stored_fields = None
        self.use_sym = False

    def _upd(self, tab, key, v, thresholds):
        """stores are accumulated in a pending table; the invariants that loads read stay frozen
        during a round and are merged (with widening) by commit()"""
        pend = self.pending.setdefault(id(tab), (tab, {}))[1]
        old = pend.get(key, BOT)
        pend[key] = sjoin(old, v)
        self._thr = thresholds

    def site_value_assumption(self, an, inst, ptr):
        """named assumption on the value stored at a site: returns the assumed interval or None"""
        for a in self.site_assumptions:
            if a["src_fn"] == inst.src_fn() and a["kind"] == "store-value" and isinstance(ptr, P) and ptr.region[0] == "sub" and \
                    re.search(a["object"], ptr.region[2]):
                size = ptr.region[3]
                self.used_assumptions.setdefault(a["name"], set()).add((an.fn.name, inst.src_fn(), ptr.region[2]))
                return a["value"](size)
        return None

    def stored_fields(self):
        """(struct type, field index) of every scalar struct field that some store instruction of the unit writes directly"""
        if self._stored_fields is None:
            out = set()
            for f in self.mod.defined():
                for i in f.insts():
                    if i.op != "store":
                        continue
                    d = f.defn(i.ops[1])
                    while d is not None and not d.is_param and d.op == "bitcast":
                        d = f.defn(d.ops[0])
                    if d is not None and not d.is_param and d.op == "getelementptr" and d.steps and d.steps[-1]["k"] == "field":
                        out.add((d.steps[-1]["struct"], d.steps[-1]["field"]))
            self._stored_fields = out
        return self._stored_fields

    def commit(self):
        for _, (tab, pend) in self.pending.items():
            for key, v in pend.items():
                old = tab.get(key, BOT)
                new = sjoin(old, v)
                if new != old:
                    if self.round >= 2 and not old.bot():
                        thr = self._thr if self.round < 5 else []
                        on, op_ = split_of(old)
                        nn, np_ = split_of(new)
                        wn = widen(on, nn, thr) if not on.bot() and not nn.bot() else nn
                        wp = widen(op_, np_, thr) if not op_.bot() and not np_.bot() else np_
                        if wn.hi > -1 and not wn.bot():
                            wn = I(wn.lo, -1)
                        if not wp.bot() and wp.lo < 0:
                            wp = I(0, wp.hi)
                        new = mk_split(wn, wp)
                    tab[key] = new
                    self.changed = True
        self.pending = {}
        for key, v in self.ptr_field_pending.items():
            old = self.ptr_field.get(key, "none")
            if old == "none":
                new = v
            elif old is None or v is None:
                new = None
            elif old.region == v.region:
                new = P(old.region, old.off.join(v.off))
            elif v.region[0] == "null":
                new = old
            elif old.region[0] == "null":
                new = v
            else:
                new = None
            if new != old:
                self.ptr_field[key] = new
                self.changed = True
        self.ptr_field_pending = {}


def widen(old, new, thresholds):
    lo, hi = new.lo, new.hi
    if new.lo < old.lo:
        c = [t for t in thresholds if t <= new.lo]
        lo = max(c) if c else -INF
    if new.hi > old.hi:
        c = [t for t in thresholds if t >= new.hi]
        hi = min(c) if c else INF
    return I(lo, hi)


class Analysis:
    def __init__(self, fn, unit, contracts=None, callback_model=True, depth=0, pvals=None):
        self.depth = depth
        self.pvals = pvals or {}
        self.fn = fn
        self.mod = fn.mod
        self.unit = unit
        self.contracts = contracts or {}     # param index -> size in bytes
        self.val = {}
        self.env_in = {}
        self.env_out = {}
        self.regions = {}
        self.obligations = {}
        self.thresholds = self._thresholds()
        self._type_thresholds = sorted({x for w in (8, 16, 32, 64) for x in (srange(w)[0], srange(w)[1], urange(w)[1])} | {0})
        self.visits = {}
        self.loop_heads = {lp["header"] for lp in fn.loops()}
        self.reach = set()
        self.ret = BOT
        self._geps = {}
        self._ctrl = {}
        self._lock = {}
        self.k2 = {}
        self.inv_obligations = {}
        self.heap_size_op = {}

    # ---------------------------------------------------------------- helpers
    def _thresholds(self):
        t = {0, 1, -1}
        for i in self.fn.insts():
            ops = list(i.ops)
            if i.op == "phi":
                ops = [v for v, _ in i.incoming]
            for o in ops:
                if o[0] == "ci" and abs(o[1]) < (1 << 40):
                    t.update((o[1], o[1] - 1, o[1] + 1))
            if i.steps:
                for s in i.steps:
                    if s["k"] == "arr":
                        t.update((s["n"], s["n"] - 1))
                    if "idx" in s and s["idx"][0] == "ci":
                        t.add(s["idx"][1])
        for w in (8, 16, 32, 64):
            t.update((srange(w)[0], srange(w)[1], urange(w)[1]))
        return sorted(t)

    def width(self, ty):
        return self.mod.int_bits(ty)

    def is_ptr(self, ty):
        return ty.endswith("*")

    def lookup(self, o, env):
        if o[0] == "ci":
            return I(o[1], o[1])
        if o[0] == "null":
            return NULLP
        if o[0] == "undef":
            return None
        if o[0] == "gv":
            g = self.mod.globals.get(o[1])
            return P(("global", o[1]), I(0, 0)) if g is not None else UNKNOWN_PTR
        if o[0] == "fn":
            return P(("fn", o[1]), I(0, 0))
        if o[0] == "ce":
            return self._const_expr(o[1])
        if o[0] == "v":
            if o[1] in env:
                return env[o[1]]
            return self.val.get(o[1])
        return None

    def _const_expr(self, ce):
        if ce.op == "bitcast":
            return self.lookup(ce.ops[0], {})
        if ce.op == "getelementptr":
            base = self.lookup(ce.ops[0], {})
            if not isinstance(base, P):
                return UNKNOWN_PTR
            return self._gep(base, ce.steps, {}, None)
        return None

    def region_size(self, region):
        k = region[0]
        if k == "alloca":
            return self.fn.vals[region[1]].d.get("alloc_size")
        if k == "global":
            g = self.mod.globals.get(region[1])
            return g.get("size") if g else None
        if k == "param":
            return self.contracts.get(region[1])
        if k == "sub":
            return region[3]
        if k == "heap":
            return region[2] if len(region) > 2 else None
        if k == "outer":
            return region[2]
        return None

    def _export_region(self, region):
        """rewrite a region rooted at one of this function's parameters / locals so that a callee can hold it"""
        if region[0] == "param":
            sz = self.contracts.get(region[1])
            return ("outer", "%s:param%d" % (self.fn.name, region[1]), sz) if isinstance(sz, int) else None
        if region[0] == "alloca":
            sz = self.region_size(region)
            return ("outer", "%s:%s" % (self.fn.name, self.fn.var_name(region[1]) or region[1]), sz) if sz else None
        if region[0] in ("global", "heap", "outer"):
            return region
        if region[0] == "sub":
            parent, pk = region[1]
            ep = self._export_region(parent)
            if ep is None:
                return None
            return ("sub", (ep, pk), region[2], region[3], region[4])
        return None

    def region_desc(self, region):
        k = region[0]
        if k == "alloca":
            return "local %s" % (self.fn.var_name(region[1]) or "#%d" % region[1])
        if k == "global":
            g = self.mod.globals.get(region[1], {})
            return "global %s" % g.get("cname", region[1])
        if k == "param":
            return "param %d" % region[1]
        if k == "sub":
            return "field %s" % region[2]
        if k == "outer":
            return "caller object %s" % region[1]
        return k

    # ---------------------------------------------------------------- GEP
    def _gep(self, base, steps, env, inst):
        region, off = base.region, base.off
        cur_region = region
        for st in steps:
            if st["k"] == "field":
                sname = Module.struct_cname(st["struct"])
                fname = self.mod.field_name(st["struct"], st["field"])
                fsz = self.mod.types[st["struct"]]["fields"][st["field"]]["size"]
                # the struct instance addressed so far must lie inside its region
                if inst is not None and cur_region[0] not in ("unknown", "null") and not (off.lo == 0 and off.hi == 0 and cur_region[0] == "sub"):
                    ssz = self.mod.types[st["struct"]].get("size")
                    if ssz:
                        self._oblige(inst, "field-of", P(cur_region, off), ssz)
                # entering a sub-object: bounds are now those of the field
                if cur_region[0] in ("unknown", "null"):
                    cur_region = ("sub", (cur_region, (0, 0)), "%s.%s" % (sname, fname), fsz, (st["struct"], st["field"]))
                else:
                    cur_region = ("sub", (cur_region, _key(off)), "%s.%s" % (sname, fname), fsz, (st["struct"], st["field"]))
                off = I(0, 0)
            elif st["k"] in ("ptr", "arr"):
                idx = self.lookup(st["idx"], env)
                if not isinstance(idx, I) or idx.bot():
                    idx = I(-INF, INF) if not isinstance(idx, I) else idx
                es = st["el_size"]
                off = I(off.lo + idx.lo * es, off.hi + idx.hi * es) if not idx.bot() else BOT
            else:
                return UNKNOWN_PTR
        return P(cur_region, off)

    # ---------------------------------------------------------------- memory
    def _load(self, inst, ptr, env):
        w = self.width(inst.ty)
        if not isinstance(ptr, P):
            ptr = UNKNOWN_PTR
        self._oblige(inst, "load", ptr, inst.size)
        if self.is_ptr(inst.ty):
            # pointer loaded from memory: known extents only by contract, or from the pointers stored into that field
            key = self._field_key(ptr)
            if key and key in self.unit.ptr_contracts:
                size = self.unit.ptr_contracts[key]
                return P(("heap", "%s.%s" % key, size), I(0, 0))
            if key and key in self.unit.ptr_field:
                pv = self.unit.ptr_field[key]
                if pv is not None:
                    return pv
            return UNKNOWN_PTR
        if w is None:
            return None
        tr = top(w)
        region = ptr.region
        if region[0] == "global":
            g = self.mod.globals.get(region[1])
            if g and g.get("constant") and "init" in g:
                v = self._read_const(g["init"], g["ty"], ptr.off, inst.size, w)
                if v is not None:
                    return v
        if region[0] == "sub":
            g_abs = self._global_abs(region, ptr.off)
            if g_abs is not None:
                g, aoff = g_abs
                if g.get("constant") and "init" in g:
                    v = self._read_const(g["init"], g["ty"], aoff, inst.size, w)
                    if v is not None:
                        return v
            sty, fidx = region[4]
            cn = (Module.struct_cname(sty), self.mod.field_name(sty, fidx))
            fty = self.mod.types[sty]["fields"][fidx]["ty"]
            if fty.startswith("["):
                if cn in self.unit.given_elem:
                    return self.unit.given_elem[cn][0].meet(tr)
                inv = self.unit.elem.get((sty, fidx))
                # constant struct global element
                return tr if inv is None else self._with_zero_init(inv, tr)
            if cn in self.unit.given:
                return self.unit.given[cn][0].meet(tr)
            if cn in self.unit.candidates:
                return self.unit.candidates[cn].meet(tr)
            inv = self.unit.field.get((sty, fidx))
            if inv is not None:
                return self._with_zero_init(inv, tr)
            return tr
        if region[0] == "alloca":
            a = self.fn.vals[region[1]]
            if not a.d["alloc_ty"].startswith("[") and not a.d["alloc_ty"].startswith("%"):
                inv = self.unit.alloca_elem.get((self.fn.name, region[1], "scalar"))
                if inv is not None and (self.fn.name, region[1]) not in self.unit.escaped_allocas:
                    return inv.meet(tr)
            return tr
        return tr

    def _global_abs(self, region, off):
        """if the (sub-)region lies inside a global, return (global, absolute offset interval)"""
        lo, hi = off.lo, off.hi
        r = region
        for _ in range(8):
            if r[0] == "global":
                g = self.mod.globals.get(r[1])
                return (g, I(lo, hi)) if g else None
            if r[0] != "sub":
                return None
            parent, pk = r[1]
            sty, fidx = r[4]
            fo = self.mod.types[sty]["fields"][fidx]["off"]
            lo, hi = lo + fo + pk[0], hi + fo + pk[1]
            r = parent
        return None

    def _with_zero_init(self, inv, tr):
        return sjoin(inv, I(0, 0)).meet(tr)

    def _field_key(self, ptr):
        if isinstance(ptr, P) and ptr.region[0] == "sub":
            sty, fidx = ptr.region[4]
            return (Module.struct_cname(sty), self.mod.field_name(sty, fidx))
        return None

    def _read_const(self, init, ty, off, size, w):
        """value range of reading `size` bytes at offset interval off of a constant initialiser"""
        if off.bot():
            return None
        if off.lo == -INF or off.hi == INF or off.lo != off.lo or off.hi != off.hi:
            off = I(0, 1 << 40)
        off = I(max(off.lo, 0), min(off.hi, 1 << 40))
        if off.lo > off.hi:
            return None
        t = self.mod.types.get(ty)
        if init["k"] == "data":
            esz = self.mod.type_size(init["ety"])
            if esz != size:
                return None
            n = len(init["elts"])
            lo_i = max(0, int(off.lo // esz)) if off.lo != -INF else 0
            hi_i = min(n - 1, int(off.hi // esz)) if off.hi != INF else n - 1
            if lo_i > hi_i:
                return None
            vals = init["elts"][lo_i:hi_i + 1]
            ew = self.mod.int_bits(init["ety"])
            vals = [norm(v, v, ew).lo for v in vals]
            return I(min(vals), max(vals))
        if init["k"] == "zero":
            return I(0, 0)
        if init["k"] == "agg" and t:
            if t["k"] == "arr":
                esz = self.mod.type_size(t["el"])
                res = BOT
                lo_i = max(0, int(off.lo // esz))
                hi_i = min(len(init["elems"]) - 1, int(off.hi // esz))
                same = lo_i == hi_i
                for k in range(lo_i, hi_i + 1):
                    sub_off = I(off.lo - k * esz, off.hi - k * esz) if same else I(0, esz - 1)
                    v = self._read_const(init["elems"][k], t["el"], sub_off.meet(I(0, esz - 1)) if not same else sub_off, size, w)
                    if v is None:
                        return None
                    res = res.join(v)
                return res
            if t["k"] == "struct":
                res = BOT
                for k, f in enumerate(t["fields"]):
                    fo, fs = f["off"], f["size"]
                    if off.hi < fo or off.lo >= fo + fs:
                        continue
                    v = self._read_const(init["elems"][k], f["ty"], I(max(0, off.lo - fo), min(fs - 1, off.hi - fo)), size, w)
                    if v is None:
                        return None
                    res = res.join(v)
                return None if res.bot() else res
        if init["k"] == "scalar":
            v = init["v"]
            if v[0] == "ci":
                ww = v[2] or w
                return norm(v[1], v[1], ww)
        return None

    def _store(self, inst, ptr, v, env):
        if not isinstance(ptr, P):
            ptr = UNKNOWN_PTR
        self._oblige(inst, "store", ptr, inst.size)
        if isinstance(v, P):
            key = self._field_key(ptr)
            if key:
                old = self.unit.ptr_field_pending.get(key, "none")
                if old == "none":
                    self.unit.ptr_field_pending[key] = v
                elif old is not None:
                    self.unit.ptr_field_pending[key] = P(old.region, old.off.join(v.off)) if old.region == v.region else (old if v.region[0] == "null" else (v if old.region[0] == "null" else None))
            return
        sa = self.unit.site_value_assumption(self, inst, ptr)
        if sa is not None:
            v = sa
        if not isinstance(v, I):
            return
        if isinstance(v, UI2):
            v = I(v.lo, v.hi)
        region = ptr.region
        if region[0] == "sub":
            sty, fidx = region[4]
            fty = self.mod.types[sty]["fields"][fidx]["ty"]
            tab = self.unit.elem if fty.startswith("[") else self.unit.field
            if not fty.startswith("["):
                v = self._without_own_value(inst, ptr, v, env)
            self.unit._upd(tab, (sty, fidx), v, self.thresholds)
            cn = (Module.struct_cname(sty), self.mod.field_name(sty, fidx))
            if cn in self.unit.candidates and not fty.startswith("["):
                cand = self.unit.candidates[cn]
                okc = (not v.bot()) and cand.lo <= v.lo and v.hi <= cand.hi
                ob = Obligation(inst, "invariant", region, v, None, None, okc or v.bot(), "field %s.%s in %s" % (cn[0], cn[1], cand))
                ob.val_op = inst.ops[0]
                self.inv_obligations[inst.id] = ob
        elif region[0] == "alloca":
            a = self.fn.vals[region[1]]
            if not a.d["alloc_ty"].startswith("[") and not a.d["alloc_ty"].startswith("%"):
                self.unit._upd(self.unit.alloca_elem, (self.fn.name, region[1], "scalar"), v, self.thresholds)

    def _without_own_value(self, inst, ptr, v, env):
        """The values a store adds to a scalar field's invariant: when the stored value is a phi (a local copy of the field that is
        written back, `pos = s->pos; loop { ...; pos = f(pos); } s->pos = pos;`), the incoming that is the field's own loaded value adds
        nothing new - only the other incomings do.  Without this, a field that is cached in a local could never be bounded: its
        invariant would have to contain whatever it contained before."""
        def strip(o):
            d = self.fn.defn(o)
            while d is not None and not d.is_param and d.op in ("zext", "sext", "trunc", "bitcast"):
                o = d.ops[0]
                d = self.fn.defn(o)
            return o, d
        o, d = strip(inst.ops[0])
        if d is None or d.is_param or d.op != "phi":
            return v
        parts, dropped = [], False
        seen = {d.id}
        work = list(d.incoming)
        while work:
            iv, pb = work.pop()
            o2, d2 = strip(iv)
            if d2 is not None and not d2.is_param and d2.op == "phi" and d2.id not in seen and len(seen) < 8:
                seen.add(d2.id)
                work.extend(d2.incoming)
                continue
            if d2 is not None and not d2.is_param and d2.op == "phi" and d2.id in seen:
                continue
            if d2 is not None and not d2.is_param and d2.op == "load":
                lp = self.lookup(d2.ops[0], env)
                if isinstance(lp, P) and lp.region == ptr.region and lp.off == ptr.off:
                    dropped = True
                    continue
            x = self.lookup(iv, env)
            if not isinstance(x, I):
                return v
            if o2 is not iv:
                # value seen through casts: evaluate the phi operand as the store sees it is not possible piecewise; keep the whole value
                w_from = self.width(self.fn.defn(iv).ty) if self.fn.defn(iv) is not None and not self.fn.defn(iv).is_param else None
            parts.append(x)
        if not dropped or not parts:
            return v
        acc = parts[0]
        for x in parts[1:]:
            acc = acc.join(x)
        # never claim more than the direct evaluation did
        return acc.meet(v) if isinstance(v, I) and not acc.meet(v).bot() else acc

    def _oblige(self, inst, kind, ptr, width, length=None, length_op=None, ptr_op=None):
        """record the bounds obligation of an access of `width` bytes (or a length interval)"""
        self._oblige2(inst, kind, ptr, width, length, length_op)
        o = self.obligations.get((inst.id, kind))
        if o is not None:
            o.len_op = length_op
            o.ptr_op = ptr_op if ptr_op is not None else self._ptr_operand(inst, kind)

    def _ptr_operand(self, inst, kind):
        if inst.op == "load":
            return inst.ops[0]
        if inst.op == "store":
            return inst.ops[1]
        if inst.op == "call":
            if kind in ("memcpy-src", "memcmp-1"):
                return inst.ops[1]
            if kind in ("stream-read", "decoder-read", "read-into"):
                return inst.ops[1]
            return inst.ops[0]
        if inst.op == "getelementptr":
            return inst.ops[0]
        return None

    def _oblige2(self, inst, kind, ptr, width, length=None, length_op=None):
        region = ptr.region
        size = self.region_size(region)
        if isinstance(size, tuple) and size[0] == "param":
            # symbolic extent: the region has exactly as many bytes as the value of parameter k
            pk = self.fn.params[size[1]]
            lo = length_op
            while lo is not None and lo[0] == "v" and self.fn.defn(lo) is not None and not self.fn.defn(lo).is_param and self.fn.defn(lo).op in ("zext", "sext", "trunc"):
                lo = self.fn.defn(lo).ops[0]
            ok = ptr.off.lo == 0 and ptr.off.hi == 0 and lo == ("v", pk.id)
            ob = Obligation(inst, kind, region, ptr.off, length if length is not None else width, ("param", size[1]), ok, self.region_desc(region))
            self.obligations[(inst.id, kind)] = ob
            return
        if length is not None:
            if not isinstance(length, I) or length.bot():
                length = I(0, INF)
            need_hi = ptr.off.hi + max(0, length.hi)
            if length.hi <= 0:
                need_hi = ptr.off.lo    # zero-length access touches nothing
        else:
            need_hi = ptr.off.hi + width
        if size is None and region[0] not in ("null", "fn"):
            key = (inst.id, kind)
            ok_ = None
            self.obligations[key] = Obligation(inst, kind, region, ptr.off, width, None, ok_, self.region_desc(region))
            return
        if region[0] in ("null", "fn"):
            return
        ok = size is not None and ptr.off.lo >= 0 and need_hi <= size
        if length is not None and length.hi <= 0:
            ok = True
        key = (inst.id, kind)
        self.obligations[key] = Obligation(inst, kind, region, ptr.off, (width if length is None else length), size, ok, self.region_desc(region))

    # ---------------------------------------------------------------- transfer
    def _binop(self, op, a, b, w):
        if not isinstance(a, I) or not isinstance(b, I):
            return top(w)
        if a.bot() or b.bot():
            return BOT
        if op == "add":
            return norm(a.lo + b.lo, a.hi + b.hi, w)
        if op == "sub":
            return norm(a.lo - b.hi, a.hi - b.lo, w)
        if op == "mul":
            c = [a.lo * b.lo, a.lo * b.hi, a.hi * b.lo, a.hi * b.hi]
            return norm(min(c), max(c), w)
        ua, ub = unsigned(a, w), unsigned(b, w)
        if op == "and" and b.is_const() and a.lo >= 0 and a.hi != INF and a.hi >= 0:
            # only the bits that x can have matter
            kbits = max(1, a.hi.bit_length())
            c2 = (b.lo & urange(w)[1]) & ((1 << kbits) - 1)
            if c2 != b.lo:
                b = I(c2, c2)
                ub = b
        if op == "and" and isinstance(a, UI2) and b.is_const() and b.lo >= 0:
            ra = self._binop("and", a.a, b, w)
            rb = self._binop("and", a.b, b, w)
            return ra.join(rb)
        if op == "and" and b.is_const() and b.lo > 0 and (b.lo & (b.lo + 1)) == 0 and a.lo >= 0 and a.hi != INF:
            # x & (2^k - 1): exact when x stays inside one 2^k block
            k = b.lo.bit_length()
            if (a.lo >> k) == (a.hi >> k):
                return I(a.lo & b.lo, a.hi & b.lo)
        if op == "and":
            if a.lo >= 0 and b.lo >= 0:
                return I(0, min(a.hi, b.hi))
            if b.lo >= 0:
                return I(0, b.hi)
            if a.lo >= 0:
                return I(0, a.hi)
            return top(w)
        if op == "or" and b.is_const() and a.lo >= 0 and a.hi != INF:
            c = b.lo & urange(w)[1]
            if a.hi > 0 and (c & ((1 << a.hi.bit_length()) - 1)) == 0 or a.hi == 0:
                return norm(a.lo + c, a.hi + c, w)
        if op == "or" and (a.hi < 0 or b.hi < 0):
            # sign bit set in one operand: the result is negative
            return I(srange(w)[0], -1)
        if op in ("or", "xor"):
            if a.lo >= 0 and b.lo >= 0:
                m = max(a.hi, b.hi)
                bound = (1 << m.bit_length()) - 1 if m > 0 else 0
                lo = max(a.lo, b.lo) if op == "or" else 0
                return I(lo, bound)
            return top(w)
        if op == "urem":
            if ub.lo > 0:
                if ua.hi < ub.lo:
                    return from_unsigned(ua.lo, ua.hi, w)
                return from_unsigned(0, ub.hi - 1, w)
            return from_unsigned(0, max(ub.hi - 1, ua.hi), w)
        if op == "udiv":
            if ub.lo > 0:
                return from_unsigned(ua.lo // ub.hi, ua.hi // ub.lo, w)
            return from_unsigned(0, ua.hi, w)
        if op == "srem":
            if b.lo > 0:
                m = b.hi - 1
                return I(0 if a.lo >= 0 else -m, m if a.hi >= 0 else 0)
            return top(w)
        if op == "sdiv":
            if b.lo > 0:
                # C division truncates towards zero; for a positive divisor it is monotone in the dividend and, for a fixed
                # dividend, monotone in the divisor, so the four corners are exact bounds
                def tdiv(x, y):
                    q = abs(x) // abs(y)
                    return q if (x >= 0) == (y >= 0) else -q
                c = [tdiv(a.lo, b.lo), tdiv(a.lo, b.hi), tdiv(a.hi, b.lo), tdiv(a.hi, b.hi)]
                return norm(min(c), max(c), w)
            return top(w)
        if op == "shl":
            if b.lo >= 0 and b.hi < w:
                c = [a.lo << b.lo, a.lo << b.hi, a.hi << b.lo, a.hi << b.hi]
                return norm(min(c), max(c), w)
            return top(w)
        if op == "lshr":
            if b.lo >= 0 and b.hi < w:
                return from_unsigned(ua.lo >> b.hi, ua.hi >> b.lo, w)
            if b.lo >= 0:
                return from_unsigned(0, ua.hi >> b.lo if b.lo < w else 0, w) if b.lo < 10 ** 6 else top(w)
            return top(w)
        if op == "ashr":
            if b.lo >= 0 and b.hi < w:
                c = [a.lo >> b.lo, a.lo >> b.hi, a.hi >> b.lo, a.hi >> b.hi]
                return I(min(c), max(c))
            return top(w)
        return top(w)

    def _cast(self, op, a, w_from, w_to):
        if not isinstance(a, I):
            return top(w_to)
        if a.bot():
            return BOT
        if isinstance(a, SI) and op in ("zext", "sext"):
            if op == "sext":
                return a
            m = 1 << w_from
            # negative part maps to [2^w + lo, 2^w + hi], positive part unchanged: both non-negative now
            lo_part = a.pos
            hi_part = I(a.neg.lo + m, a.neg.hi + m)
            return UI2(lo_part, hi_part)
        if op == "zext":
            u = unsigned(a, w_from)
            return I(u.lo, u.hi)
        if op == "sext":
            return a
        if op == "trunc":
            smin, smax = srange(w_to)
            if smin <= a.lo and a.hi <= smax:
                return a
            return norm(a.lo, a.hi, w_to)
        return top(w_to)

    def _icmp_eval(self, pred, a, b, w):
        """returns True / False / None"""
        if not isinstance(a, I) or not isinstance(b, I) or a.bot() or b.bot():
            return None
        if pred[0] == "u":
            a, b = unsigned(a, w), unsigned(b, w)
        p = pred[-2:] if pred not in ("eq", "ne") else pred
        if p == "eq":
            if a.is_const() and b.is_const() and a.lo == b.lo:
                return True
            if a.hi < b.lo or b.hi < a.lo:
                return False
            return None
        if p == "ne":
            r = self._icmp_eval("eq", a, b, w)
            return None if r is None else (not r)
        if p == "lt":
            return True if a.hi < b.lo else (False if a.lo >= b.hi else None)
        if p == "le":
            return True if a.hi <= b.lo else (False if a.lo > b.hi else None)
        if p == "gt":
            return True if a.lo > b.hi else (False if a.hi <= b.lo else None)
        if p == "ge":
            return True if a.lo >= b.hi else (False if a.hi < b.lo else None)
        return None

    # ---------------------------------------------------------------- refinement
    def _refine_cmp(self, pred, a_op, b_op, env, truth):
        """refine operands of icmp for the given truth; returns new env or None if infeasible"""
        from .facts import NEG
        if not truth:
            pred = NEG[pred]
        d = self.fn.defn(a_op) or self.fn.defn(b_op)
        ty = None
        for o in (a_op, b_op):
            dd = self.fn.defn(o)
            if dd is not None:
                ty = dd.ty
        if ty is None or self.is_ptr(ty):
            return self._refine_ptr_cmp(pred, a_op, b_op, env)
        w = self.width(ty)
        a, b = self.lookup(a_op, env), self.lookup(b_op, env)
        if not isinstance(a, I) or not isinstance(b, I):
            return env
        if a.bot() or b.bot():
            return None
        uns = pred[0] == "u"
        A, B = (unsigned(a, w), unsigned(b, w)) if uns else (a, b)
        p = pred[-2:] if pred not in ("eq", "ne") else pred
        if p == "eq":
            m = A.meet(B)
            na, nb = m, m
        elif p == "ne":
            na, nb = A, B
            if B.is_const():
                if A.lo == B.lo:
                    na = I(A.lo + 1, A.hi)
                elif A.hi == B.lo:
                    na = I(A.lo, A.hi - 1)
            if A.is_const():
                if B.lo == A.lo:
                    nb = I(B.lo + 1, B.hi)
                elif B.hi == A.lo:
                    nb = I(B.lo, B.hi - 1)
        elif p == "lt":
            na, nb = I(A.lo, min(A.hi, B.hi - 1)), I(max(B.lo, A.lo + 1), B.hi)
        elif p == "le":
            na, nb = I(A.lo, min(A.hi, B.hi)), I(max(B.lo, A.lo), B.hi)
        elif p == "gt":
            na, nb = I(max(A.lo, B.lo + 1), A.hi), I(B.lo, min(B.hi, A.hi - 1))
        elif p == "ge":
            na, nb = I(max(A.lo, B.lo), A.hi), I(B.lo, min(B.hi, A.hi))
        else:
            return env
        if na.bot() or nb.bot():
            return None
        if uns:
            na = from_unsigned(na.lo, na.hi, w) if (na.lo, na.hi) != (A.lo, A.hi) or a.lo >= 0 or a.hi < 0 else a
            nb = from_unsigned(nb.lo, nb.hi, w) if (nb.lo, nb.hi) != (B.lo, B.hi) or b.lo >= 0 or b.hi < 0 else b
        env = dict(env)
        self._assign(a_op, na.meet(a) if not uns else _meet_wrapped(na, a), env)
        self._assign(b_op, nb.meet(b) if not uns else _meet_wrapped(nb, b), env)
        return env

    def _refine_ptr_cmp(self, pred, a_op, b_op, env):
        a, b = self.lookup(a_op, env), self.lookup(b_op, env)
        if isinstance(a, P) and isinstance(b, P):
            if pred == "eq" and a.region[0] == "null" and b.region[0] in ("alloca", "global", "sub"):
                return None
            if pred == "eq" and b.region[0] == "null" and a.region[0] in ("alloca", "global", "sub"):
                return None
            if a.region == b.region and a.region[0] != "unknown":
                w = 64
                na, nb = a.off, b.off
                p = pred[-2:] if pred not in ("eq", "ne") else pred
                if p == "lt":
                    na, nb = I(na.lo, min(na.hi, nb.hi - 1)), I(max(nb.lo, na.lo + 1), nb.hi)
                elif p == "le":
                    na, nb = I(na.lo, min(na.hi, nb.hi)), I(max(nb.lo, na.lo), nb.hi)
                elif p == "gt":
                    na, nb = I(max(na.lo, nb.lo + 1), na.hi), I(nb.lo, min(nb.hi, na.hi - 1))
                elif p == "ge":
                    na, nb = I(max(na.lo, nb.lo), na.hi), I(nb.lo, min(nb.hi, na.hi))
                elif p == "eq":
                    na = nb = na.meet(nb)
                if na.bot() or nb.bot():
                    return None
                env = dict(env)
                if a_op[0] == "v":
                    env[a_op[1]] = P(a.region, na)
                if b_op[0] == "v":
                    env[b_op[1]] = P(b.region, nb)
        return env

    def _assign(self, o, iv, env, depth=0):
        """record refined interval for operand o in env and push it back through its definition"""
        if o[0] != "v" or not isinstance(iv, I):
            return
        cur = env.get(o[1], self.val.get(o[1]))
        if isinstance(cur, I):
            iv = iv.meet(cur)
            if iv.bot():
                iv = cur if False else iv
        env[o[1]] = iv
        if depth > 6 or iv.bot():
            return
        d = self.fn.defn(o)
        if d is None or d.is_param:
            return
        w = self.width(d.ty)
        if d.op == "zext":
            wf = self.width(self.fn.defn(d.ops[0]).ty) if self.fn.defn(d.ops[0]) is not None else None
            if wf and iv.lo >= 0 and iv.hi <= urange(wf)[1]:
                self._assign(d.ops[0], from_unsigned(iv.lo, iv.hi, wf) if iv.hi <= srange(wf)[1] or iv.lo > srange(wf)[1] else top(wf), env, depth + 1)
                src = self.lookup(d.ops[0], env)
                if isinstance(src, I) and not src.bot():
                    back = self._cast("zext", src, wf, w).meet(iv)
                    if not back.bot():
                        env[o[1]] = back
        elif d.op == "sext":
            self._assign(d.ops[0], iv, env, depth + 1)
        elif d.op == "trunc":
            src = self.lookup(d.ops[0], env)
            if isinstance(src, I) and not src.bot():
                smin, smax = srange(w)
                if smin <= src.lo and src.hi <= smax:
                    self._assign(d.ops[0], iv, env, depth + 1)
                elif 0 <= src.lo and src.hi <= urange(w)[1] and iv.lo >= 0:
                    self._assign(d.ops[0], iv, env, depth + 1)
        elif d.op in ("add", "sub") and is_const(d.ops[1]):
            c = const_val(d.ops[1]) if d.op == "add" else -const_val(d.ops[1])
            src = self.lookup(d.ops[0], env)
            if isinstance(src, I) and not src.bot():
                smin, smax = srange(w)
                if smin <= src.lo + c and src.hi + c <= smax:
                    self._assign(d.ops[0], I(iv.lo - c, iv.hi - c), env, depth + 1)
        elif d.op == "and" and is_const(d.ops[1]) and isinstance(self.lookup(d.ops[0], env), UI2) and (iv.is_const() and iv.lo == 0 or iv.lo > 0):
            m = const_val(d.ops[1]) & urange(w)[1]
            src = self.lookup(d.ops[0], env)
            if m and (m & (m - 1)) == 0 and src.a.hi < m and src.b.lo >= m and src.b.hi < 2 * m:
                self._assign(d.ops[0], src.a if iv.lo == 0 and iv.is_const() else src.b, env, depth + 1)
        elif d.op == "and" and is_const(d.ops[1]) and iv.is_const() and iv.lo == 0:
            # (x & m) == 0
            m = const_val(d.ops[1]) & urange(w)[1]
            src = self.lookup(d.ops[0], env)
            if isinstance(src, I) and not src.bot() and src.lo >= 0 and m and (m & (m - 1)) == 0 and src.hi < 2 * m:
                self._assign(d.ops[0], I(src.lo, min(src.hi, m - 1)), env, depth + 1)
        elif d.op == "and" and is_const(d.ops[1]) and iv.lo > 0:
            m = const_val(d.ops[1]) & urange(w)[1]
            src = self.lookup(d.ops[0], env)
            if isinstance(src, I) and not src.bot() and src.lo >= 0 and m and (m & (m - 1)) == 0 and src.hi < 2 * m:
                self._assign(d.ops[0], I(max(src.lo, m), src.hi), env, depth + 1)

    def _refine_cond(self, c_op, truth, env):
        """env refined by boolean operand c_op having the given truth; None if infeasible"""
        d = self.fn.defn(c_op)
        if d is None or d.is_param:
            return env
        cur = self.lookup(c_op, env)
        if isinstance(cur, I) and not cur.bot() and cur.is_const():
            if bool(cur.lo) != truth:
                return None
            return env
        if d.op == "icmp":
            return self._refine_cmp(d.pred, d.ops[0], d.ops[1], env, truth)
        if d.op == "xor" and is_const(d.ops[1]) and const_val(d.ops[1]) in (1, -1, True):
            return self._refine_cond(d.ops[0], not truth, env)
        if d.op in ("zext", "trunc"):
            return self._refine_cond(d.ops[0], truth, env)
        if d.op == "and" and d.ty == "i1" and truth:
            e = self._refine_cond(d.ops[0], True, env)
            return None if e is None else self._refine_cond(d.ops[1], True, e)
        if d.op == "or" and d.ty == "i1" and not truth:
            e = self._refine_cond(d.ops[0], False, env)
            return None if e is None else self._refine_cond(d.ops[1], False, e)
        if d.op == "select" and d.ty == "i1":
            c, x, y = d.ops
            if truth and is_const(y) and const_val(y) == 0:
                e = self._refine_cond(c, True, env)
                return None if e is None else self._refine_cond(x, True, e)
            if not truth and is_const(x) and const_val(x) != 0:
                e = self._refine_cond(c, False, env)
                return None if e is None else self._refine_cond(y, False, e)
            return env
        if d.op == "phi" and d.ty == "i1":
            env = dict(env)
            env[d.id] = I(1, 1) if truth else I(0, 0)
            return env
        return env

    def edge_env(self, b, s):
        env = self._edge_env(b, s)
        if env is None:
            return None
        # lock-step: on the edge that continues a counted loop at most T-1 iterations are complete
        for h, (cb, stay) in self._ctrl.items():
            if cb == b and stay == s and h in self._lock:
                env = dict(env)
                for pid, bound in self._lock[h].items():
                    cur = env.get(pid, self.val.get(pid))
                    if isinstance(cur, I) and isinstance(bound, I):
                        m = cur.meet(bound)
                        if not m.bot():
                            env[pid] = m
                    elif isinstance(cur, P) and isinstance(bound, P) and cur.region == bound.region:
                        m = cur.off.meet(bound.off)
                        if not m.bot():
                            env[pid] = P(cur.region, m)
        return env

    def _edge_env(self, b, s):
        env = self.env_out.get(b)
        if env is None:
            return None
        t = self.fn.blocks[b].term
        if t.op == "br" and len(t.ops) == 1:
            tt, ff = t.succs
            if tt == ff:
                return env
            return self._refine_cond(t.ops[0], s == tt, env)
        if t.op == "switch":
            v = self.lookup(t.ops[0], env)
            cases = t.d["cases"]
            hit = [c for c, bb in cases if bb == s]
            if isinstance(v, I) and not v.bot():
                if s != t.d["default"] or hit:
                    feas = [c for c in hit if v.lo <= c <= v.hi]
                    if not feas and s != t.d["default"]:
                        return None
                    if len(hit) == 1 and s != t.d["default"]:
                        env = dict(env)
                        self._assign(t.ops[0], I(hit[0], hit[0]), env)
                        return env
                else:
                    # default: exclude case values at the interval ends
                    lo, hi = v.lo, v.hi
                    cs = sorted(c for c, bb in cases)
                    changed = True
                    while changed:
                        changed = False
                        if lo in cs:
                            lo += 1
                            changed = True
                        if hi in cs:
                            hi -= 1
                            changed = True
                    if lo > hi:
                        return None
                    env = dict(env)
                    self._assign(t.ops[0], I(lo, hi), env)
                    return env
            return env
        return env

    # ---------------------------------------------------------------- main loop
    def run(self, max_iter=60):
        fn = self.fn
        rpo = fn.rpo()
        # parameters
        for p in fn.params:
            if p.index in self.pvals:
                self.val[p.id] = self.pvals[p.index]
            elif self.is_ptr(p.ty):
                self.val[p.id] = P(("param", p.index), I(0, 0))
            else:
                w = self.width(p.ty)
                pv = self.unit.param_values.get((fn.name, p.index))
                if pv is None and any(isinstance(sz, tuple) and sz[0] == "param" and sz[1] == p.index for sz in self.contracts.values()) and w:
                    # this parameter is the byte length of a caller-supplied object: 0 .. PTRDIFF_MAX
                    pv = I(0, srange(w)[1])
                self.val[p.id] = pv if pv is not None else (top(w) if w else None)
        if max_iter != 1:
            self.env_out = {}
        widen_after = 3
        self._wcount = getattr(self, "_wcount", {})
        it = 0
        while True:
            it += 1
            if it > max_iter and max_iter == 1:
                break
            if it > 400:
                raise RuntimeError("range analysis did not converge in %s" % fn.name)
            changed = False
            narrowing = False
            for b in rpo:
                blk = fn.blocks[b]
                if b == rpo[0]:
                    env = {}
                else:
                    envs = []
                    for p in blk.preds:
                        e = self.edge_env(p, b) if p in self.env_out else None
                        if e is not None:
                            envs.append(e)
                    if not envs:
                        continue
                    env = _join_envs(envs, self)
                self.reach.add(b)
                self.visits[b] = self.visits.get(b, 0) + 1
                for i in blk.insts:
                    nv = self._transfer(i, env, b)
                    if i.op == "phi" and b in self.loop_heads and nv is not None:
                        old = self.val.get(i.id)
                        if old is not None and nv != old and self.visits[b] > widen_after and self._widening_on:
                            self._wcount[i.id] = self._wcount.get(i.id, 0) + 1
                            nv = self._widen_val(old, nv, hard=self._wcount[i.id] > 4)
                        if nv is not None:
                            nv = self._trip_bound(i, nv, b)
                    if nv is not None or i.id in self.val:
                        if self.val.get(i.id) != nv:
                            self.val[i.id] = nv
                            changed = True
                    env.pop(i.id, None)
                old_env = self.env_out.get(b)
                if old_env != env:
                    self.env_out[b] = env
                    changed = True
            if not changed or max_iter == 1:
                break
        return self

    _widening_on = True
    _narrowing = False

    def reeval(self, o, env, depth=0):
        """value of operand o under env, recomputing pure definitions whose operands are refined in env"""
        if o[0] != "v" or o[1] in env:
            return self.lookup(o, env)
        d = self.fn.defn(o)
        if d is None or d.is_param or depth > 3:
            return self.lookup(o, env)
        if d.op in ("zext", "sext", "trunc"):
            a = self.reeval(d.ops[0], env, depth + 1)
            dd = self.fn.defn(d.ops[0])
            wf = self.width(dd.ty) if dd is not None else None
            if isinstance(a, I) and wf:
                r = self._cast(d.op, a, wf, self.width(d.ty))
                base = self.val.get(d.id)
                return r.meet(base) if isinstance(base, I) and not r.meet(base).bot() else r
        if d.op in ("add", "sub", "mul", "and", "or", "lshr", "shl", "urem", "udiv") and self.width(d.ty):
            a, b = self.reeval(d.ops[0], env, depth + 1), self.reeval(d.ops[1], env, depth + 1)
            if isinstance(a, I) and isinstance(b, I):
                r = self._binop(d.op, a, b, self.width(d.ty))
                base = self.val.get(d.id)
                return r.meet(base) if isinstance(base, I) and not r.meet(base).bot() else r
        return self.lookup(o, env)

    def _widen_val(self, old, new, hard=False):
        if isinstance(old, I) and isinstance(new, I):
            j = old.join(new)
            return widen(old, j, self._type_thresholds if hard else self.thresholds)
        if isinstance(old, P) and isinstance(new, P) and old.region == new.region:
            j = old.off.join(new.off)
            return P(old.region, widen(old.off, j, [] if hard else self.thresholds + [s for s in [self.region_size(old.region)] if isinstance(s, int) and s]))
        if isinstance(old, P) and isinstance(new, P):
            return UNKNOWN_PTR
        return new

    # ---------------------------------------------------------------- trip counts
    def _loop_of(self, header):
        for lp in self.fn.loops():
            if lp["header"] == header:
                return lp
        return None

    def _const_step(self, phi, lp):
        """(step, init operand list) if every back-edge value of phi is phi + c"""
        steps = set()
        inits = []
        for v, pb in phi.incoming:
            if pb in lp["body"]:
                d = self.fn.defn(v)
                c = None
                if d is not None and not d.is_param:
                    if d.op in ("add", "sub") and d.ops[0] == ("v", phi.id) and is_const(d.ops[1]):
                        c = const_val(d.ops[1]) if d.op == "add" else -const_val(d.ops[1])
                    elif d.op == "getelementptr" and d.ops[0] == ("v", phi.id) and len(d.steps) == 1 and d.steps[0]["idx"][0] == "ci":
                        c = d.steps[0]["idx"][1] * d.steps[0]["el_size"]
                if c is None:
                    return None
                steps.add(c)
            else:
                inits.append((v, pb))
        if len(steps) != 1:
            return None
        return steps.pop(), inits

    def _delta(self, phi, v, lp, seen, depth=0):
        """interval d such that v = phi + d within one iteration of loop lp (None if not derivable)"""
        if v == ("v", phi.id):
            return I(0, 0)
        d = self.fn.defn(v)
        if d is None or d.is_param or depth > 40 or d.block.id not in lp["body"]:
            return None
        if d.id in seen:
            return None
        if d.op in ("add", "sub") and is_const(d.ops[1]):
            c = const_val(d.ops[1]) if d.op == "add" else -const_val(d.ops[1])
            x = self._delta(phi, d.ops[0], lp, seen, depth + 1)
            return None if x is None else I(x.lo + c, x.hi + c)
        if d.op == "getelementptr" and len(d.steps) == 1 and d.steps[0]["idx"][0] == "ci":
            c = d.steps[0]["idx"][1] * d.steps[0]["el_size"]
            x = self._delta(phi, d.ops[0], lp, seen, depth + 1)
            return None if x is None else I(x.lo + c, x.hi + c)
        if d.op in ("bitcast",):
            return self._delta(phi, d.ops[0], lp, seen, depth + 1)
        if d.op == "phi":
            inner = self._loop_of(d.block.id) if d.block.id in self.loop_heads and d.block.id != lp["header"] else None
            if inner is not None:
                cs = self._const_step(d, inner)
                if cs is None:
                    return None
                c, inits = cs
                T2 = self.trip_count(inner)
                if T2 is None:
                    return None
                res = None
                for iv_, pb in inits:
                    x = self._delta(phi, iv_, lp, seen | {d.id}, depth + 1)
                    if x is None:
                        return None
                    res = x if res is None else res.join(x)
                if res is None:
                    return None
                return I(res.lo + min(0, c * T2), res.hi + max(0, c * T2))
            res = None
            for iv_, pb in d.incoming:
                x = self._delta(phi, iv_, lp, seen | {d.id}, depth + 1)
                if x is None:
                    return None
                res = x if res is None else res.join(x)
            return res
        return None

    def _step_interval(self, phi, lp):
        """(d interval, inits) generalising _const_step: per-iteration change of phi lies in d"""
        cs = self._const_step(phi, lp)
        if cs is not None:
            return I(cs[0], cs[0]), cs[1]
        inits, d = [], None
        for v, pb in phi.incoming:
            if pb in lp["body"]:
                x = self._delta(phi, v, lp, frozenset())
                if x is None:
                    return None
                d = x if d is None else d.join(x)
            else:
                inits.append((v, pb))
        if d is None:
            return None
        return d, inits

    def trip_count(self, lp):
        """upper bound on the number of times the back edge is taken, from a counted induction variable"""
        hdr = self.fn.blocks[lp["header"]]
        best = None
        for phi in hdr.insts:
            if phi.op != "phi" or self.is_ptr(phi.ty):
                continue
            cs = self._const_step(phi, lp)
            if cs is None or cs[0] == 0:
                continue
            c, inits = cs
            w = self.width(phi.ty)
            init = BOT
            for v, pb in inits:
                e = self.edge_env(pb, lp["header"]) if pb in self.env_out else None
                if e is None:
                    continue
                x = self.lookup(v, e)
                if isinstance(x, I):
                    init = init.join(x)
            if init.bot() or init.lo == -INF or init.hi == INF:
                continue
            # every latch must carry 'phi < bound' (up) / 'phi > bound' (down): look at the branch conditions
            # that dominate the latches and compare the phi (or phi +- const / cast of it) with a value
            for blk_id in lp["body"]:
                t = self.fn.blocks[blk_id].term
                if t.op != "br" or len(t.ops) != 1:
                    continue
                tt, ff = t.succs
                stay = [s_ for s_ in (tt, ff) if s_ in lp["body"]]
                leave = [s_ for s_ in (tt, ff) if s_ not in lp["body"]]
                if len(stay) != 1 or len(leave) != 1:
                    continue
                if not all(self.fn.dominates(blk_id, l) for l in lp["latches"]):
                    continue
                cd = self.fn.defn(t.ops[0])
                if cd is None or cd.is_param or cd.op != "icmp":
                    continue
                truth = stay[0] == tt
                from .facts import NEG, SWAP
                pred = cd.pred if truth else NEG[cd.pred]
                a_op, b_op = cd.ops
                # normalise so that the phi side is on the left
                def is_phi_side(o):
                    x = o
                    for _ in range(4):
                        dd = self.fn.defn(x)
                        if x == ("v", phi.id):
                            return True
                        if dd is None or dd.is_param or dd.op not in ("zext", "sext", "trunc"):
                            return False
                        x = dd.ops[0]
                    return False
                if is_phi_side(b_op) and not is_phi_side(a_op):
                    a_op, b_op, pred = b_op, a_op, SWAP[pred]
                if not is_phi_side(a_op):
                    continue
                env = self.env_out.get(blk_id, {})
                bnd = self.lookup(b_op, env)
                if not isinstance(bnd, I) or bnd.bot():
                    continue
                if pred[0] == "u":
                    bnd = unsigned(bnd, self.width(self.fn.defn(a_op).ty) or w) if self.fn.defn(a_op) is not None else bnd
                    if init.lo < 0:
                        continue
                p2 = pred[-2:] if pred not in ("eq", "ne") else pred
                T = None
                if c > 0 and p2 in ("lt", "le") and bnd.hi != INF:
                    lim = bnd.hi - (1 if p2 == "lt" else 0)       # phi <= lim to stay
                    T = max(0, (lim - init.lo) // c + 1)
                elif c < 0 and p2 in ("gt", "ge") and bnd.lo != -INF:
                    lim = bnd.lo + (1 if p2 == "gt" else 0)
                    T = max(0, (init.hi - lim) // (-c) + 1)
                elif p2 == "ne" and abs(c) == 1 and bnd.is_const():
                    if c > 0 and init.hi <= bnd.lo:
                        T = bnd.lo - init.lo
                    elif c < 0 and init.lo >= bnd.lo:
                        T = init.hi - bnd.lo
                if T is not None and (best is None or T < best):
                    best = T
                    self._ctrl[lp["header"]] = (blk_id, stay[0])
        return best

    def _trip_bound(self, phi, nv, b):
        """meet the value of a loop-header phi with init + step * [0, T] when a trip count T is known"""
        if b not in self.loop_heads or not isinstance(nv, (I, P)):
            return nv
        lp = self._loop_of(b)
        cs = self._step_interval(phi, lp) if lp else None
        if cs is None:
            return nv
        dstep, inits = cs
        T = self.trip_count(lp)
        if T is None:
            return nv
        c_lo, c_hi = dstep.lo, dstep.hi
        init = None
        for v, pb in inits:
            e = self.edge_env(pb, b) if pb in self.env_out else None
            if e is None:
                continue
            x = self.lookup(v, e)
            if x is None:
                return nv
            init = x if init is None else _join_val(init, x, self)
        if init is None:
            return nv
        if isinstance(nv, I) and isinstance(init, I) and not init.bot():
            bound = I(init.lo + min(0, c_lo * T), init.hi + max(0, c_hi * T))
            if T > 0:
                self._lock.setdefault(b, {})[phi.id] = I(init.lo + min(0, c_lo * (T - 1)), init.hi + max(0, c_hi * (T - 1)))
            m = nv.meet(bound)
            return m if not m.bot() else nv
        if isinstance(nv, P) and isinstance(init, P) and init.region == nv.region:
            bound = I(init.off.lo + min(0, c_lo * T), init.off.hi + max(0, c_hi * T))
            if T > 0:
                self._lock.setdefault(b, {})[phi.id] = P(nv.region, I(init.off.lo + min(0, c_lo * (T - 1)), init.off.hi + max(0, c_hi * (T - 1))))
            m = nv.off.meet(bound)
            return P(nv.region, m) if not m.bot() else nv
        return nv

    def rerun(self):
        """second ascending pass: every SSA value now has a (sound) interval, so branch refinements that could
        not be derived during the first pass (operands not yet computed) are established from the start"""
        self.visits = {}
        self._wcount = {}
        self.obligations = {}
        self.run()

    def symbolic_discharge(self):
        """retry interval-unproven obligations with symbolic (linear) bounds"""
        from .sym import Sym
        from .lin import Lin
        pending = [o for o in list(self.obligations.values()) + list(self.inv_obligations.values()) if o.ok is False]
        if not pending:
            return
        sy = Sym(self)
        sy.k2 = dict(self.k2)
        for o in pending:
            inst = o.inst
            if o.kind == "invariant":
                cn = o.desc
                lo = sy.lower(o.val_op, inst)
                hi = sy.upper(o.val_op, inst)
                cand = None
                for k, c in self.unit.candidates.items():
                    if o.desc.startswith("field %s.%s " % k):
                        cand = c
                if cand is not None and lo >= cand.lo and hi <= cand.hi:
                    o.ok = True
                    o.note = "symbolic bounds [%s,%s]" % (lo, hi)
                else:
                    o.note = "symbolic bounds [%s,%s]" % (lo, hi)
                continue
            size = o.size
            sizeL = None
            if isinstance(size, int):
                sizeL = Lin(size)
            if isinstance(size, tuple) and size[0] == "param":
                sizeL = Lin(0, {self.fn.params[size[1]].id: 1})
            if o.region[0] == "heap" and o.region[1] in self.heap_size_op:
                cn, ops = self.heap_size_op[o.region[1]]
                aop = ops[0] if cn == "malloc" else (ops[1] if cn == "realloc" else None)
                if aop is not None:
                    hinst = self.fn.vals[o.region[1]]
                    sizeL = sy.lin(aop, hinst)
            if sizeL is None or o.ptr_op is None:
                continue
            offL = sy.ptr_offset_lin(o.ptr_op, inst)
            if offL is None:
                continue
            if o.len_op is not None:
                lenL = sy.lin(o.len_op, inst)
                if lenL is None:
                    continue
                len_lo = sy.lower_lin(lenL, inst)
            elif isinstance(o.width, int):
                lenL = Lin(o.width)
                len_lo = o.width
            elif isinstance(o.width, I) and o.width.is_const():
                lenL = Lin(o.width.lo)
                len_lo = o.width.lo
            else:
                continue
            endL = offL.add(lenL).add(sizeL, -1)
            hi = sy.upper_lin(endL, inst)
            lo = sy.lower_lin(offL, inst)
            if hi <= 0 and lo >= 0 and len_lo >= 0:
                o.ok = True
                o.note = "symbolic: offset + length - extent <= %s, offset >= %s" % (hi, lo)
            else:
                o.note = "symbolic attempt: offset + length - extent <= %s, offset >= %s, length >= %s" % (hi, lo, len_lo)

    def narrow(self, rounds=3):
        """descending phase: branch refinements are recomputed from scratch with all SSA values known (the
        ascending phase can leave stale 'unrefined' snapshots on back edges); loop-header phis only shrink:
        new = old meet join(incomings), and stay frozen while an incoming edge has not been recomputed yet"""
        self._widening_on = False
        self._narrowing = True
        self.env_out = {}
        self.obligations = {}
        self.inv_obligations = {}
        for _ in range(rounds):
            self.visits = {}
            self.run(max_iter=1)
        self._narrowing = False
        self._widening_on = True

    def _transfer(self, i, env, b):
        op = i.op
        fn = self.fn
        if op == "phi":
            res = None
            old_phi = self.val.get(i.id)
            if self._narrowing and old_phi is not None and any(pb not in self.env_out for v, pb in i.incoming if pb in self.reach):
                return old_phi
            for v, pb in i.incoming:
                if pb not in self.env_out:
                    continue
                e = self.edge_env(pb, b)
                if e is None:
                    continue
                x = self.reeval(v, e)
                if x is None:
                    if v[0] == "undef":
                        continue
                    if v[0] == "v" and v[1] not in self.val and v[1] not in e:
                        continue          # not computed yet: bottom
                    x = top(self.width(i.ty)) if self.width(i.ty) else UNKNOWN_PTR
                res = x if res is None else _join_val(res, x, self)
            if self._narrowing and old_phi is not None and res is not None:
                if isinstance(old_phi, I) and isinstance(res, I):
                    m = old_phi.meet(res)
                    return m if not m.bot() else res
                if isinstance(old_phi, P) and isinstance(res, P) and old_phi.region == res.region:
                    m = old_phi.off.meet(res.off)
                    return P(res.region, m) if not m.bot() else res
            return res
        if op == "alloca":
            return P(("alloca", i.id), I(0, 0))
        if op in ("add", "sub", "mul", "and", "or", "xor", "urem", "udiv", "srem", "sdiv", "shl", "lshr", "ashr"):
            w = self.width(i.ty)
            a, b2 = self.lookup(i.ops[0], env), self.lookup(i.ops[1], env)
            if w is None:
                return None
            return self._binop(op, a, b2, w)
        if op in ("zext", "sext", "trunc"):
            a = self.lookup(i.ops[0], env)
            d = fn.defn(i.ops[0])
            wf = self.width(d.ty) if d is not None else (i.ops[0][2] if i.ops[0][0] == "ci" else None)
            return self._cast(op, a, wf or 64, self.width(i.ty))
        if op == "bitcast":
            return self.lookup(i.ops[0], env)
        if op == "ptrtoint":
            return top(self.width(i.ty))
        if op == "inttoptr":
            return UNKNOWN_PTR
        if op == "getelementptr":
            base = self.lookup(i.ops[0], env)
            if not isinstance(base, P):
                base = UNKNOWN_PTR
            return self._gep(base, i.steps, env, i)
        if op == "icmp":
            a, b2 = self.lookup(i.ops[0], env), self.lookup(i.ops[1], env)
            d = fn.defn(i.ops[0]) or fn.defn(i.ops[1])
            if isinstance(a, I) and isinstance(b2, I):
                w = self.width(d.ty) if d is not None and self.width(d.ty) else 64
                r = self._icmp_eval(i.pred, a, b2, w)
                return I(0, 1) if r is None else (I(1, 1) if r else I(0, 0))
            if isinstance(a, P) and isinstance(b2, P):
                if a.region[0] in ("alloca", "global", "sub", "param") and b2.region[0] == "null":
                    return I(0, 0) if i.pred == "eq" else (I(1, 1) if i.pred == "ne" else I(0, 1))
            return I(0, 1)
        if op == "select":
            c = self.lookup(i.ops[0], env)
            a, b2 = self.lookup(i.ops[1], env), self.lookup(i.ops[2], env)
            if isinstance(c, I) and c.is_const():
                return a if c.lo else b2
            # each arm is evaluated under the condition that selects it
            et = self._refine_cond(i.ops[0], True, env)
            ef = self._refine_cond(i.ops[0], False, env)
            if et is None and ef is not None:
                return self.reeval(i.ops[2], ef)
            if ef is None and et is not None:
                return self.reeval(i.ops[1], et)
            if et is not None and ef is not None:
                a, b2 = self.reeval(i.ops[1], et), self.reeval(i.ops[2], ef)
            if a is None or b2 is None:
                return top(self.width(i.ty)) if self.width(i.ty) else UNKNOWN_PTR
            return _join_val(a, b2, self)
        if op == "load":
            ptr = self.lookup(i.ops[0], env)
            return self._load(i, ptr, env)
        if op == "store":
            ptr = self.lookup(i.ops[1], env)
            v = self.lookup(i.ops[0], env)
            self._store(i, ptr, v, env)
            return None
        if op == "call":
            return self._call(i, env)
        if op == "ret":
            if i.ops:
                v = self.lookup(i.ops[0], env)
                if isinstance(v, I):
                    self.ret = self.ret.join(v)
            return None
        return None

    # ---------------------------------------------------------------- calls
    def _call(self, i, env):
        cn = self.mod.callee_cname(i) or ""
        w = self.width(i.ty)
        args = [self.lookup(a, env) for a in i.ops]
        if cn.startswith("llvm.memset") or cn == "memset":
            if isinstance(args[0], P):
                self._oblige(i, "memset", args[0], None, length=args[2] if isinstance(args[2], I) else None, length_op=i.ops[2])
                # contents become the fill value
                if isinstance(args[1], I) and args[0].region[0] == "sub":
                    sty, fidx = args[0].region[4]
                    fty = self.mod.types[sty]["fields"][fidx]["ty"]
                    if fty.startswith("["):
                        fill = self._cast("trunc", args[1], 32, 8)
                        u = unsigned(fill, 8)
                        ety = fty[fty.index(" x ") + 3:-1]
                        if self.mod.int_bits(ety) == 8:
                            self.unit._upd(self.unit.elem, (sty, fidx), I(u.lo, u.hi), self.thresholds)
                        else:
                            self.unit._upd(self.unit.elem, (sty, fidx), top(self.mod.int_bits(ety) or 32) if not (u.lo == 0 and u.hi == 0) else I(0, 0), self.thresholds)
            return args[0] if self.is_ptr(i.ty) else None
        if cn.startswith("llvm.memcpy") or cn.startswith("llvm.memmove") or cn in ("memcpy", "memmove"):
            ln = args[2] if isinstance(args[2], I) else None
            if isinstance(args[0], P):
                self._oblige(i, "memcpy-dst", args[0], None, length=ln, length_op=i.ops[2])
                # destination contents unknown
                if args[0].region[0] == "sub":
                    sty, fidx = args[0].region[4]
                    fty = self.mod.types[sty]["fields"][fidx]["ty"]
                    if fty.startswith("["):
                        ety = fty[fty.index(" x ") + 3:-1]
                        self.unit._upd(self.unit.elem, (sty, fidx), top(self.mod.int_bits(ety) or 8), self.thresholds)
            if isinstance(args[1], P):
                self._oblige(i, "memcpy-src", args[1], None, length=ln, length_op=i.ops[2])
            return args[0] if self.is_ptr(i.ty) else None
        if cn == "memcmp":
            ln = args[2] if isinstance(args[2], I) else None
            for k in (0, 1):
                if isinstance(args[k], P):
                    self._oblige(i, "memcmp-%d" % k, args[k], None, length=ln)
            return top(w) if w else None
        if i.callee is None:
            return self._indirect(i, args, env)
        # internal (non-inlined) callee: analysed per calling context (argument values), memoised
        cf = self.mod.callee_fn(i)
        if cf is not None and not cf.decl:
            for a in args:
                if isinstance(a, P) and a.region[0] == "alloca":
                    self.unit.escaped_allocas.add((self.fn.name, a.region[1]))
            if self.depth >= 3:
                return top(w) if w else (UNKNOWN_PTR if self.is_ptr(i.ty) else None)
            key = (cf.name, tuple(_akey(a) for a in args), self.unit.round)
            hit = self.unit.ctx_cache.get(key)
            if hit is None:
                # pointers into the caller's locals cannot be named in the callee: pass them as opaque
                pvals = {}
                contracts = dict(self.unit.default_contracts.get(cf.name, {}))
                for k, a in enumerate(args):
                    if isinstance(a, I):
                        pvals[k] = a
                    elif isinstance(a, P) and a.region[0] in ("global", "sub", "heap", "outer") and _region_portable(a.region):
                        pvals[k] = a
                    elif isinstance(a, P):
                        pr = self._export_region(a.region)
                        if pr is not None:
                            pvals[k] = P(pr, a.off)
                    elif isinstance(a, P) and a.region[0] == "param" and a.off.lo == 0 and a.off.hi == 0 and a.region[1] in self.contracts:
                        contracts[k] = self.contracts[a.region[1]]
                sub = Analysis(cf, self.unit, contracts, depth=self.depth + 1, pvals=pvals)
                self.unit.ctx_cache[key] = (BOT, {})      # recursion guard
                sub.run()
                sub.narrow(3)
                if self.unit.use_sym:
                    sub.symbolic_discharge()
                hit = (sub.ret, sub.obligations)
                self.unit.ctx_cache[key] = hit
                self.unit.ctx_analyses.setdefault(cf.name, []).append(sub)
            ret, obs = hit
            if w:
                return ret.meet(top(w)) if not ret.bot() else top(w)
            return UNKNOWN_PTR if self.is_ptr(i.ty) else None
        # external
        model = EXTERNAL_MODELS.get(cn)
        for a in args:
            if isinstance(a, P) and a.region[0] == "alloca":
                self.unit.escaped_allocas.add((self.fn.name, a.region[1]))
        if model:
            return model(self, i, args, w)
        if w:
            return top(w)
        if self.is_ptr(i.ty):
            return UNKNOWN_PTR
        return None

    def _indirect(self, i, args, env):
        """indirect calls: decoder input callbacks (K2) and stream reads"""
        w = self.width(i.ty)
        fn = self.fn
        d = fn.defn(i.calleev) if i.calleev else None
        fname = None
        if d is not None and not d.is_param and d.op == "load":
            a = fn.defn(d.ops[0])
            if a is not None and not a.is_param and a.op == "getelementptr":
                fo = field_of_gep(self.mod, a)
                fname = fo[1] if fo else None
        for a in args:
            if isinstance(a, P) and a.region[0] == "alloca":
                self.unit.escaped_allocas.add((self.fn.name, a.region[1]))
        if fname == "callback" and len(args) == 3 and isinstance(args[0], P):
            # K2: LHADecoderCallback(buf, buf_len, user_data) writes at most buf_len bytes, returns at most buf_len
            ln = args[1] if isinstance(args[1], I) else None
            self._oblige(i, "callback-write", args[0], None, length=ln, length_op=i.ops[1])
            self.k2[i.id] = i.ops[1]
            if ln is not None and not ln.bot():
                u = unsigned(ln, 64)
                return I(0, u.hi)
            return top(w) if w else None
        if fname == "read" and len(args) >= 2:
            if len(args) == 3 and isinstance(args[1], P):
                ln = args[2] if isinstance(args[2], I) else None
                self._oblige(i, "stream-read", args[1], None, length=ln, length_op=i.ops[2])
                self.k2[i.id] = i.ops[2]
                if ln is not None and not ln.bot() and w:
                    return I(-1, unsigned(ln, 64).hi).meet(top(w))
            if len(args) == 2 and isinstance(args[1], P):
                # LHADecoderType.read(extra, outbuf): writes at most max_read (the callee's own obligation)
                mr = self.unit.max_read_all
                if mr is not None:
                    self._oblige(i, "decoder-read", args[1], None, length=I(mr, mr))
                    return I(0, mr)
        return top(w) if w else (UNKNOWN_PTR if self.is_ptr(i.ty) else None)


def _akey(a):
    if isinstance(a, I):
        return ("i", a.lo, a.hi)
    if isinstance(a, P):
        return ("p", str(a.region), a.off.lo, a.off.hi)
    return ("n",)


def _region_portable(r):
    """region does not mention the caller's locals / parameters"""
    for _ in range(10):
        if r[0] in ("global", "heap", "outer"):
            return True
        if r[0] != "sub":
            return False
        r = r[1][0]
    return False


def _meet_wrapped(new, old):
    m = new.meet(old)
    return new if m.bot() else m


def _key(off):
    return (off.lo, off.hi)


def _join_val(a, b, an):
    if isinstance(a, I) and isinstance(b, I):
        return a.join(b)
    if isinstance(a, P) and isinstance(b, P):
        if a.region == b.region:
            return P(a.region, a.off.join(b.off))
        if a.region[0] == "null":
            return b
        if b.region[0] == "null":
            return a
        return UNKNOWN_PTR
    if a is None:
        return b
    if b is None:
        return a
    return a if isinstance(a, I) else UNKNOWN_PTR


def _join_envs(envs, an):
    if len(envs) == 1:
        return dict(envs[0])
    keys = set()
    for e in envs:
        keys |= set(e)
    out = {}
    for k in keys:
        base = an.val.get(k)
        v = None
        drop = False
        for e in envs:
            x = e.get(k, base)
            if x is None:
                drop = True
                break
            v = x if v is None else _join_val(v, x, an)
        if not drop and v is not None:
            out[k] = v
    return out


# ---- models of external functions ------------------------------------------------------------------------
def _m_strlen(an, i, args, w):
    return I(0, srange(w)[1])


def _m_top(an, i, args, w):
    return top(w) if w else (UNKNOWN_PTR if an.is_ptr(i.ty) else None)


def _m_alloc(an, i, args, w):
    size = None
    cn = an.mod.callee_cname(i)
    a = args[0] if cn == "malloc" else (args[1] if cn == "realloc" else None)
    if isinstance(a, I) and not a.bot() and a.lo >= 0:
        size = a.lo            # at least this many bytes
    if cn == "calloc" and isinstance(args[0], I) and isinstance(args[1], I) and args[0].lo >= 0 and args[1].lo >= 0:
        size = args[0].lo * args[1].lo
    an.heap_size_op[i.id] = (cn, [i.ops[k] for k in range(len(i.ops))])
    return P(("heap", i.id, size), I(0, 0))


def _m_fread(an, i, args, w):
    if isinstance(args[0], P) and isinstance(args[1], I) and isinstance(args[2], I):
        n = args[1].hi * args[2].hi if args[1].hi != INF and args[2].hi != INF else INF
        an._oblige(i, "fread", args[0], None, length=I(0, n), length_op=i.ops[2] if (isinstance(args[1], I) and args[1].is_const() and args[1].lo == 1) else None)
        an.k2[i.id] = i.ops[2]
        return I(0, unsigned(args[2], 64).hi)
    return top(w)


def _m_strcmp(an, i, args, w):
    return top(w)


def _m_decoder_read(an, i, args, w):
    """lha_decoder_read / lha_reader_read (obj, buf, buf_len): writes and returns at most buf_len (C14.R2 / C09)"""
    if isinstance(args[1], P):
        ln = args[2] if isinstance(args[2], I) else None
        an._oblige(i, "read-into", args[1], None, length=ln, length_op=i.ops[2], ptr_op=i.ops[1])
        an.k2[i.id] = i.ops[2]
        if ln is not None and not ln.bot():
            return I(0, unsigned(ln, 64).hi)
    return I(0, srange(64)[1])


def _m_stream_read(an, i, args, w):
    """lha_input_stream_read(stream, buf, buf_len): fills exactly buf_len bytes on success; returns 0/1"""
    if isinstance(args[1], P):
        ln = args[2] if isinstance(args[2], I) else None
        an._oblige(i, "read-into", args[1], None, length=ln, length_op=i.ops[2], ptr_op=i.ops[1])
    return I(0, 1)


EXTERNAL_MODELS = {"lha_decoder_read": _m_decoder_read, "lha_reader_read": _m_decoder_read, "lha_input_stream_read": _m_stream_read,
                   "lha_basic_reader_read_compressed": _m_decoder_read,"strlen": _m_strlen, "malloc": _m_alloc, "calloc": _m_alloc, "realloc": _m_alloc, "fread": _m_fread,
                   "strcmp": _m_strcmp, "strncmp": _m_strcmp}


# ---- unit driver --------------------------------------------------------------------------------------------
class Unit(UnitState):
    def __init__(self, mod):
        UnitState.__init__(self, mod)
        self.summaries = {}
        self.call_args = {}
        self.param_values = {}
        self.escaped_allocas = set()
        self.ptr_contracts = {}
        self.max_read_all = None
        self.analyses = {}

    def analyse(self, entries, contracts, max_rounds=12):
        """entries: list of Function; contracts: fn name -> {param index: size}"""
        # non-entry defined functions (not inlined) are analysed with unconstrained parameters
        others = []
        for rnd in range(max_rounds):
            self.round = rnd
            self.changed = False
            self.call_args = {}
            self.ctx_cache = {}
            self.ctx_analyses = {}
            for f in others + entries:
                a = Analysis(f, self, contracts.get(f.name, {}))
                a.run()
                a.narrow(3)
                if self.use_sym:
                    a.symbolic_discharge()
                self.analyses[f.name] = a
                if f in others:
                    old = self.summaries.get(f.name)
                    if a.ret != old and not a.ret.bot():
                        self.summaries[f.name] = a.ret if old is None else old.join(a.ret)
                        self.changed = True
            self.commit()
            if not self.changed:
                break
        return self.analyses
