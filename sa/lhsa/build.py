"""Build the analysable program views from /repo's current working tree.

Nothing here is cached between runs: every check invocation recompiles the
units that the repository's own Makefile.am files list, with the flags those
files imply, into LLVM IR in a fresh temporary directory.
"""
import json, os, re, shutil, subprocess, sys, tempfile
from concurrent.futures import ThreadPoolExecutor

REPO = os.environ.get("LHSA_REPO", "/repo")
VERIF = os.path.dirname(os.path.dirname(os.path.dirname(os.path.abspath(__file__))))
IRX = os.path.join(VERIF, "build", "irx")

CLANG = "clang-14" if shutil.which("clang-14") else "clang"
LLVM_LINK = "llvm-link-14"
OPT = "opt-14"

TEMPLATE_FILES = {"bit_stream_reader.c", "tree_decode.c", "lh_new_decoder.c", "pma_common.c"}


class AnalysisBroken(Exception):
    """The analysis could not be carried out (exit 2) - never a verdict."""


def _am_var(path, var):
    txt = open(path).read().replace("\\\n", " ")
    m = re.search(r"^%s\s*=(.*)$" % re.escape(var), txt, re.M)
    if not m:
        raise AnalysisBroken("variable %s not found in %s" % (var, path))
    return m.group(1).split()


def unit_lists(repo=REPO):
    lib = [f for f in _am_var(os.path.join(repo, "lib/Makefile.am"), "SRC") if f.endswith(".c")]
    src = [f for f in _am_var(os.path.join(repo, "src/Makefile.am"), "SOURCE_FILES") if f.endswith(".c")]
    # coverage: every .c in lib/ and src/ is a unit or is #included by one
    for d, units in (("lib", lib), ("src", src)):
        present = {f for f in os.listdir(os.path.join(repo, d)) if f.endswith(".c")}
        included = set()
        for u in units:
            p = os.path.join(repo, d, u)
            if not os.path.exists(p):
                raise AnalysisBroken("listed unit %s/%s missing" % (d, u))
            for m in re.finditer(r'^\s*#\s*include\s+"([^"]+\.c)"', open(p, errors="replace").read(), re.M):
                included.add(m.group(1))
        # templates may include templates
        for t in list(included):
            p = os.path.join(repo, d, t)
            if os.path.exists(p):
                for m in re.finditer(r'^\s*#\s*include\s+"([^"]+\.c)"', open(p, errors="replace").read(), re.M):
                    included.add(m.group(1))
        uncovered = present - set(units) - included
        if uncovered:
            raise AnalysisBroken("uncovered source files in %s/: %s" % (d, sorted(uncovered)))
    return lib, src


def _run(cmd, cwd=None):
    p = subprocess.run(cmd, cwd=cwd, stdout=subprocess.PIPE, stderr=subprocess.STDOUT, text=True)
    if p.returncode != 0:
        raise AnalysisBroken("command failed: %s\n%s" % (" ".join(cmd), p.stdout[-4000:]))
    return p.stdout


def flags_for(d, config):
    fl = ["-std=gnu11", "-DHAVE_CONFIG_H", "-I.", "-I.."]
    if d == "src":
        fl += ["-I../lib/public"]
    if config == "test":
        fl += ["-DTEST_BUILD"]
        if d == "lib":
            fl += ["-DALLOC_TESTING", "-I../test"]
    return fl


def compile_unit(repo, d, unit, out, config="main", extra=()):
    cmd = [CLANG, "-O1", "-Xclang", "-disable-llvm-passes", "-g", "-emit-llvm", "-c",
           "-fno-discard-value-names", "-Wno-everything"] + flags_for(d, config) + list(extra) + [unit, "-o", out]
    _run(cmd, cwd=os.path.join(repo, d))


# range units: which compiled units are linked together for the inlined view
RANGE_UNITS = {
    "lh1": ["lib/lh1_decoder.c"], "lh5": ["lib/lh5_decoder.c"], "lh6": ["lib/lh6_decoder.c"],
    "lh7": ["lib/lh7_decoder.c"], "lhx": ["lib/lhx_decoder.c"], "lk7": ["lib/lk7_decoder.c"],
    "lz5": ["lib/lz5_decoder.c"], "lzs": ["lib/lzs_decoder.c"], "pm1": ["lib/pm1_decoder.c"],
    "pm2": ["lib/pm2_decoder.c"], "null": ["lib/null_decoder.c"],
    "decoder": ["lib/lha_decoder.c", "lib/crc16.c"],
    "stream": ["lib/lha_input_stream.c"],
    "header": ["lib/lha_file_header.c", "lib/ext_header.c", "lib/lha_endian.c", "lib/crc16.c"],
    "basic_reader": ["lib/lha_basic_reader.c"],
    "reader": ["lib/lha_reader.c"],
    "macbinary": ["lib/macbinary.c"],
    "arch": ["lib/lha_arch_unix.c"],
    "crc16": ["lib/crc16.c"],
    "endian": ["lib/lha_endian.c"],
    "src_main": ["src/main.c"], "src_list": ["src/list.c"], "src_extract": ["src/extract.c"],
    "src_filter": ["src/filter.c"], "src_safe": ["src/safe.c"],
}


_ANCHORS = None


def rule_anchors():
    """every identifier that appears as a string literal in the rule sources (sa/lhsa/**/*.py): the functions the rules name are among
    them; names that are not functions are ignored by the marker"""
    global _ANCHORS
    if _ANCHORS is None:
        import glob, re
        names = set()
        here = os.path.dirname(os.path.abspath(__file__))
        for p in glob.glob(os.path.join(here, "*.py")) + glob.glob(os.path.join(here, "props", "*.py")):
            names |= set(re.findall(r"""["']([A-Za-z_][A-Za-z0-9_]*)["']""", open(p).read()))
        _ANCHORS = names
    return _ANCHORS


ENGINE_TABLES = {"loops.py": {"C13"}, "assumptions.py": {"C08", "C09"}, "rangedrv.py": {"C08", "C09"}, "exthdr.py": {"C05", "C08"}}
ALIASES = {}                # new C name -> reference name, for functions recognised as pure renames in this run
FUZZY = {}                  # the subset of ALIASES found by resemblance (renamed and reworked): new name -> (reference name, similarity)
CURRENT_DEFINED = None      # C names of the functions defined in the normalised plain view of this run (set by Context.plain)


def property_anchors(prop):
    """functions of the reference tree (known_functions.txt) that the rules of one property name: its own module, the property modules it
    borrows rules from, and the engine tables it uses"""
    import re
    here = os.path.dirname(os.path.abspath(__file__))
    known = set(open(os.path.join(here, "known_functions.txt")).read().split())
    files, seen, todo = [], set(), [prop.lower()]
    while todo:
        m = todo.pop()
        if m in seen:
            continue
        seen.add(m)
        pth = os.path.join(here, "props", m + ".py")
        if os.path.exists(pth):
            files.append(pth)
            todo += re.findall(r"from \.(c\d\d) import", open(pth).read())
    for f, props in ENGINE_TABLES.items():
        if any(("C" + x[1:].upper() if x.startswith("c") else x) in props for x in seen):
            files.append(os.path.join(here, f))
    names = set()
    for pth in files:
        names |= set(re.findall(r"""["']([A-Za-z_][A-Za-z0-9_]*)["']""", open(pth).read()))
    return names & known


RENAMED_FIELDS = {}
REQUESTED_MISSING = set()   # functions of the reference tree that a rule asked for during this run and that are not defined now
_KNOWN = None


def note_requested(cname, found):
    """called by Module.fn / Module.fns / Matcher call patterns: a rule needs function cname"""
    global _KNOWN
    if found:
        return
    if _KNOWN is None:
        here = os.path.dirname(os.path.abspath(__file__))
        _KNOWN = set(open(os.path.join(here, "known_functions.txt")).read().split())
    if cname in _KNOWN and CURRENT_DEFINED is not None and cname not in CURRENT_DEFINED:
        REQUESTED_MISSING.add(cname)


def vanished_anchors(prop):
    """functions of the reference tree that the rules evaluated in this run asked for by name and that no longer exist (a name that only
    sits in an optional table - read-like callees, listed exceptions - and was never needed does not count)"""
    return sorted(REQUESTED_MISSING)


class Views:
    """Holds a temp dir with the compiled views; use as a context manager."""

    def __init__(self, repo=REPO, config="main", keep=False):
        self.repo = repo
        self.config = config
        self.keep = keep
        self.dir = None
        self.units = {}
        self._plain = None
        self._inl = {}

    def __enter__(self):
        self.dir = tempfile.mkdtemp(prefix="lhsa-")
        if not os.path.exists(IRX):
            raise AnalysisBroken("exporter %s not built (run MANIFEST.setup_cmd)" % IRX)
        lib, src = unit_lists(self.repo)
        self.lib_units, self.src_units = lib, src
        jobs = [("lib", u) for u in lib] + [("src", u) for u in src]

        def comp(j):
            d, u = j
            out = os.path.join(self.dir, "%s_%s.bc" % (d, u[:-2]))
            compile_unit(self.repo, d, u, out, self.config)
            return ("%s/%s" % (d, u), out)

        with ThreadPoolExecutor(max_workers=16) as ex:
            for k, v in ex.map(comp, jobs):
                self.units[k] = v
        self._find_renames()
        return self

    def _find_renames(self):
        """A function of the reference tree that the rules name and that is no longer defined, while exactly one new function has the body
        it had (fingerprint.py): a pure rename.  The new name is then treated as the old one throughout (ALIASES), and says so in the
        evidence.  Anything else (changed body, merged, removed) stays 'vanished'."""
        global ALIASES, FUZZY
        ALIASES = {}
        FUZZY = {}
        here = os.path.dirname(os.path.abspath(__file__))
        known = set(open(os.path.join(here, "known_functions.txt")).read().split())
        linked = os.path.join(self.dir, "all.link.bc")
        _run([LLVM_LINK] + [self.units[k] for k in sorted(self.units)] + ["-o", linked])
        self._linked = linked
        import re
        out = _run(["llvm-nm-14", "--defined-only", linked])
        now = {re.sub(r"\.\d+$", "", l.split()[-1]) for l in out.splitlines() if len(l.split()) >= 2 and l.split()[-2] in ("T", "t")}
        missing = (rule_anchors() & known) - now
        if not missing:
            return
        import json as _json
        from .ir import Module
        from .fingerprint import fingerprint
        ref = _json.load(open(os.path.join(here, "known_fingerprints.json")))
        js = os.path.join(self.dir, "all.raw.json")
        _run([IRX, linked, js])
        m = Module(js)
        new = {}
        for f in m.defined():
            if f.cname not in known:
                new.setdefault(fingerprint(f), set()).add(f.cname)
        for a in sorted(missing):
            cands = set()
            for fp in ref.get(a, []):
                cands |= new.get(fp, set())
            if len(cands) == 1:
                ALIASES[cands.pop()] = a
        # renamed AND reworked (split, if-chain for switch, parameters reordered): the exact body is gone, but what the function is about
        # is not.  A vanished anchor is identified with the one new function that resembles it clearly more than any other new function
        # does - only to decide WHERE the rules look; what they find there is judged as strictly as before.
        still = sorted(missing - set(ALIASES.values()))
        fpath = os.path.join(here, "known_features.json")
        if still and os.path.exists(fpath):
            from .fingerprint import features
            reff = _json.load(open(fpath))
            newf = {}
            for f in m.defined():
                if f.cname not in known and f.cname not in ALIASES:
                    newf.setdefault(f.cname, set()).update(repr(x) for x in features(f))
            pairs = []
            for a in still:
                ra = set(reff.get(a, []))
                if len(ra) < 4:
                    continue
                for n, fs_ in newf.items():
                    j = len(ra & fs_) / float(len(ra | fs_) or 1)
                    pairs.append((j, a, n))
            pairs.sort(reverse=True)
            used_a, used_n = set(), set()
            for j, a, n in pairs:
                if a in used_a or n in used_n or j < 0.5:
                    continue
                rivals = [j2 for j2, a2, n2 in pairs if (a2 == a and n2 != n and n2 not in used_n) or (n2 == n and a2 != a and a2 not in used_a)]
                if rivals and max(rivals) > j - 0.12:
                    continue
                ALIASES[n] = a
                FUZZY[n] = (a, round(j, 2))
                used_a.add(a)
                used_n.add(n)

    def __exit__(self, *a):
        if self.dir and not self.keep:
            shutil.rmtree(self.dir, ignore_errors=True)

    # ---- plain view ----------------------------------------------------
    def plain_json(self):
        if self._plain:
            return self._plain
        linked = os.path.join(self.dir, "plain.link.bc")
        outbc = os.path.join(self.dir, "plain.bc")
        _run([LLVM_LINK] + [self.units[k] for k in sorted(self.units)] + ["-o", linked])
        # Normalisation: private helper functions that no rule names are folded into their callers, so that extracting a helper from
        # (or splitting) a function the rules do name leaves the analysed program unchanged.  Functions named by a rule, external,
        # address-taken and recursive functions keep their identity.
        anchors = os.path.join(self.dir, "anchors.txt")
        with open(anchors, "w") as f:
            # only names that were functions of the reference tree count (a field or variable name in a rule must not pin an unrelated
            # new helper that happens to carry it)
            known = set(open(os.path.join(os.path.dirname(os.path.abspath(__file__)), "known_functions.txt")).read().split())
            f.write("\n".join(sorted((rule_anchors() & known) | set(ALIASES))) + "\n")
        marked = os.path.join(self.dir, "plain.marked.bc")
        self.mark_stats = _run([IRX, "--mark", anchors, linked, marked]).strip()
        _run([OPT, "-passes=always-inline,globaldce,function(sroa,early-cse)", marked, "-o", outbc])
        js = os.path.join(self.dir, "plain.json")
        _run([IRX, outbc, js])
        self._plain = js
        return js

    # ---- inlined view --------------------------------------------------
    def inlined_json(self, name):
        if name in self._inl:
            return self._inl[name]
        parts = RANGE_UNITS[name]
        for p in parts:
            if p not in self.units:
                raise AnalysisBroken("range unit %s needs %s which is not a listed unit" % (name, p))
        linked = os.path.join(self.dir, "inl_%s.link.bc" % name)
        outbc = os.path.join(self.dir, "inl_%s.bc" % name)
        _run([LLVM_LINK] + [self.units[p] for p in parts] + ["-o", linked])
        _run([OPT, "-passes=function(sroa),cgscc(inline),function(sroa,simplifycfg,early-cse)",
              "-inline-threshold=1000000", linked, "-o", outbc])
        js = os.path.join(self.dir, "inl_%s.json" % name)
        _run([IRX, outbc, js])
        self._inl[name] = js
        return js

    def inlined_many(self, names):
        with ThreadPoolExecutor(max_workers=16) as ex:
            return dict(zip(names, ex.map(self.inlined_json, names)))


def compile_fixture(path, outdir, inline=False):
    """Compile a positive-control fixture through the same pipeline."""
    base = os.path.splitext(os.path.basename(path))[0]
    bc = os.path.join(outdir, "fx_%s.bc" % base)
    cmd = [CLANG, "-O1", "-Xclang", "-disable-llvm-passes", "-g", "-emit-llvm", "-c",
           "-fno-discard-value-names", "-Wno-everything", "-std=gnu11", path, "-o", bc]
    _run(cmd)
    out = os.path.join(outdir, "fx_%s.opt.bc" % base)
    if inline:
        _run([OPT, "-passes=function(sroa),cgscc(inline),function(sroa,simplifycfg,early-cse)",
              "-inline-threshold=1000000", bc, "-o", out])
    else:
        _run([OPT, "-passes=function(sroa,early-cse)", bc, "-o", out])
    js = os.path.join(outdir, "fx_%s%s.json" % (base, ".inl" if inline else ""))
    _run([IRX, out, js])
    return js
