"""Linear forms over SSA values: c0 + sum(ci * symbol).  Wrap-around is ignored
(callers use this for provenance/shape comparison and for range reasoning
where the no-wrap side conditions are established separately)."""
from .facts import is_const, const_val


class Lin:
    __slots__ = ("c", "t")

    def __init__(self, c=0, t=None):
        self.c = c
        self.t = dict(t or {})

    def add(self, o, k=1):
        r = Lin(self.c + k * o.c, self.t)
        for s, v in o.t.items():
            r.t[s] = r.t.get(s, 0) + k * v
            if r.t[s] == 0:
                del r.t[s]
        return r

    def scale(self, k):
        return Lin(self.c * k, {s: v * k for s, v in self.t.items() if v * k != 0})

    def is_const(self):
        return not self.t

    def key(self):
        return (self.c, tuple(sorted(self.t.items())))

    def __eq__(self, o):
        return isinstance(o, Lin) and self.key() == o.key()

    def __hash__(self):
        return hash(self.key())

    def __repr__(self):
        parts = []
        for s, v in sorted(self.t.items()):
            parts.append(("%s" % s) if v == 1 else ("-%s" % s if v == -1 else "%d*%s" % (v, s)))
        if self.c or not parts:
            parts.append(str(self.c))
        return " + ".join(parts).replace("+ -", "- ")


def maxbits(fn, o, depth=0):
    """least k such that o is known to lie in [0, 2^k), or None (constants, zero-extensions, masks, shifts, sums and products with room)"""
    if is_const(o):
        c = const_val(o)
        return c.bit_length() if c is not None and c >= 0 else None
    d = fn.defn(o)
    if d is None or d.is_param or depth > 8:
        return None
    w = fn.mod.int_bits(d.ty) or 64
    if d.op == "zext":
        src = fn.defn(d.ops[0])
        sw = (fn.mod.int_bits(src.ty) if src is not None else None) or w
        inner = maxbits(fn, d.ops[0], depth + 1)
        return min(sw, inner) if inner is not None else sw
    if d.op == "trunc":
        inner = maxbits(fn, d.ops[0], depth + 1)
        return min(w, inner) if inner is not None else w
    if d.op == "and":
        ks = [k for k in (maxbits(fn, x, depth + 1) for x in d.ops) if k is not None]
        return min(ks) if ks else None
    if d.op in ("lshr", "udiv"):
        return maxbits(fn, d.ops[0], depth + 1)
    if d.op == "urem":
        return maxbits(fn, d.ops[1], depth + 1) or maxbits(fn, d.ops[0], depth + 1)
    if d.op in ("add", "or", "xor"):
        ka, kb = maxbits(fn, d.ops[0], depth + 1), maxbits(fn, d.ops[1], depth + 1)
        if ka is None or kb is None:
            return None
        k = max(ka, kb) + (1 if d.op == "add" else 0)
        return k if k < w else None
    if d.op == "mul":
        ka, kb = maxbits(fn, d.ops[0], depth + 1), maxbits(fn, d.ops[1], depth + 1)
        if ka is None or kb is None or ka + kb >= w:
            return None
        return ka + kb
    if d.op in ("phi", "select"):
        vals = [v for v, _ in d.incoming] if d.op == "phi" else d.ops[1:]
        ks = [maxbits(fn, v, depth + 1) if v != ("v", d.id) else 0 for v in vals]
        return max(ks) if ks and all(k is not None for k in ks) else None
    if d.op == "load" and w <= 16:
        return w
    return None


def narrowed_difference(fn, o):
    """o is `(narrow type) (a - b - c ...)` with a known to fit the narrow type and b, c, ... known non-negative: the operand of the narrowing,
    else None.  Wherever the difference is shown not to be negative (a guard `a > b + c` at the site) it lies in [0, a] and the narrowing
    changes nothing - the caller is responsible for that guard."""
    d = fn.defn(o)
    if d is None or d.is_param or d.op != "trunc":
        return None
    tw = fn.mod.int_bits(d.ty) or 64
    x = d.ops[0]
    for _ in range(8):
        dx = fn.defn(x)
        if dx is not None and not dx.is_param and dx.op == "sub" and maxbits(fn, dx.ops[1]) is not None:
            x = dx.ops[0]
            continue
        break
    k = maxbits(fn, x)
    return d.ops[0] if (k is not None and k <= tw and x != d.ops[0]) else None


def linform(fn, o, symf, depth=0):
    """symf(operand) -> symbol name or None.  Returns Lin or None."""
    if is_const(o):
        return Lin(const_val(o))
    s = symf(o)
    if s is not None:
        return Lin(0, {s: 1})
    d = fn.defn(o)
    if d is None or d.is_param or depth > 24:
        return None
    if d.op in ("zext", "sext", "bitcast"):
        return linform(fn, d.ops[0], symf, depth + 1)
    if d.op == "trunc":
        # (uint8_t) (a + b) is a + b only while the sum fits eight bits: a narrowing is looked through only where the operand is known to fit
        tw = fn.mod.int_bits(d.ty) or 64
        k = maxbits(fn, d.ops[0])
        if k is not None and k <= tw:
            return linform(fn, d.ops[0], symf, depth + 1)
        inner = fn.defn(d.ops[0])
        if inner is not None and not inner.is_param and inner.op in ("add", "sub", "mul", "shl"):
            return None                 # arithmetic that may not fit: the truncated value is not a linear form of its operands
        return None
    if d.op in ("add", "sub"):
        a = linform(fn, d.ops[0], symf, depth + 1)
        b = linform(fn, d.ops[1], symf, depth + 1)
        if a is None or b is None:
            return None
        return a.add(b, 1 if d.op == "add" else -1)
    if d.op == "mul":
        a = linform(fn, d.ops[0], symf, depth + 1)
        b = linform(fn, d.ops[1], symf, depth + 1)
        if a is None or b is None:
            return None
        if a.is_const():
            return b.scale(a.c)
        if b.is_const():
            return a.scale(b.c)
        return None
    if d.op == "shl" and is_const(d.ops[1]):
        a = linform(fn, d.ops[0], symf, depth + 1)
        return None if a is None else a.scale(1 << const_val(d.ops[1]))
    return None


def ptr_form(fn, o, basef, symf, depth=0):
    """pointer operand -> (base name, Lin byte offset) following GEPs/bitcasts; basef(operand) names a base"""
    off = Lin(0)
    while True:
        b = basef(o)
        if b is not None:
            return b, off
        d = fn.defn(o)
        if d is None or d.is_param or depth > 24:
            return None
        depth += 1
        if d.op == "bitcast":
            o = d.ops[0]
            continue
        if d.op == "getelementptr":
            for st in d.steps:
                if st["k"] == "field":
                    off = off.add(Lin(st["off"]))
                elif st["k"] in ("ptr", "arr"):
                    l = linform(fn, st["idx"], symf)
                    if l is None:
                        return None
                    off = off.add(l.scale(st["el_size"]))
                else:
                    return None
            o = d.ops[0]
            continue
        return None
