"""Linear forms over SSA values: c0 + sum(ci * symbol).  Wrap-around is ignored
(callers use this for provenance/shape comparison and for range reasoning
where the no-wrap side conditions are established separately)."""
from .facts import is_const, const_val


class Lin:
    __slots__ = ("c", "t")

    def __init__(self, c=0, t=None):
        self.c = c
        self.t = dict(t or {})

    def add(self, o, k=1):
        r = Lin(self.c + k * o.c, self.t)
        for s, v in o.t.items():
            r.t[s] = r.t.get(s, 0) + k * v
            if r.t[s] == 0:
                del r.t[s]
        return r

    def scale(self, k):
        return Lin(self.c * k, {s: v * k for s, v in self.t.items() if v * k != 0})

    def is_const(self):
        return not self.t

    def key(self):
        return (self.c, tuple(sorted(self.t.items())))

    def __eq__(self, o):
        return isinstance(o, Lin) and self.key() == o.key()

    def __hash__(self):
        return hash(self.key())

    def __repr__(self):
        parts = []
        for s, v in sorted(self.t.items()):
            parts.append(("%s" % s) if v == 1 else ("-%s" % s if v == -1 else "%d*%s" % (v, s)))
        if self.c or not parts:
            parts.append(str(self.c))
        return " + ".join(parts).replace("+ -", "- ")


def linform(fn, o, symf, depth=0):
    """symf(operand) -> symbol name or None.  Returns Lin or None."""
    if is_const(o):
        return Lin(const_val(o))
    s = symf(o)
    if s is not None:
        return Lin(0, {s: 1})
    d = fn.defn(o)
    if d is None or d.is_param or depth > 24:
        return None
    if d.op in ("zext", "sext", "trunc", "bitcast"):
        return linform(fn, d.ops[0], symf, depth + 1)
    if d.op in ("add", "sub"):
        a = linform(fn, d.ops[0], symf, depth + 1)
        b = linform(fn, d.ops[1], symf, depth + 1)
        if a is None or b is None:
            return None
        return a.add(b, 1 if d.op == "add" else -1)
    if d.op == "mul":
        a = linform(fn, d.ops[0], symf, depth + 1)
        b = linform(fn, d.ops[1], symf, depth + 1)
        if a is None or b is None:
            return None
        if a.is_const():
            return b.scale(a.c)
        if b.is_const():
            return a.scale(b.c)
        return None
    if d.op == "shl" and is_const(d.ops[1]):
        a = linform(fn, d.ops[0], symf, depth + 1)
        return None if a is None else a.scale(1 << const_val(d.ops[1]))
    return None


def ptr_form(fn, o, basef, symf, depth=0):
    """pointer operand -> (base name, Lin byte offset) following GEPs/bitcasts; basef(operand) names a base"""
    off = Lin(0)
    while True:
        b = basef(o)
        if b is not None:
            return b, off
        d = fn.defn(o)
        if d is None or d.is_param or depth > 24:
            return None
        depth += 1
        if d.op == "bitcast":
            o = d.ops[0]
            continue
        if d.op == "getelementptr":
            for st in d.steps:
                if st["k"] == "field":
                    off = off.add(Lin(st["off"]))
                elif st["k"] in ("ptr", "arr"):
                    l = linform(fn, st["idx"], symf)
                    if l is None:
                        return None
                    off = off.add(l.scale(st["el_size"]))
                else:
                    return None
            o = d.ops[0]
            continue
        return None
