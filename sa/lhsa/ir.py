"""Loader for the JSON produced by irx, plus CFG utilities (preds, dominators,
natural loops).  All engines work on these objects."""
import json, os, re
from functools import lru_cache

CAST_OPS = {"zext", "sext", "trunc", "bitcast", "ptrtoint", "inttoptr", "addrspacecast"}


def _op(o):
    """operand dict -> hashable tuple"""
    k = o["k"]
    if k == "v":
        return ("v", o["id"])
    if k == "ci":
        if "v" in o:
            return ("ci", o["v"], o["bits"])
        return ("ci", int(o["vs"]), o["bits"])
    if k == "null":
        return ("null",)
    if k == "undef":
        return ("undef",)
    if k == "fn":
        return ("fn", o["name"])
    if k == "gv":
        return ("gv", o["name"])
    if k == "bb":
        return ("bb", o["id"])
    if k == "ce":
        return ("ce", ConstExpr(o))
    if k == "cf":
        return ("cf", o.get("v"))
    return ("x", k)


class ConstExpr:
    def __init__(self, o):
        self.op = o["op"]
        self.ty = o["ty"]
        self.ops = [_op(x) for x in o["ops"]]
        self.steps = o.get("steps")
        if self.steps:
            for s in self.steps:
                if "idx" in s:
                    s["idx"] = _op(s["idx"])
        self.src_ty = o.get("src_ty")
        self.pred = o.get("pred")

    def __repr__(self):
        return "ce:%s(%s)" % (self.op, ",".join(map(str, self.ops)))

    def __hash__(self):
        return hash((self.op, tuple(self.ops), self.ty))

    def __eq__(self, other):
        return isinstance(other, ConstExpr) and (self.op, self.ops, self.ty) == (other.op, other.ops, other.ty)


class Param:
    is_param = True
    op = "param"

    def __init__(self, fn, d, index):
        self.fn = fn
        self.id = d["id"]
        self.ty = d["ty"]
        self.name = d["name"]
        self.index = index
        self.block = None
        self.ops = []
        self.loc = []

    def __repr__(self):
        return "<param %d %s>" % (self.index, self.name)


class Inst:
    is_param = False
    __slots__ = ("fn", "block", "id", "op", "ty", "ops", "loc", "d", "idx")

    def __init__(self, fn, block, d, idx):
        self.fn = fn
        self.block = block
        self.d = d
        self.id = d["id"]
        self.op = d["op"]
        self.ty = d["ty"]
        self.ops = [_op(x) for x in d.get("ops", [])]
        self.loc = d.get("loc", [])
        self.idx = idx  # position inside block
        if "steps" in d:
            for s in d["steps"]:
                if "idx" in s and isinstance(s["idx"], dict):
                    s["idx"] = _op(s["idx"])
        if "incoming" in d:
            d["incoming"] = [(_op(v), b) for v, b in d["incoming"]]
        if "calleev" in d and isinstance(d["calleev"], dict):
            d["calleev"] = _op(d["calleev"])

    # convenience accessors
    @property
    def pred(self):
        return self.d.get("pred")

    @property
    def callee(self):
        return self.d.get("callee")

    @property
    def calleev(self):
        return self.d.get("calleev")

    @property
    def steps(self):
        return self.d.get("steps")

    @property
    def incoming(self):
        return self.d.get("incoming")

    @property
    def succs(self):
        return self.d.get("succs")

    @property
    def size(self):
        return self.d.get("size")

    def where(self):
        """'file:line (fn) <- file:line (fn)' chain, innermost first."""
        if not self.loc:
            return "%s:? (%s)" % (self.fn.file, self.fn.cname)
        return " <- ".join("%s:%d (%s)" % (l["f"], l["l"], l.get("fn", "?")) for l in self.loc)

    def line(self):
        return self.loc[0]["l"] if self.loc else None

    def src_fn(self):
        return self.loc[0].get("fn") if self.loc else self.fn.cname

    def __repr__(self):
        return "<%%%d %s %s>" % (self.id, self.op, self.callee or "")


class Block:
    def __init__(self, fn, d):
        self.fn = fn
        self.id = d["id"]
        self.name = d["name"]
        self.insts = [Inst(fn, self, i, k) for k, i in enumerate(d["insts"])]
        self.succs = []   # list of block ids (with duplicates removed, order kept)
        self.preds = []

    @property
    def term(self):
        return self.insts[-1]

    def __repr__(self):
        return "<bb%d %s>" % (self.id, self.name)


_PROJECT_STRUCTS = None


def _project_structs():
    """struct types of the project itself (reference snapshot known_types.json): only their objects are 'the library's objects'"""
    global _PROJECT_STRUCTS
    if _PROJECT_STRUCTS is None:
        import json as _json
        try:
            _PROJECT_STRUCTS = set(_json.load(open(os.path.join(os.path.dirname(os.path.abspath(__file__)), "known_types.json"))))
        except Exception:
            _PROJECT_STRUCTS = set()
    return _PROJECT_STRUCTS


PRUNED_NULL_GUARDS = set()      # (function, line) of `object parameter == NULL` branches not followed in this run (assumption A-nonnull-objects)


class Function:
    def __init__(self, mod, d):
        self.mod = mod
        self.d = d
        self.name = d["name"]
        self.cname = d.get("cname") or re.sub(r"\.\d+$", "", d["name"])
        self.decl = d["decl"]
        self.internal = d["internal"]
        self.file = d.get("file", "?")
        self.line = d.get("line")
        self.ret = d["ret"]
        self.fty = d["fty"]
        self.vararg = d["vararg"]
        self.params = [Param(self, p, i) for i, p in enumerate(d["params"])]
        self.names = {int(k): v for k, v in d.get("names", {}).items()}
        self.blocks = [Block(self, b) for b in d.get("blocks", [])]
        self.vals = {}
        for p in self.params:
            self.vals[p.id] = p
        for b in self.blocks:
            for i in b.insts:
                self.vals[i.id] = i
        self._cfg()
        self._dom = None
        self._loops = None
        self._users = None

    def _null_object_edge(self, t):
        """for `br (param == NULL)` / `br (param != NULL)` on a pointer-to-struct parameter: the successor taken when the parameter is NULL.
        The properties speak of calls on valid objects (the unhardened code dereferences these parameters unconditionally); a defensive
        `if (reader == NULL) return 0;` opens no path the properties quantify over, so the analysis assumes object parameters non-NULL
        (named assumption A-nonnull-objects) and does not follow that edge.  Only the pure comparison is pruned: `p == NULL || other` keeps
        its `other` branch."""
        if t.op != "br" or not t.ops or len(t.succs or []) != 2 or t.succs[0] == t.succs[1]:
            return None
        c = self.vals.get(t.ops[0][1]) if t.ops[0][0] == "v" else None
        if c is None or getattr(c, "is_param", False) or c.op != "icmp" or c.pred not in ("eq", "ne"):
            return None
        a, b = c.ops
        if b[0] != "null":
            a, b = b, a
        if b[0] != "null" or a[0] != "v":
            return None
        pd = self.vals.get(a[1])
        if pd is None or not getattr(pd, "is_param", False):
            return None
        ty = pd.ty
        if not (ty.startswith("%struct.") and ty.endswith("*") and not ty.endswith("**")):
            return None
        if ty[:-1] not in _project_structs():
            return None                 # e.g. FILE *: NULL is a meaningful argument there (do_decode(reader, NULL) decodes without writing)
        return t.succs[0] if c.pred == "eq" else t.succs[1]

    def _cfg(self):
        self.pruned_null_edges = []
        for b in self.blocks:
            t = b.insts[-1] if b.insts else None
            s = []
            if t is not None:
                if t.op == "br":
                    s = list(t.succs)
                    dead = self._null_object_edge(t)
                    if dead is not None:
                        s = [x for x in s if x != dead]
                        self.pruned_null_edges.append((b.id, dead))
                        PRUNED_NULL_GUARDS.add((self.cname, getattr(t, "line", lambda: None)() if callable(getattr(t, "line", None)) else None))
                        t.d["succs"] = list(s)
                        t.ops = []
                        t.d["ops"] = []
                elif t.op == "switch":
                    s = [t.d["default"]] + [c[1] for c in t.d["cases"]]
            seen = []
            for x in s:
                if x not in seen:
                    seen.append(x)
            b.succs = seen
        # blocks that cannot be reached from the entry (left behind e.g. after inlining a callee that ends in exit()) are dead: they
        # contribute no predecessor edge, no phi input and no instruction to any rule
        live = set()
        work = [0] if self.blocks else []
        while work:
            x = work.pop()
            if x in live:
                continue
            live.add(x)
            work.extend(self.blocks[x].succs)
        self.live_blocks = live
        for b in self.blocks:
            if b.id not in live:
                b.succs = []
        for b in self.blocks:
            for s in b.succs:
                self.blocks[s].preds.append(b.id)
        for b in self.blocks:
            if b.id in live:
                for i in b.insts:
                    if i.op == "phi":
                        i.d["incoming"] = [(v, pb) for v, pb in i.incoming if pb in live and b.id in self.blocks[pb].succs]
                        if i.ops:
                            i.ops = [v for v, _ in i.d["incoming"]]
            else:
                b.insts = [i for i in b.insts if i.op in ("br", "ret", "unreachable", "switch")][-1:]

    # -- values ---------------------------------------------------------
    def defn(self, o):
        """Inst/Param defining operand o, or None for constants."""
        if o[0] == "v":
            return self.vals.get(o[1])
        return None

    def insts(self):
        for b in self.blocks:
            for i in b.insts:
                yield i

    def calls(self, callee=None):
        for i in self.insts():
            if i.op == "call":
                if callee is None or self.mod.callee_cname(i) == callee:
                    yield i

    def users(self, vid):
        if self._users is None:
            u = {}
            for i in self.insts():
                ops = list(i.ops)
                if i.op == "phi":
                    ops = [v for v, _ in i.incoming]
                if i.op == "call" and i.calleev is not None:
                    ops = ops + [i.calleev]
                if i.steps:
                    ops = ops + [s["idx"] for s in i.steps if "idx" in s]
                for o in ops:
                    if o[0] == "v":
                        u.setdefault(o[1], []).append(i)
            self._users = u
        return self._users.get(vid, [])

    def var_name(self, vid):
        return self.names.get(vid)

    # -- dominators -----------------------------------------------------
    def rpo(self):
        seen, order = set(), []
        stack = [(0, iter(self.blocks[0].succs))] if self.blocks else []
        seen.add(0)
        while stack:
            b, it = stack[-1]
            adv = False
            for s in it:
                if s not in seen:
                    seen.add(s)
                    stack.append((s, iter(self.blocks[s].succs)))
                    adv = True
                    break
            if not adv:
                order.append(b)
                stack.pop()
        order.reverse()
        return order

    def idom(self):
        if self._dom is not None:
            return self._dom
        rpo = self.rpo()
        pos = {b: i for i, b in enumerate(rpo)}
        idom = {rpo[0]: rpo[0]} if rpo else {}

        def inter(a, b):
            while a != b:
                while pos[a] > pos[b]:
                    a = idom[a]
                while pos[b] > pos[a]:
                    b = idom[b]
            return a

        changed = True
        while changed:
            changed = False
            for b in rpo[1:]:
                ps = [p for p in self.blocks[b].preds if p in idom]
                if not ps:
                    continue
                n = ps[0]
                for p in ps[1:]:
                    n = inter(p, n)
                if idom.get(b) != n:
                    idom[b] = n
                    changed = True
        self._dom = idom
        return idom

    def dominates(self, a, b):
        """block a dominates block b (reflexive)"""
        idom = self.idom()
        if b not in idom or a not in idom:
            return False
        while True:
            if a == b:
                return True
            n = idom[b]
            if n == b:
                return False
            b = n

    def reachable_blocks(self):
        return set(self.idom().keys())

    # -- loops ----------------------------------------------------------
    def loops(self):
        """natural loops: list of dict(header, body(set), latches, exits[(from,to)])"""
        if self._loops is not None:
            return self._loops
        reach = self.reachable_blocks()
        byhead = {}
        for b in self.blocks:
            if b.id not in reach:
                continue
            for s in b.succs:
                if self.dominates(s, b.id):
                    byhead.setdefault(s, []).append(b.id)
        loops = []
        for h, latches in byhead.items():
            body = {h}
            work = list(latches)
            while work:
                x = work.pop()
                if x in body:
                    continue
                body.add(x)
                work.extend(p for p in self.blocks[x].preds if p in reach)
            exits = [(b, s) for b in body for s in self.blocks[b].succs if s not in body]
            loops.append({"header": h, "body": body, "latches": latches, "exits": exits})
        loops.sort(key=lambda l: len(l["body"]))
        self._loops = loops
        return loops

    def __repr__(self):
        return "<fn %s>" % self.name


class Module:
    def __init__(self, path):
        d = json.load(open(path))
        self.path = path
        self.types = d["types"]
        self.enums = d["enums"]
        self.globals = {g["name"]: g for g in d["globals"]}
        for g in self.globals.values():
            if "init" in g:
                g["init"] = self._init(g["init"])
        self.functions = {}
        self.by_cname = {}
        self.enum_types = d.get("enum_types", [])
        self._recognise_enum_renames()
        self._recognise_field_renames()
        from . import build
        if self.renamed_fields or self.renamed_enums:
            rf = dict(getattr(build, "RENAMED_FIELDS", {}) or {})
            rf.update(self.renamed_fields)
            rf.update({("enum", k): v for k, v in self.renamed_enums.items()})
            build.RENAMED_FIELDS = rf
        al = getattr(build, "ALIASES", {}) or {}
        self.renamed = {}
        for f in d["functions"]:
            fn = Function(self, f)
            if fn.cname in al:
                # a pure rename of a function the rules know (build.Views._find_renames): analysed under its reference name
                self.renamed[al[fn.cname]] = fn.cname
                fn.cname = al[fn.cname]
            if al:
                for i in fn.insts():
                    for l in (i.loc or []):
                        if l.get("fn") in al:
                            l["fn"] = al[l["fn"]]
            self.functions[fn.name] = fn
            self.by_cname.setdefault(fn.cname, []).append(fn)

    def _recognise_enum_renames(self):
        """An enumeration of the reference tree (same source file, same number of enumerators with the same values in the same order) whose
        enumerators carry new names while the reference names are gone: pure renames; the reference names are added to self.enums."""
        import os
        here = os.path.dirname(os.path.abspath(__file__))
        try:
            known = json.load(open(os.path.join(here, "known_enums.json")))
        except Exception:
            known = []
        self.renamed_enums = {}
        for ref in known:
            if all(n in self.enums for n, _ in ref["elems"]):
                continue
            cands = [e for e in self.enum_types if os.path.basename(e.get("file", "")) == ref["file"] and [v for _, v in e["elems"]] == [v for _, v in ref["elems"]]]
            cands = [e for e in cands if not any(n in {r for r, _ in ref["elems"]} for n, _ in e["elems"]) or e.get("name") == ref["name"]]
            if len(cands) != 1:
                continue
            for (rn, rv), (cn, cv) in zip(ref["elems"], cands[0]["elems"]):
                if rn not in self.enums and rn != cn:
                    self.enums[rn] = rv
                    self.renamed_enums[rn] = cn

    def _recognise_field_renames(self):
        """A struct of the reference tree whose layout (field count, offsets, types) is unchanged but where some field carries a new name
        that the reference did not have, while the reference name is gone: a pure field rename; the field is analysed under its reference
        name.  Fields of the reference that are missing for any other reason are collected in self.missing_fields."""
        import os
        here = os.path.dirname(os.path.abspath(__file__))
        try:
            known = json.load(open(os.path.join(here, "known_types.json")))
        except Exception:
            known = {}
        self.renamed_fields = {}
        self.missing_fields = set()
        for sty, ref in known.items():
            cur = self.types.get(sty)
            cn = Module.struct_cname(sty)
            if not cur or cur.get("k") != "struct" or cur.get("opaque") or not cur.get("fields"):
                continue            # type not used in this module
            cf = cur["fields"]
            refnames = {r[0] for r in ref}
            curnames = {f.get("name") for f in cf}
            same_layout = len(cf) == len(ref) and all(f["off"] == r[1] and f["ty"] == r[2] for f, r in zip(cf, ref))
            if same_layout:
                for f, r in zip(cf, ref):
                    if f.get("name") != r[0] and f.get("name") not in refnames and r[0] not in curnames:
                        self.renamed_fields[(cn, r[0])] = f.get("name")
                        f["name"] = r[0]
                curnames = {f.get("name") for f in cf}
            for r in ref:
                if r[0] not in curnames:
                    self.missing_fields.add((cn, r[0]))

    def _init(self, o):
        k = o["k"]
        if k == "agg":
            return {"k": "agg", "ty": o["ty"], "elems": [self._init(e) for e in o["elems"]]}
        if k == "data":
            return {"k": "data", "ty": o["ty"], "ety": o["ety"], "elts": o["elts"]}
        if k == "zero":
            return {"k": "zero", "ty": o["ty"]}
        return {"k": "scalar", "v": _op(o)}

    # -- lookups ----------------------------------------------------------
    def defined(self):
        return [f for f in self.functions.values() if not f.decl]

    def fn(self, cname, file=None):
        """unique defined function with this C name (optionally in file)"""
        c = [f for f in self.by_cname.get(cname, []) if not f.decl and (file is None or f.file.endswith(file))]
        if len(c) == 1:
            return c[0]
        if not c:
            return None
        raise KeyError("ambiguous function %s: %s" % (cname, [(f.name, f.file) for f in c]))

    def fns(self, cname):
        return [f for f in self.by_cname.get(cname, []) if not f.decl]

    def callee_cname(self, inst):
        c = inst.callee
        if c is None:
            return None
        f = self.functions.get(c)
        if f is not None and not f.decl:
            return f.cname
        return c

    def callee_fn(self, inst):
        c = inst.callee
        return self.functions.get(c) if c else None

    def struct(self, tystr):
        t = self.types.get(tystr.rstrip("*"))
        return t if t and t["k"] == "struct" else None

    @staticmethod
    def struct_cname(tystr):
        """'%struct._LHAFileHeader' -> 'LHAFileHeader'"""
        n = tystr.lstrip("%").rstrip("*")
        n = re.sub(r"\.\d+$", "", n)
        n = re.sub(r"^(struct|union)\.", "", n)
        return n.lstrip("_")

    def field_name(self, struct_ty, idx):
        t = self.types.get(struct_ty)
        if not t or t["k"] != "struct" or t.get("opaque"):
            return None
        f = t["fields"][idx]
        return f.get("name", "#%d" % idx)

    def type_size(self, tystr):
        t = self.types.get(tystr)
        return t.get("size") if t else None

    def int_bits(self, tystr):
        t = self.types.get(tystr)
        if t and t["k"] == "int":
            return t["bits"]
        m = re.match(r"^i(\d+)$", tystr)
        return int(m.group(1)) if m else None

    # -- constants -----------------------------------------------------------
    def const_string(self, o):
        """bytes of the string literal operand o points at (offset applied), or None"""
        off = 0
        while o[0] == "ce":
            ce = o[1]
            if ce.op == "getelementptr":
                if not all(s.get("idx", ("ci", 0, 64))[0] == "ci" for s in ce.steps):
                    return None
                for s in ce.steps:
                    if s["k"] in ("ptr", "arr"):
                        off += s["idx"][1] * s["el_size"]
                    elif s["k"] == "field":
                        off += s["off"]
                o = ce.ops[0]
            elif ce.op == "bitcast":
                o = ce.ops[0]
            else:
                return None
        if o[0] != "gv":
            return None
        g = self.globals.get(o[1])
        if not g or "init" not in g or not g["constant"]:
            return None
        init = g["init"]
        if init["k"] == "data" and init["ety"] == "i8":
            b = bytes(x & 0xFF for x in init["elts"])
            b = b[off:]
            if b"\0" in b:
                b = b[: b.index(b"\0")]
            return b
        if init["k"] == "zero":
            return b""
        return None


def field_of_gep(mod, inst_or_ce):
    """If the GEP's last step is a struct field access, return (StructCName, fieldname)."""
    steps = inst_or_ce.steps
    if not steps:
        return None
    last = steps[-1]
    if last["k"] != "field":
        return None
    return (Module.struct_cname(last["struct"]), mod.field_name(last["struct"], last["field"]))
