"""Named assumptions of the RANGE engine (DESIGN §3 C09).  Each has a reason and support rules that
pin the code the invariant rests on; they are printed in the evidence of every property that uses them."""
from .range import I

GIVEN_FIELDS = {
    # (StructCName, field): (interval, assumption name)
    ("BitStreamReader", "bits"): (I(0, 32), "A-bits"),
}

REASONS = {
    "A-bits": "BitStreamReader.bits stays in [0,32]: peek_bits adds 8 per byte delivered by the input callback, which by contract K2 delivers at most "
              "fill_bytes = (32 - bits) / 8 bytes; read_bits subtracts n only after peek_bits succeeded with bits >= n. Relational (bits + 8*remaining <= 32): "
              "outside the interval domain. Support: only bit_stream_reader_init / peek_bits / read_bits store to the field (who-may-store rule).",
    "A-tree": "Huffman tree build invariant 0 <= next_entry <= tree_allocated <= tree_len: expand_queue refuses to grow past the table "
              "(guard tree_allocated + 2*(tree_allocated - next_entry) <= tree_len is an available fact at its stores), so every index it writes is < tree_len and every "
              "child pointer it stores is <= tree_len - 2; read_next_entry hands out an index only if next_entry < tree_allocated. Needs a linear relation with coefficient 2 "
              "between two loop counters: outside the interval domain. Support: who-may-store to tree arrays; guard facts present (rule S-tree).",
}


REASONS["A-lh1-tree"] = ("-lh1- adaptive Huffman tree shape: node, parent, child, group and leader indices stored in the decoder's tables always index inside those tables, and "
                         "leaf codes are < 314 (so a copy is at most 60 bytes). These are value invariants of the LZHUF data structure maintained by init_tree / reconstruct_tree / "
                         "make_group_leader / increment_node_freq; NOT verified here (stated plainly). Support: only those functions store to the four tables (who-may-store rule S-lh1).")
REASONS["A-lh1-offset"] = ("-lh1- offset tables: init_offset_table fills offset_lookup[0..255] with values < 64 and offset_lengths[0..63] because the fixed distribution offset_fdist sums to 64 codes "
                           "covering 256 byte values; needs the sum over a constant table, outside the interval domain. Support: the tables are written only during init (S-lh1).")
REASONS["T-pm1-trees"] = ("-pm1- byte decode trees: the walk through one 5-byte row of the constant table byte_decode_trees stays inside the row and ends in a leaf nibble - not an assumption: "
                          "discharged by the checker's exhaustive walk of all bit paths from each of the 32 roots (rule R4).")


def site_assumptions():
    return [
        # value stored by expand_queue into a tree array is a valid pair index
        {"name": "A-tree", "src_fn": "expand_queue", "kind": "store-value", "object": r"_tree$|\.tree$",
         "value": lambda size_bytes: I(0, size_bytes // 2 - 2)},
    ]


# obligations discharged by assumption: (unit regex, source function regex, object regex, kind regex) -> assumption name
LH1_TREE_FNS = r"^(init_tree|init_groups|alloc_group|free_group|make_group_leader|increment_node_freq|increment_for_code|reconstruct_tree|read_code)$"
OBLIGATION_ASSUMPTIONS = [
    (r".", r"^expand_queue$", r"_tree$|\.tree$", r"^store$", "A-tree"),
    (r".", r"^add_codes_with_length$", r"_tree$|\.tree$", r"^store$", "A-tree"),
    # keyed on the unit and the tables, not on function names: the struct is private to lh1_decoder.c (support rule S-lh1), and the
    # invariant is a statement about the data structure, whoever maintains it
    (r"^lh1$", r".", r"LHALH1Decoder\.(nodes|leaf_nodes|groups|group_leader)$", r".", "A-lh1-tree"),
    (r"^lh1$", r"^output_byte$", r"^param 1$", r"^store$", "A-lh1-tree"),
    (r"^lh1$", r".", r"LHALH1Decoder\.(offset_lookup|offset_lengths)$", r".", "A-lh1-offset"),
    (r"^pm1$", r"^read_byte_decode_index$", r"^global byte_decode_trees$", r"^load$", "T-pm1-trees"),
]
