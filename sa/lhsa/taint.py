"""E5 TAINT: interprocedural, flow-insensitive source-to-sink flow over SSA.

tainted values   : (fn name, value id)  - a pointer to / a value made of archive bytes
tainted fields   : (StructCName, field) - a struct field that has been assigned a tainted value
tainted objects  : (fn name, root id)   - a local/heap object (alloca, allocation call, parameter) that had
                                          tainted bytes or a tainted pointer written into it
"""
from .ir import Module, field_of_gep
from .mem import root
from .callgraph import UNKNOWN

COPY_MODELS = {
    # callee: (dest arg index, [source arg indices] or "rest")
    "strcpy": (0, [1]), "strcat": (0, [1]), "strncpy": (0, [1]), "strncat": (0, [1]), "stpcpy": (0, [1]),
    "memcpy": (0, [1]), "memmove": (0, [1]), "llvm.memcpy.p0i8.p0i8.i64": (0, [1]), "llvm.memmove.p0i8.p0i8.i64": (0, [1]),
    "sprintf": (0, "rest1"), "snprintf": (0, "rest2"), "vsprintf": (0, "rest1"), "vsnprintf": (0, "rest2"),
    "vasprintf": (0, "rest1"), "asprintf": (0, "rest1"),
}
RETURN_MODELS = {"strdup": [0], "strndup": [0], "strchr": [0], "strrchr": [0], "strstr": [0], "strpbrk": [0], "memchr": [0],
                 "strtok": [0], "index": [0], "rindex": [0], "tolower": [0], "toupper": [0]}
ALLOC_FUNCS = {"malloc", "calloc", "realloc", "strdup", "strndup"}


class Taint:
    def __init__(self, mod, cg, source_fields, source_array_fields, sanitisers, stop_fns=()):
        self.mod = mod
        self.cg = cg
        self.source_fields = set(source_fields)          # (Struct, field): loaded pointer is tainted
        self.source_array_fields = set(source_array_fields)  # (Struct, field): the field's address is tainted
        self.sanitisers = set(sanitisers)
        self.stop_fns = set(stop_fns)
        self.vals = set()
        self.fields = set()
        self.objs = set()
        self.why = {}
        self._run()

    def _mark(self, key, reason, kind="v"):
        s = {"v": self.vals, "f": self.fields, "o": self.objs}[kind]
        if key not in s:
            s.add(key)
            self.why[(kind, key)] = reason
            return True
        return False

    def is_tainted(self, fn, o):
        if o[0] == "v":
            if (fn.name, o[1]) in self.vals:
                return True
        if o[0] in ("v", "ce", "gv"):
            r = root(fn, o)
            if r[0] in ("alloca", "call", "param") and (fn.name, r[1] if r[0] != "param" else fn.params[r[1]].id) in self.objs:
                return True
            if r[0] == "global" and ("@", r[1]) in self.objs:
                return True         # a global / function-local static buffer that received tainted bytes
        return False

    def _strip_zero_gep(self, fn, o):
        """array decay: &field[0] -> &field"""
        d = fn.defn(o)
        while d is not None and not d.is_param and (d.op == "bitcast" or (
                d.op == "getelementptr" and all(st.get("idx", ("ci", 1, 0)) == ("ci", 0, st["idx"][2] if "idx" in st and st["idx"][0] == "ci" else 0)
                                                for st in d.steps if st["k"] != "field") and not any(st["k"] == "field" for st in d.steps))):
            o = d.ops[0]
            d = fn.defn(o)
        return o

    def _is_struct_ptr(self, ty):
        t = ty.rstrip("*")
        return t.startswith("%struct") or t.startswith("%union")

    def _taint_object(self, fn, p, reason):
        """a tainted value was written through pointer p which is not a struct field: the
        object it points into (a char buffer, a local pointer variable) becomes tainted"""
        r = root(fn, p)
        if r[0] == "alloca":
            a = fn.vals[r[1]]
            if self._is_struct_ptr(a.ty) and r[2] != 0 and False:
                return False
            return self._mark((fn.name, r[1]), reason, "o")
        if r[0] == "call":
            return self._mark((fn.name, r[1]), reason, "o")
        if r[0] == "param":
            prm = fn.params[r[1]]
            if self._is_struct_ptr(prm.ty):
                return False
            return self._mark((fn.name, prm.id), reason, "o")
        if r[0] == "load":
            # destination pointer was itself loaded from memory: taint what it was loaded from
            ld = fn.vals[r[1]]
            ch = self._mark((fn.name, r[1]), reason)
            fo, g = self._addr_field(fn, ld.ops[0])
            if fo:
                ch |= self._mark(fo, reason, "f")
            return ch
        if r[0] == "phi":
            return self._mark((fn.name, r[1]), reason)
        if r[0] == "global":
            return self._mark(("@", r[1]), reason, "o")
        return False

    def _addr_field(self, fn, o):
        d = fn.defn(o)
        while d is not None and not d.is_param and d.op == "bitcast":
            d = fn.defn(d.ops[0])
        if d is not None and not d.is_param and d.op == "getelementptr":
            return field_of_gep(self.mod, d), d
        return None, None

    def _run(self):
        mod = self.mod
        fns = [f for f in mod.defined() if f.cname not in self.sanitisers]
        changed = True
        rounds = 0
        while changed:
            changed = False
            rounds += 1
            for fn in fns:
                for i in fn.insts():
                    key = (fn.name, i.id)
                    if i.op == "getelementptr":
                        fo = field_of_gep(mod, i)
                        if fo in self.source_array_fields:
                            changed |= self._mark(key, "address of %s.%s at %s" % (fo[0], fo[1], i.where()))
                        elif self.is_tainted(fn, i.ops[0]):
                            changed |= self._mark(key, ("via", fn.name, i.ops[0]))
                    elif i.op == "load":
                        fo, g = self._addr_field(fn, i.ops[0])
                        if fo in self.source_fields:
                            changed |= self._mark(key, "load of %s.%s at %s" % (fo[0], fo[1], i.where()))
                        elif fo in self.fields:
                            changed |= self._mark(key, ("field", fo))
                        elif self.is_tainted(fn, i.ops[0]):
                            changed |= self._mark(key, ("via", fn.name, i.ops[0]))
                    elif i.op in ("bitcast", "zext", "sext", "trunc", "ptrtoint", "inttoptr", "select", "add", "sub", "and", "or",
                                  "xor", "shl", "lshr", "ashr", "mul"):
                        ops = i.ops[1:] if i.op == "select" else i.ops
                        for o in ops:
                            if self.is_tainted(fn, o):
                                changed |= self._mark(key, ("via", fn.name, o))
                    elif i.op == "phi":
                        for v, _ in i.incoming:
                            if self.is_tainted(fn, v):
                                changed |= self._mark(key, ("via", fn.name, v))
                    elif i.op == "store":
                        v, p = i.ops
                        if self.is_tainted(fn, v):
                            fo, g = self._addr_field(fn, p)
                            if fo:
                                # field-sensitive: only that field of that struct type becomes tainted
                                changed |= self._mark(fo, ("stored", fn.name, v, i.where()), "f")
                            else:
                                changed |= self._taint_object(fn, p, ("stored", fn.name, v, i.where()))
                    elif i.op == "call":
                        changed |= self._call(fn, i)
                    elif i.op == "ret":
                        pass
        self.rounds = rounds

    def _call(self, fn, i):
        mod = self.mod
        changed = False
        cn = mod.callee_cname(i)
        key = (fn.name, i.id)
        targets = []
        if i.callee:
            targets = [i.callee]
        else:
            for (inst, res, how) in self.cg.indirect:
                if inst is i:
                    targets = [t for t in res if t != UNKNOWN]
        for t in targets:
            cf = mod.functions.get(t)
            if cf is None:
                continue
            tn = cf.cname if not cf.decl else t
            if tn in self.sanitisers or tn in self.stop_fns:
                continue
            if cf.decl:
                m = COPY_MODELS.get(t)
                if m:
                    dest, srcs = m
                    if srcs == "rest1":
                        srcs = list(range(1, len(i.ops)))
                    elif srcs == "rest2":
                        srcs = list(range(2, len(i.ops)))
                    if dest < len(i.ops) and any(k < len(i.ops) and self.is_tainted(fn, i.ops[k]) for k in srcs):
                        fo, g = self._addr_field(fn, self._strip_zero_gep(fn, i.ops[dest]))
                        if fo:
                            changed |= self._mark(fo, ("copied-into", fn.name, i.ops[dest], i.where()), "f")
                        else:
                            changed |= self._taint_object(fn, i.ops[dest], ("copied", fn.name, i.where()))
                m = RETURN_MODELS.get(t)
                if m and any(k < len(i.ops) and self.is_tainted(fn, i.ops[k]) for k in m):
                    changed |= self._mark(key, ("ret-model", t))
                continue
            # defined callee: arguments -> parameters, return -> result, tainted param objects -> argument roots
            for k, a in enumerate(i.ops):
                if k < len(cf.params) and self.is_tainted(fn, a):
                    changed |= self._mark((cf.name, cf.params[k].id), ("arg", fn.name, a, i.where()))
            for k, a in enumerate(i.ops):
                if k < len(cf.params) and (cf.name, cf.params[k].id) in self.objs:
                    fo, g = self._addr_field(fn, self._strip_zero_gep(fn, a))
                    if fo:
                        changed |= self._mark(fo, ("callee-wrote", cf.name, i.where()), "f")
                    else:
                        changed |= self._taint_object(fn, a, ("callee-wrote", cf.name, i.where()))
            for r in [x for x in cf.insts() if x.op == "ret" and x.ops]:
                if self.is_tainted(cf, r.ops[0]):
                    changed |= self._mark(key, ("ret", cf.name))
        return changed

    def explain(self, fn, o, depth=8):
        """short provenance chain for a tainted operand"""
        out = []
        cur_fn, cur = fn, o
        for _ in range(depth):
            k = None
            if cur[0] == "v" and (cur_fn.name, cur[1]) in self.vals:
                k = ("v", (cur_fn.name, cur[1]))
            else:
                r = root(cur_fn, cur)
                if r[0] in ("alloca", "call", "param"):
                    rid = r[1] if r[0] != "param" else cur_fn.params[r[1]].id
                    if (cur_fn.name, rid) in self.objs:
                        k = ("o", (cur_fn.name, rid))
                elif r[0] == "global" and ("@", r[1]) in self.objs:
                    k = ("o", ("@", r[1]))
            if k is None:
                break
            w = self.why.get(k)
            if isinstance(w, str):
                out.append(w)
                break
            if w is None:
                break
            if w[0] == "via":
                cur_fn, cur = mod_fn(self.mod, w[1]), w[2]
                continue
            if w[0] in ("arg", "stored"):
                out.append("%s in %s (%s)" % (w[0], w[1], w[-1]))
                cur_fn, cur = mod_fn(self.mod, w[1]), w[2]
                continue
            if w[0] == "ret":
                out.append("returned by %s" % w[1])
                cf = mod_fn(self.mod, w[1])
                rr = [x for x in cf.insts() if x.op == "ret" and x.ops and self.is_tainted(cf, x.ops[0])]
                if not rr:
                    break
                cur_fn, cur = cf, rr[0].ops[0]
                continue
            if w[0] == "field":
                out.append("read from tainted field %s.%s" % w[1])
                fw = self.why.get(("f", w[1]))
                if fw and fw[0] in ("stored",):
                    cur_fn, cur = mod_fn(self.mod, fw[1]), fw[2]
                    continue
                break
            out.append(str(w))
            break
        return " <- ".join(out)


def mod_fn(mod, name):
    return mod.functions[name]
