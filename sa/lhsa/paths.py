"""Path-sensitive facts over a small set of tracked predicates.

For a function and a list of named fact patterns, computes for every block the
set of *states* that can reach it, where a state is the frozenset of tracked
predicate names (with polarity) established on the way.  Branches on untracked
conditions do not multiply states.  This is the disjunctive counterpart of the
intersection-at-joins dataflow in facts.py (which loses `A or B` guards).

tracked: dict name -> fact pattern (pred, apat, bpat).  A state contains
(name, True, id) when an edge whose edge-facts match the pattern was crossed
(id = the SSA value tested: facts about SSA values never die, so outcomes of
different test instances are kept side by side), and (name, False, id) when an
edge matching the negated pattern was crossed.
"""
from .facts import Facts, Matcher, NEG


def negate(pat):
    return (NEG[pat[0]], pat[1], pat[2])


class PathStates:
    def __init__(self, fn, facts, tracked, cap=256, env=None, correlate=False, start=0, within=None):
        """correlate: additionally carry the constant currently held by every flag phi (a phi whose incoming values are constants or
        other flag phis) and drop a state at an edge whose branch facts contradict it - so `found = 0; break; ... if (found)` is followed
        only along feasible combinations.  The carried constants are labels ("$<phi id>", True, value)."""
        self.correlate = correlate
        self.start = start              # region analysis: begin at this block with the empty state ...
        self.within = within            # ... and stay inside this set of blocks (None: whole function)
        self.fn = fn
        self.F = facts
        self.tracked = tracked
        self.cap = cap
        self.overflow = False
        m = Matcher(fn)
        # label every edge
        self.edge_labels = {}
        self._env0 = dict(env or {})
        self._m = m
        for b in fn.blocks:
            for s in b.succs:
                self.edge_labels[(b.id, s)] = self._labels(facts.edge_facts(b.id, s))
        self.flag_phis = {}
        if correlate:
            from .facts import is_const, const_val
            cand = {i.id: i for b in fn.blocks for i in b.insts if i.op == "phi"}
            changed = True
            while changed:
                changed = False
                for pid, ph in list(cand.items()):
                    for v, _ in ph.incoming:
                        if is_const(v) and const_val(v) is not None:
                            continue
                        sv = m.strip(v)
                        if sv[0] == "v" and sv[1] in cand:
                            continue
                        dv = fn.defn(sv)
                        if dv is not None and not dv.is_param and (dv.op == "icmp" or dv.ty == "i1"):
                            continue        # a boolean: the phi then holds "the truth of that test" (carried as ("$phi", False, id))
                        del cand[pid]
                        changed = True
                        break
            self.flag_phis = cand
            self._m = m
        self._run()

    def _labels(self, fs):
        m = self._m
        labs = set()
        for f in fs:
            if f[0] == "in":
                continue
            inst = m.strip(f[1])
            iid = inst[1] if inst[0] == "v" else -1
            for name, pat in self.tracked.items():
                if m.match_fact(pat, f, dict(self._env0)) is not None:
                    labs.add((name, True, iid))
                if m.match_fact(negate(pat), f, dict(self._env0)) is not None:
                    labs.add((name, False, iid))
        return frozenset(labs)

    def _flag_step(self, st, b, s):
        """state after crossing b->s under the flag-phi assignment, or None if the edge contradicts it"""
        from .facts import is_const, const_val
        m = self._m
        env = {int(n[1:]): v for n, pol, v in st if n.startswith("$") and pol}
        benv = {int(n[1:]): v for n, pol, v in st if n.startswith("$") and not pol}
        extra = set()
        for f in self.F.edge_facts(b, s):
            if f[0] == "in":
                continue
            a = m.strip(f[1])
            if a[0] == "v" and a[1] in benv and is_const(f[2]) and const_val(f[2]) in (0, 1) and f[0] in ("eq", "ne"):
                # the flag holds the truth of an earlier test: branching on the flag establishes that test's facts on this path
                truth = (f[0] == "ne") == (const_val(f[2]) == 0)
                extra |= self._labels(self.F.cond_facts(("v", benv[a[1]]), truth))
            if a[0] == "v" and a[1] in env and is_const(f[2]) and const_val(f[2]) is not None:
                x, c = env[a[1]], const_val(f[2])
                ok = {"eq": x == c, "ne": x != c, "ugt": x > c, "uge": x >= c, "ult": x < c, "ule": x <= c,
                      "sgt": x > c, "sge": x >= c, "slt": x < c, "sle": x <= c}.get(f[0], True)
                if not ok:
                    return None
        new = {}
        for i in self.fn.blocks[s].insts:
            if i.op != "phi":
                break
            if i.id not in self.flag_phis:
                continue
            for v, pb in i.incoming:
                if pb == b:
                    if is_const(v) and const_val(v) is not None:
                        new[i.id] = (True, const_val(v))
                    else:
                        sv = m.strip(v)
                        if sv[0] == "v" and sv[1] in env:
                            new[i.id] = (True, env[sv[1]])
                        elif sv[0] == "v" and sv[1] in benv:
                            new[i.id] = (False, benv[sv[1]])
                        elif sv[0] == "v" and sv[1] not in self.flag_phis:
                            new[i.id] = (False, sv[1])
                        else:
                            new[i.id] = None
        if not new and not extra:
            return st
        keep = {x for x in st if not (x[0].startswith("$") and int(x[0][1:]) in new)}
        for pid, val in new.items():
            if val is not None:
                keep.add(("$%d" % pid, val[0], val[1]))
        return frozenset(keep | extra)

    def _run(self):
        fn = self.fn
        states = {b.id: set() for b in fn.blocks}
        if not fn.blocks:
            self.states = states
            return
        states[self.start].add(frozenset())
        work = [self.start]
        while work:
            b = work.pop()
            for s in fn.blocks[b].succs:
                if self.within is not None and s not in self.within:
                    continue
                lab = self.edge_labels[(b, s)]
                new = False
                for st in list(states[b]):
                    if self.correlate:
                        st = self._flag_step(st, b, s)
                        if st is None:
                            continue
                    st2 = st | lab
                    if st2 not in states[s]:
                        if len(states[s]) >= self.cap:
                            self.overflow = True
                            continue
                        states[s].add(st2)
                        new = True
                if new and s not in work:
                    work.append(s)
        self.states = states

    def at_block(self, b):
        return self.states[b]

    def on_edge(self, b, s):
        lab = self.edge_labels[(b, s)]
        out = set()
        for st in self.states[b]:
            if self.correlate:
                st = self._flag_step(st, b, s)
                if st is None:
                    continue
            out.add(st | lab)
        return out

    def labelled_edges(self, names):
        return [e for e, l in self.edge_labels.items() if any(x[0] in names for x in l)]


def holds(state, name):
    """some instance of the tracked predicate was established true on the path"""
    return any(n == name and pol for n, pol, _ in state)


def refuted(state, name):
    return any(n == name and not pol for n, pol, _ in state)


def show(states):
    return sorted(sorted(("%s%s#%d" % ("" if pol else "!", n, i)) for n, pol, i in s if not n.startswith("$")) for s in states)
