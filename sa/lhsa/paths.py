"""Path-sensitive facts over a small set of tracked predicates.

For a function and a list of named fact patterns, computes for every block the
set of *states* that can reach it, where a state is the frozenset of tracked
predicate names (with polarity) established on the way.  Branches on untracked
conditions do not multiply states.  This is the disjunctive counterpart of the
intersection-at-joins dataflow in facts.py (which loses `A or B` guards).

tracked: dict name -> fact pattern (pred, apat, bpat).  A state contains
(name, True, id) when an edge whose edge-facts match the pattern was crossed
(id = the SSA value tested: facts about SSA values never die, so outcomes of
different test instances are kept side by side), and (name, False, id) when an
edge matching the negated pattern was crossed.
"""
from .facts import Facts, Matcher, NEG


def negate(pat):
    return (NEG[pat[0]], pat[1], pat[2])


class PathStates:
    def __init__(self, fn, facts, tracked, cap=256, env=None):
        self.fn = fn
        self.F = facts
        self.tracked = tracked
        self.cap = cap
        self.overflow = False
        m = Matcher(fn)
        # label every edge
        self.edge_labels = {}
        for b in fn.blocks:
            for s in b.succs:
                labs = set()
                for f in facts.edge_facts(b.id, s):
                    inst = m.strip(f[1])
                    iid = inst[1] if inst[0] == "v" else -1
                    for name, pat in tracked.items():
                        if m.match_fact(pat, f, dict(env or {})) is not None:
                            labs.add((name, True, iid))
                        if m.match_fact(negate(pat), f, dict(env or {})) is not None:
                            labs.add((name, False, iid))
                self.edge_labels[(b.id, s)] = frozenset(labs)
        self._run()

    def _run(self):
        fn = self.fn
        states = {b.id: set() for b in fn.blocks}
        if not fn.blocks:
            self.states = states
            return
        states[0].add(frozenset())
        work = [0]
        while work:
            b = work.pop()
            for s in fn.blocks[b].succs:
                lab = self.edge_labels[(b, s)]
                new = False
                for st in list(states[b]):
                    st2 = st | lab
                    if st2 not in states[s]:
                        if len(states[s]) >= self.cap:
                            self.overflow = True
                            continue
                        states[s].add(st2)
                        new = True
                if new and s not in work:
                    work.append(s)
        self.states = states

    def at_block(self, b):
        return self.states[b]

    def on_edge(self, b, s):
        lab = self.edge_labels[(b, s)]
        out = set()
        for st in self.states[b]:
            out.add(st | lab)
        return out

    def labelled_edges(self, names):
        return [e for e, l in self.edge_labels.items() if any(x[0] in names for x in l)]


def holds(state, name):
    """some instance of the tracked predicate was established true on the path"""
    return any(n == name and pol for n, pol, _ in state)


def refuted(state, name):
    return any(n == name and not pol for n, pol, _ in state)


def show(states):
    return sorted(sorted(("%s%s#%d" % ("" if pol else "!", n, i)) for n, pol, i in s) for s in states)
