"""Path-sensitive facts over a small set of tracked predicates.

For a function and a list of named fact patterns, computes for every block the
set of *states* that can reach it, where a state is the frozenset of tracked
predicate names (with polarity) established on the way.  Branches on untracked
conditions do not multiply states.  This is the disjunctive counterpart of the
intersection-at-joins dataflow in facts.py (which loses `A or B` guards).

tracked: dict name -> fact pattern (pred, apat, bpat).  A state contains
(name, True, id) when an edge whose edge-facts match the pattern was crossed
(id = the SSA value tested: facts about SSA values never die, so outcomes of
different test instances are kept side by side), and (name, False, id) when an
edge matching the negated pattern was crossed.
"""
from .facts import Facts, Matcher, NEG


def negate(pat):
    return (NEG[pat[0]], pat[1], pat[2])


class PathStates:
    def __init__(self, fn, facts, tracked, cap=256, env=None, correlate=False, start=0, within=None):
        """correlate: additionally carry the constant currently held by every flag phi (a phi whose incoming values are constants or
        other flag phis) and drop a state at an edge whose branch facts contradict it - so `found = 0; break; ... if (found)` is followed
        only along feasible combinations.  The carried constants are labels ("$<phi id>", True, value)."""
        self.correlate = correlate
        self.start = start              # region analysis: begin at this block with the empty state ...
        self.within = within            # ... and stay inside this set of blocks (None: whole function)
        self.fn = fn
        self.F = facts
        self.tracked = tracked
        self.cap = cap
        self.overflow = False
        m = Matcher(fn)
        # label every edge
        self.edge_labels = {}
        self._env0 = dict(env or {})
        self._m = m
        for b in fn.blocks:
            for s in b.succs:
                self.edge_labels[(b.id, s)] = self._labels(facts.edge_facts(b.id, s))
        self.flag_phis = {}
        if correlate:
            from .facts import is_const, const_val
            cand = {i.id: i for b in fn.blocks for i in b.insts if i.op == "phi"}

            def flaglike(v, depth=0):
                """a constant, another flag phi, a test (icmp / i1 value), or a select between flag-like values"""
                if is_const(v) and const_val(v) is not None:
                    return True
                sv = m.strip(v)
                if sv[0] == "v" and sv[1] in cand:
                    return True
                dv = fn.defn(sv)
                if dv is None or dv.is_param:
                    return False
                if dv.op == "icmp" or dv.ty == "i1":
                    return True         # a boolean: the phi then holds "the truth of that test" (carried as ("$phi", False, id))
                if dv.op == "select" and depth < 6:
                    return flaglike(dv.ops[1], depth + 1) and flaglike(dv.ops[2], depth + 1)
                return False
            # a phi is carried when at least one incoming is flag-like (a status merged from several places: `ok = (p != NULL)` on one
            # path, `ok = helper()` on another); incomings that are not flag-like leave the carried value unknown on their path, which only
            # means that nothing is pruned there.  Integer phis only: pointers and wide counters are not flags.
            changed = True
            while changed:
                changed = False
                for pid, ph in list(cand.items()):
                    if ph.ty.endswith("*") or not any(flaglike(v) for v, _ in ph.incoming):
                        del cand[pid]
                        changed = True
            self.flag_phis = cand
            self._m = m
        self._run()

    def _labels(self, fs):
        m = self._m
        labs = set()
        for f in fs:
            if f[0] == "in":
                continue
            inst = m.strip(f[1])
            iid = inst[1] if inst[0] == "v" else -1
            for name, pat in self.tracked.items():
                if m.match_fact(pat, f, dict(self._env0)) is not None:
                    labs.add((name, True, iid))
                if m.match_fact(negate(pat), f, dict(self._env0)) is not None:
                    labs.add((name, False, iid))
        return frozenset(labs)

    def _flag_eval(self, v, env, benv, depth=0):
        """value of a flag-like operand under the carried flag assignment: ("c", constant), ("t", test id, negated) when it holds the
        (possibly negated) truth of an earlier test, or None.  Sound by SSA dominance: an operand used at this point was computed
        after the last redefinition of every flag phi it depends on."""
        from .facts import is_const, const_val
        m = self._m
        if is_const(v):
            c = const_val(v)
            return ("c", c) if c is not None else None
        sv = m.strip(v)
        if sv[0] != "v" or depth > 8:
            return None
        if sv[1] in env:
            return ("c", env[sv[1]])
        if sv[1] in benv:
            t = benv[sv[1]]
            if isinstance(t, tuple) and t[0] == "val":
                return ("val", ("v", t[1]))
            return ("t", t[1], True) if isinstance(t, tuple) else ("t", t, False)
        if sv[1] in self.flag_phis:
            return None                 # a flag phi whose value is not known on this path
        d = self.fn.defn(sv)
        if d is None or d.is_param:
            return None
        if d.op == "select":
            c = self._flag_eval(d.ops[0], env, benv, depth + 1)
            a = self._flag_eval(d.ops[1], env, benv, depth + 1)
            b = self._flag_eval(d.ops[2], env, benv, depth + 1)
            if c is not None and c[0] == "c":
                return a if c[1] != 0 else b
            if a is not None and a == b:
                return a
            if c is not None and c[0] == "t" and a is not None and b is not None and a[0] == "c" and b[0] == "c" and (a[1] != 0) != (b[1] != 0) \
                    and {a[1], b[1]} == {0, 1}:
                return ("t", c[1], c[2] if a[1] != 0 else not c[2])
            return None
        if d.op == "icmp":
            x = self._flag_eval(d.ops[0], env, benv, depth + 1) if self._flag_related(d.ops[0]) else None
            y = self._flag_eval(d.ops[1], env, benv, depth + 1) if x is not None else None
            if x is not None and y is not None and x[0] == "c" and y[0] == "c":
                p, c = x[1], y[1]
                r = {"eq": p == c, "ne": p != c, "ugt": p > c, "uge": p >= c, "ult": p < c, "ule": p <= c,
                     "sgt": p > c, "sge": p >= c, "slt": p < c, "sle": p <= c}.get(d.pred)
                return ("c", int(r)) if r is not None else None
            if x is not None and y is not None and x[0] == "t" and y == ("c", 0) and d.pred in ("eq", "ne"):
                return ("t", x[1], x[2] if d.pred == "ne" else not x[2])
            if self._flag_related(d.ops[0]):
                return None             # a test of a flag whose value is not known here
            return ("t", d.id, False)
        if d.ty == "i1":
            return ("t", d.id, False)
        if d.op == "call" and not d.ty.endswith("*") and self._only_widened(v):
            # the status returned by a callee, merged with tests into one flag: the flag then *is* that value, and a later test of
            # the flag is a test of the value
            return ("val", ("v", d.id))
        return None

    def _only_widened(self, v):
        """v reaches its definition through zext / sext / bitcast only (so `v != 0` is `definition != 0`)"""
        for _ in range(6):
            d = self.fn.defn(v)
            if d is None or d.is_param:
                return True
            if d.op in ("zext", "sext", "bitcast"):
                v = d.ops[0]
                continue
            return d.op != "trunc"
        return False

    def _flag_related(self, v, depth=0):
        m = self._m
        sv = m.strip(v)
        if sv[0] != "v":
            return False
        if sv[1] in self.flag_phis:
            return True
        d = self.fn.defn(sv)
        if d is None or d.is_param or depth > 6:
            return False
        if d.op == "select":
            return any(self._flag_related(o, depth + 1) for o in d.ops)
        if d.op == "icmp":
            return self._flag_related(d.ops[0], depth + 1)
        return False

    def _flag_step(self, st, b, s):
        """state after crossing b->s under the flag-phi assignment, or None if the edge contradicts it"""
        from .facts import is_const, const_val
        m = self._m
        env = {int(n[1:]): v for n, pol, v in st if n.startswith("$") and pol}
        benv = {int(n[1:]): v for n, pol, v in st if n.startswith("$") and not pol}
        extra = set()
        for f in self.F.edge_facts(b, s):
            if f[0] == "in":
                continue
            if not (is_const(f[2]) and const_val(f[2]) is not None) or not self._flag_related(f[1]):
                continue
            r = self._flag_eval(f[1], env, benv)
            if r is None:
                continue
            c = const_val(f[2])
            if r[0] == "t" and c in (0, 1) and f[0] in ("eq", "ne"):
                # the flag holds the truth of an earlier test: branching on the flag establishes that test's facts on this path
                truth = ((f[0] == "ne") == (c == 0)) != r[2]
                extra |= self._labels(self.F.cond_facts(("v", r[1]), truth))
            if r[0] == "val":
                extra |= self._labels({(f[0], r[1], f[2])})
            if r[0] == "c":
                x = r[1]
                ok = {"eq": x == c, "ne": x != c, "ugt": x > c, "uge": x >= c, "ult": x < c, "ule": x <= c,
                      "sgt": x > c, "sge": x >= c, "slt": x < c, "sle": x <= c}.get(f[0], True)
                if not ok:
                    return None
        new = {}
        for i in self.fn.blocks[s].insts:
            if i.op != "phi":
                break
            if i.id not in self.flag_phis:
                continue
            for v, pb in i.incoming:
                if pb == b:
                    r = self._flag_eval(v, env, benv)
                    if r is None:
                        new[i.id] = None
                    elif r[0] == "c":
                        new[i.id] = (True, r[1])
                    elif r[0] == "val":
                        new[i.id] = (False, ("val", r[1][1]))
                    else:
                        new[i.id] = (False, ("not", r[1]) if r[2] else r[1])
        if not new and not extra:
            return st
        keep = {x for x in st if not (x[0].startswith("$") and int(x[0][1:]) in new)}
        for pid, val in new.items():
            if val is not None:
                keep.add(("$%d" % pid, val[0], val[1]))
        return frozenset(keep | extra)

    def _run(self):
        fn = self.fn
        states = {b.id: set() for b in fn.blocks}
        if not fn.blocks:
            self.states = states
            return
        states[self.start].add(frozenset())
        work = [self.start]
        while work:
            b = work.pop()
            for s in fn.blocks[b].succs:
                if self.within is not None and s not in self.within:
                    continue
                lab = self.edge_labels[(b, s)]
                new = False
                for st in list(states[b]):
                    if self.correlate:
                        st = self._flag_step(st, b, s)
                        if st is None:
                            continue
                    st2 = st | lab
                    if st2 not in states[s]:
                        if len(states[s]) >= self.cap:
                            self.overflow = True
                            continue
                        states[s].add(st2)
                        new = True
                if new and s not in work:
                    work.append(s)
        self.states = states

    def at_block(self, b):
        return self.states[b]

    def on_edge(self, b, s):
        lab = self.edge_labels[(b, s)]
        out = set()
        for st in self.states[b]:
            if self.correlate:
                st = self._flag_step(st, b, s)
                if st is None:
                    continue
            out.add(st | lab)
        return out

    def labelled_edges(self, names):
        return [e for e, l in self.edge_labels.items() if any(x[0] in names for x in l)]


def holds(state, name):
    """some instance of the tracked predicate was established true on the path"""
    return any(n == name and pol for n, pol, _ in state)


def refuted(state, name):
    return any(n == name and not pol for n, pol, _ in state)


def show(states):
    return sorted(sorted(("%s%s#%d" % ("" if pol else "!", n, i)) for n, pol, i in s if not n.startswith("$")) for s in states)
