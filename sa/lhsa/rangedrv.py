"""driver helpers for the RANGE engine: decoder contracts (K1) from LHADecoderType initialisers"""
import re
from .range import Unit, I
from . import assumptions as A
from .facts import const_val, is_const


def decoder_types(mod):
    """LHADecoderType globals defined in this module: list of dict(name, init, free, read, extra_size, max_read, block_size)"""
    out = []
    for name, g in mod.globals.items():
        if g["ty"].startswith("%struct._LHADecoderType") and "init" in g and g["init"]["k"] == "agg":
            el = g["init"]["elems"]
            def fnname(e):
                v = e.get("v")
                while v is not None and v[0] == "ce":
                    v = v[1].ops[0]
                return v[1] if v is not None and v[0] == "fn" else None
            out.append({"name": g.get("cname", name), "init": fnname(el[0]), "free": fnname(el[1]), "read": fnname(el[2]),
                        "extra_size": const_val(el[3]["v"]), "max_read": const_val(el[4]["v"]), "block_size": const_val(el[5]["v"])})
    return out


def analyse_decoder_unit(mod):
    unit = Unit(mod)
    unit.private_state = True
    unit.use_sym = __import__("os").environ.get("LHSA_DECSYM", "1") == "1"
    unit.given = dict(A.GIVEN_FIELDS)
    unit.site_assumptions = A.site_assumptions()
    contracts = {}
    entries = []
    for dt in decoder_types(mod):
        for role in ("init", "read"):
            fn = mod.functions.get(dt[role]) if dt[role] else None
            if fn is None or fn.decl:
                continue
            c = contracts.setdefault(fn.name, {})
            c[0] = min(c.get(0, dt["extra_size"]), dt["extra_size"])
            if role == "read":
                c[1] = min(c.get(1, dt["max_read"]), dt["max_read"])
            if fn not in entries:
                entries.append(fn)
    res = unit.analyse(entries, contracts)
    return unit, entries, contracts, res


_facts_cache = {}


def near_miss(o):
    """an index guard that is itself too weak: the access is `array[idx + k]` into [N x T], and a branch fact available at the access bounds idx
    from above by a constant (idx < C / idx <= C) with C (- 1) + k >= N.  Returns the overshooting index or None.  (The interval of the
    analysis is not used for this: it may be wide for lack of a relation, which says nothing about the code.)"""
    try:
        import re as _re
        from .facts import Facts, Matcher
        inst = o.inst
        fn = inst.fn
        ptr = o.ptr_op if o.ptr_op is not None else (inst.ops[0] if inst.op in ("load", "getelementptr") else (inst.ops[1] if inst.op == "store" else None))
        if ptr is None:
            return None
        g = fn.defn(ptr)
        hops = 0
        while g is not None and not g.is_param and g.op in ("bitcast",) and hops < 4:
            g = fn.defn(g.ops[0]); hops += 1
        if inst.op == "getelementptr":
            g = inst
        if g is None or g.is_param or g.op != "getelementptr" or not g.steps:
            return None
        # the array step with a variable index (in this gep or in the gep that produced its base: `&array[i]` then `->field`)
        var = []
        for _ in range(4):
            var = [s_ for s_ in (g.steps or []) if "idx" in s_ and not is_const(s_["idx"])]
            if var:
                break
            g2 = fn.defn(g.ops[0])
            while g2 is not None and not g2.is_param and g2.op == "bitcast":
                g2 = fn.defn(g2.ops[0])
            if g2 is None or g2.is_param or g2.op != "getelementptr":
                break
            g = g2
        base = fn.defn(g.ops[0])
        bty = base.ty if base is not None else ""
        if len(var) != 1:
            return None
        n_el = None
        for s_ in g.steps:
            if s_ is var[0]:
                n_el = s_.get("n")
        if n_el is None:
            m = _re.match(r"^\[(\d+) x ", bty)
            n_el = int(m.group(1)) if m else None
        if not n_el:
            return None
        key = (id(fn.mod), fn.name)
        if key not in _facts_cache:
            _facts_cache[key] = Facts(fn)
        F = _facts_cache[key]
        M = Matcher(fn)
        # idx = atom + k through widenings and +/- constants
        k = 0
        x = var[0]["idx"]
        for _ in range(8):
            d = fn.defn(x)
            if d is None or d.is_param:
                break
            if d.op in ("zext", "sext", "trunc"):
                x = d.ops[0]; continue
            if d.op in ("add", "sub") and is_const(d.ops[1]) and const_val(d.ops[1]) is not None:
                c = const_val(d.ops[1])
                if c >= (1 << 31):
                    c -= (1 << 32) if c < (1 << 32) else (1 << 64)
                k += c if d.op == "add" else -c
                x = d.ops[0]; continue
            break
        xs = M.strip(x)
        best = None

        def atom_plus(y):
            """y = atom + kf through widenings and +/- constants (the guard may be written on `idx + 1`)"""
            kf = 0
            for _ in range(8):
                d_ = fn.defn(y)
                if d_ is None or d_.is_param:
                    break
                if d_.op in ("zext", "sext"):
                    y = d_.ops[0]; continue
                if d_.op in ("add", "sub") and is_const(d_.ops[1]) and const_val(d_.ops[1]) is not None:
                    c_ = const_val(d_.ops[1])
                    if c_ >= (1 << 31):
                        c_ -= (1 << 32) if c_ < (1 << 32) else (1 << 64)
                    kf += c_ if d_.op == "add" else -c_
                    y = d_.ops[0]; continue
                break
            return M.strip(y), kf
        for f in F.at_inst(inst):
            if f[0] == "in" or len(f) < 3 or not is_const(f[2]) or const_val(f[2]) is None:
                continue
            kf = 0
            if M.strip(f[1]) != xs:
                at_, kf = atom_plus(f[1])
                if at_ != xs or kf < 0 or kf > 64:
                    continue
            c = const_val(f[2])
            if c >= (1 << 31):
                continue
            ub = c - 1 if f[0] in ("ult", "slt") else (c if f[0] in ("ule", "sle") else None)
            if ub is not None:
                ub -= kf
                best = ub if best is None else min(best, ub)
        if best is not None and best + k >= n_el:
            return best + k
    except Exception:
        return None
    return None


def classify_obligation(o, unit_name="."):
    """'ok' | 'assumed:<name>' | 'unknown-extent' | 'UNPROVEN'"""
    if o.ok:
        return "ok"
    if near_miss(o) is not None:
        # the analysis *has* a finite bound for this access (a guard in the code bounds the index) and it overshoots the object by a few
        # bytes: that is an off-by-one in the guard, not a tree-shape invariant - no assumption covers it
        return "UNPROVEN"
    for un, src, obj, kind, name in A.OBLIGATION_ASSUMPTIONS:
        # the source function may be the site's own or any function it was inlined from through (a helper extracted from a listed
        # function is still that function's code)
        chain = [l.get("fn") or "" for l in (o.inst.loc or [])] or [o.inst.src_fn() or ""]
        if re.search(un, unit_name) and any(re.search(src, c) for c in chain) and re.search(obj, o.desc) and re.search(kind, o.kind):
            return "assumed:" + name
    if o.ok is None:
        return "unknown-extent"
    return "UNPROVEN"


def all_obligations(unit, res, entries):
    """obligations of the entry functions and of every context analysis of non-inlined callees"""
    out = []
    for f in entries:
        out.extend(res[f.name].obligations.values())
        out.extend(res[f.name].inv_obligations.values())
    best = {}
    for name, subs in unit.ctx_analyses.items():
        for sub in subs:
            for key, o in sub.obligations.items():
                k = (name, key)
                # an access is proven only if it is proven in every calling context
                if k not in best or (best[k].ok and not o.ok):
                    best[k] = o
    out.extend(best.values())
    return out


if __name__ == "__main__":
    import sys, collections
    from .build import Views
    from .ir import Module
    with Views() as v:
        for u in sys.argv[1:]:
            mod = Module(v.inlined_json(u))
            unit, entries, contracts, res = analyse_decoder_unit(mod)
            print("== unit", u, "contracts", contracts, "rounds", unit.round)
            for f in entries:
                a = res[f.name]
                obs = list(a.obligations.values())
                c = collections.Counter(classify_obligation(o, u) for o in obs)
                print(f.name, dict(c))
                seen = set()
                for o in obs:
                    if classify_obligation(o, u) == "UNPROVEN":
                        k = (o.inst.src_fn(), o.desc, o.kind, o.inst.line())
                        if k in seen:
                            continue
                        seen.add(k)
                        print("   UNPROVEN %-22s %-28s %-12s L%s off=%s width=%s size=%s" % (o.inst.src_fn(), o.desc, o.kind, o.inst.line(), o.off, o.width, o.size))
                for o in obs:
                    if o.ok is None:
                        k = (o.inst.src_fn(), o.desc, o.kind, o.inst.line())
                        if k in seen:
                            continue
                        seen.add(k)
                        print("   unknown  %-22s %-28s %-12s L%s off=%s" % (o.inst.src_fn(), o.desc, o.kind, o.inst.line(), o.off))
            print("  field invariants:", {"%s.%s" % (mod.struct_cname(k[0]), mod.field_name(k[0], k[1])): v for k, v in unit.field.items()})
            print("  elem invariants:", {"%s.%s" % (mod.struct_cname(k[0]), mod.field_name(k[0], k[1])): v for k, v in unit.elem.items()})


def generic_contracts(mod, fn):
    """K0: a pointer-to-struct parameter points to (at least) one object of that struct type"""
    c = {}
    for p in fn.params:
        if p.ty.endswith("*") and (p.ty.startswith("%struct") or p.ty.startswith("%union")) and not p.ty.endswith("**"):
            sz = mod.type_size(p.ty[:-1])
            if sz:
                c[p.index] = sz
    return c


def analyse_generic_unit(mod, extra_contracts=None, given=None, candidates=None):
    unit = Unit(mod)
    unit.use_sym = True
    unit.candidates = dict(candidates or {})
    unit.given = dict(A.GIVEN_FIELDS)
    if given:
        unit.given.update(given)
    unit.site_assumptions = A.site_assumptions()
    entries = [f for f in mod.defined()]
    contracts = {}
    for f in entries:
        contracts[f.name] = generic_contracts(mod, f)
        if extra_contracts and f.cname in extra_contracts:
            contracts[f.name].update(extra_contracts[f.cname])
    unit.default_contracts = contracts
    res = unit.analyse(entries, contracts)
    return unit, entries, contracts, res
