"""Positive controls: tiny fixtures compiled through the same pipeline on every run; each rule template must fire
on the violating twin and stay silent on the conforming twin, otherwise the analysis is broken (exit 2)."""
from .facts import Facts, Matcher, ANY
from .paths import PathStates, holds, refuted
from .rules import success_edges


def _fail(rep, name, why):
    rep.broken("selfcheck:" + name, why)


def facts_controls(ctx, rep):
    mod = ctx.fixture("fx_facts")
    res = {}
    for fname, expect in (("guarded_ok", True), ("guarded_bad", False)):
        fn = mod.fn(fname)
        F, M = Facts(fn), Matcher(fn)
        c = list(fn.calls("use"))[0]
        got = M.find_fact(("ne", ("call", "check", [ANY]), 0), F.at_inst(c))[0] is not None
        res[fname] = got
        if got != expect:
            _fail(rep, "facts", "%s: guarded-site query returned %s" % (fname, got))
    for fname, expect in (("ret_ok", True), ("ret_bad", False)):
        fn = mod.fn(fname)
        F = Facts(fn)
        ps = PathStates(fn, F, {"flag": ("ne", ("bin", "and", ("load", ("field", "S", "flags", ANY)), 4), 0), "crc": ("ne", ("call", "crc_ok"), 0)})
        good = True
        for v, pb, b in success_edges(F, fn):
            sts = ps.on_edge(pb, b) if pb is not None else ps.at_block(b)
            if any(not (refuted(s, "flag") or holds(s, "crc")) for s in sts):
                good = False
        res[fname] = good
        if good != expect:
            _fail(rep, "paths", "%s: path-state query returned %s" % (fname, good))
    from .callgraph import CallGraph
    cg = CallGraph(mod)
    r1 = "unlink" in cg.reachable([mod.fn("entry_ro").name])
    r2 = "unlink" in cg.reachable([mod.fn("entry_mut").name])
    if r1 or not r2:
        _fail(rep, "callgraph", "reachability control: ro=%s mut=%s" % (r1, r2))
    from .props.c08 import end_index_accesses
    got = {}
    for i, c, ok in end_index_accesses(ctx, mod):
        got.setdefault(i.fn.cname, []).append(ok)
    if not (got.get("strip_bad") and not any(got["strip_bad"]) and got.get("strip_ok") and all(got["strip_ok"])
            and got.get("strip_ptr_bad") and not any(got["strip_ptr_bad"]) and got.get("strip_ptr_ok") and all(got["strip_ptr_ok"])):
        _fail(rep, "end-index", "end-indexed string control: %s" % got)
    from .props.c08 import string_writer_sites
    sw = {}
    for f, c, ext, mx, ok in string_writer_sites(mod):
        sw[f.cname] = ok
    want = {"fmt_bad": False, "fmt_ok": True, "fmt_s_bad": False, "fmt_s_ok": True, "cpy_bad": False, "cpy_ok": True, "fld_bad": False, "fld_ok": True}
    if {k: sw.get(k) for k in want} != want:
        _fail(rep, "string-writers", "sprintf/strcpy into fixed buffers control: %s" % {k: sw.get(k) for k in want})
    from .props.c08 import divisor_nonzero
    dv = {}
    for fname in ("div_bad", "div_ok", "div_ok2"):
        fn = mod.fn(fname)
        Fd, Md = Facts(fn), Matcher(fn)
        sites = [i for i in fn.insts() if i.op in ("udiv", "sdiv", "urem", "srem") and i.ops[1][0] == "v"]
        dv[fname] = bool(sites) and all(divisor_nonzero(mod, fn, Fd, Md, i, i.ops[1]) is not None for i in sites)
    if dv != {"div_bad": False, "div_ok": True, "div_ok2": True}:
        _fail(rep, "division", "non-zero divisor control: %s" % dv)
    from .props.c08 import ctype_sites
    ct = {}
    for f_, g_, idx_, ok_ in ctype_sites(mod, lambda fn_: Facts(fn_)):
        ct.setdefault(f_.cname, []).append(ok_)
    if not (ct.get("ct_ok") and all(ct["ct_ok"]) and ct.get("ct_bad") and not any(ct["ct_bad"])):
        _fail(rep, "ctype", "character-class table control: %s" % ct)
    imod = ctx.fixture("fx_facts", inline=True)
    sel = {}
    for fname in ("flagsel_ok", "flagsel_bad"):
        fn = imod.fn(fname)
        F = Facts(fn)
        ps = PathStates(fn, F, {"low": ("sge", ("load", ("gep", ANY, [ANY])), 97)}, correlate=True)
        calls = [c for c in fn.insts() if c.op == "call" and imod.callee_cname(c) == "touch"]
        sel[fname] = bool(calls) and not any(holds(st, "low") for c in calls for st in ps.at_block(c.block.id))
    if sel != {"flagsel_ok": True, "flagsel_bad": False}:
        _fail(rep, "flag-select", "flag correlation through helper returns/selects: %s" % sel)
    rep.extra.setdefault("positive_controls", {})["facts/paths/callgraph"] = "fired on the violating twins, silent on the conforming ones"


def taint_controls(ctx, rep):
    mod = ctx.fixture("fx_taint")
    from .callgraph import CallGraph
    from .taint import Taint
    from .bytemap import find_byte_loops
    T = Taint(mod, CallGraph(mod), [("Hdr", "name")], [("Hdr", "method")], {"safe_printf"})
    def tainted_sink(fname):
        fn = mod.fn(fname)
        return any(c.op == "call" and mod.callee_cname(c) in ("printf", "puts") and any(T.is_tainted(fn, a) for a in c.ops) for c in fn.insts())
    got = {f: tainted_sink(f) for f in ("print_ok", "print_bad", "print_bad2")}
    if got != {"print_ok": False, "print_bad": True, "print_bad2": True}:
        _fail(rep, "taint", "taint control: %s" % got)
    from .props.c18 import ByteTaint, char_positions
    B = ByteTaint(mod, CallGraph(mod), [("Hdr", "size")], [], {"safe_printf"})

    def byte_sink(fname):
        fn = mod.fn(fname)
        for c in fn.insts():
            if c.op == "call" and mod.callee_cname(c) == "printf":
                fmt = mod.const_string(c.ops[0])
                pos = char_positions(fmt.split(b"\0")[0].decode("latin-1"), 1) if fmt else []
                if any(k < len(c.ops) and B.is_tainted(fn, c.ops[k]) for k in pos):
                    return True
        return False
    gotb = {f: byte_sink(f) for f in ("byte_ok", "byte_bad", "byte_bad2")}
    if gotb != {"byte_ok": False, "byte_bad": True, "byte_bad2": True}:
        _fail(rep, "byte-taint", "numbers printed as raw bytes control: %s" % gotb)
    ok_vals = find_byte_loops(mod.fn("scrub_ok"))[0].final_values
    bad_vals = find_byte_loops(mod.fn("scrub_bad"))[0].final_values
    if not (ok_vals <= set(range(0x20, 0x7f))) or (bad_vals <= set(range(0x20, 0x7f))):
        _fail(rep, "bytemap", "byte-map control: ok=%s bad has 0x7f=%s" % (sorted(ok_vals)[:3], 0x7f in bad_vals))
    rep.extra.setdefault("positive_controls", {})["taint/bytemap"] = "fired on the violating twins, silent on the conforming ones"


def own_controls(ctx, rep):
    mod = ctx.fixture("fx_own")
    from .callgraph import CallGraph
    from .own import Ownership
    own = Ownership(mod, CallGraph(mod))
    res = {}
    for fname in ("leak_bad", "leak_ok", "deref_bad", "deref_ok"):
        fn = mod.fn(fname)
        a = [i for i in fn.insts() if own.is_alloc_call(i)][0]
        res[fname] = (bool(own.leak_paths(fn, a)), bool(own.unchecked_derefs(fn, a)))
    if not (res["leak_bad"][0] and not res["leak_ok"][0] and res["deref_bad"][1] and not res["deref_ok"][1]):
        _fail(rep, "own", "ownership control: %s" % res)
    rp = {f_: bool(own.leak_paths(mod.fn(f_), [i for i in mod.fn(f_).insts() if own.is_alloc_call(i)][0])) for f_ in ("new_bad", "new_ok")}
    if rp != {"new_bad": True, "new_ok": False}:
        _fail(rep, "own", "merged-return constructor control: %s" % rp)
    from .nullstate import NullState
    from .rules import stores_to_field
    cg = CallGraph(mod)
    sp = mod.fn("set_path")
    ns_res = {}
    for ctor in ("ctor_ok", "ctor_bad"):
        ns = NullState(mod, cg, "Obj", "path")
        ns.analyse(mod.fn(ctor), "N")
        st = stores_to_field(mod, "Obj", "path", [sp])
        ns_res[ctor] = sorted(ns.at_store.get((sp.name, st[0].id), {})) if st else None
    if ns_res != {"ctor_ok": ["N"], "ctor_bad": ["M"]}:
        _fail(rep, "nullstate", "NULL-by-construction control: %s" % ns_res)
    rep.extra.setdefault("positive_controls", {})["own"] = "fired on the violating twins, silent on the conforming ones"


def gf2_controls(ctx, rep):
    mod = ctx.fixture("fx_gf2")
    from .gf2 import BitEval, sym, TOP
    from .lin import ptr_form
    out = {}
    for fname in ("le16_ok", "le16_bad"):
        fn = mod.fn(fname)
        M = Matcher(fn)
        bind = {}
        for l in fn.insts():
            if l.op == "load" and l.size == 1:
                pf = ptr_form(fn, l.ops[0], lambda o: "b" if M.strip(o, ("bitcast",)) == ("v", fn.params[0].id) else None, lambda o: None)
                bind[l.id] = sym("b%d" % pf[1].c, 8)
        ev = BitEval(fn, bind)
        r = [i for i in fn.insts() if i.op == "ret"][0]
        bits = ev.val(r.ops[0])
        out[fname] = bits is not None and all(b == (0, frozenset([("b%d" % (j // 8), j % 8)])) for j, b in enumerate(bits))
    if out != {"le16_ok": True, "le16_bad": False}:
        _fail(rep, "gf2", "bit-matrix control: %s" % out)
    rep.extra.setdefault("positive_controls", {})["gf2"] = "fired on the violating twin, silent on the conforming one"


def loops_controls(ctx, rep):
    mod = ctx.fixture("fx_loops")
    from .loops import classify
    from .callgraph import CallGraph
    cg = CallGraph(mod)
    got = {}
    for fname in ("counted", "skip_ok", "skip_bad"):
        fn = mod.fn(fname)
        got[fname] = [li.cls for li in classify(fn, Facts(fn), cg)]
    if not (got["counted"] == ["A"] and got["skip_ok"] and got["skip_ok"][0] in ("A'", "B") and got["skip_bad"] == [None]):
        _fail(rep, "loops", "termination control: %s" % got)
    rep.extra.setdefault("positive_controls", {})["loops"] = "unclassified on the violating twin (zero step possible), classified on the conforming ones: %s" % got


def range_controls(ctx, rep):
    mod = ctx.fixture("fx_range", inline=True)
    from .rangedrv import analyse_generic_unit
    from .range import I
    unit, entries, contracts, res = analyse_generic_unit(mod, candidates={("St", "pos"): I(0, 255)})
    bad = {}
    for f in entries:
        a = res[f.name]
        bad[f.cname] = any(o.ok is False for o in list(a.obligations.values()) + list(a.inv_obligations.values()))
    expect = {"idx_ok": False, "idx_bad": True, "ring_ok": False, "ring_bad": True, "cb_ok": False, "cb_bad": True}
    if {k: bad.get(k) for k in expect} != expect:
        _fail(rep, "range", "bounds control: %s" % bad)
    rep.extra.setdefault("positive_controls", {})["range"] = "unproven on the violating twins, proven on the conforming ones"


CONTROLS = {"facts": facts_controls, "taint": taint_controls, "own": own_controls, "gf2": gf2_controls, "loops": loops_controls, "range": range_controls}


def run(ctx, rep, names):
    for n in names:
        try:
            CONTROLS[n](ctx, rep)
        except Exception as e:  # an engine that cannot even process its own control is broken
            _fail(rep, n, "positive control raised %s: %s" % (type(e).__name__, e))
