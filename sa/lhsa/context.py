"""Analysis context: builds the views lazily and hands out loaded modules."""
import os
from .build import Views, compile_fixture, VERIF, AnalysisBroken
from .ir import Module
from .facts import Facts


class Context:
    def __init__(self, tier="quick", config=None):
        self.tier = tier
        config = config or os.environ.get("LHSA_CONFIG", "main")     # "test" = the -DTEST_BUILD -DALLOC_TESTING configuration of the test binaries
        self.config = config
        self.views = Views(config=config)
        self._mods = {}
        self._facts = {}

    def __enter__(self):
        self.views.__enter__()
        return self

    def __exit__(self, *a):
        self.views.__exit__(*a)

    def plain(self):
        if "plain" not in self._mods:
            self._mods["plain"] = Module(self.views.plain_json())
            from . import build
            build.CURRENT_DEFINED = {f.cname for f in self._mods["plain"].defined()}
        return self._mods["plain"]

    def inlined(self, name):
        k = "inl:" + name
        if k not in self._mods:
            self._mods[k] = Module(self.views.inlined_json(name))
        return self._mods[k]

    def fixture(self, name, inline=False):
        k = "fx:%s:%d" % (name, inline)
        if k not in self._mods:
            p = os.path.join(VERIF, "fixtures", name + ".c")
            if not os.path.exists(p):
                raise AnalysisBroken("fixture %s missing" % p)
            self._mods[k] = Module(compile_fixture(p, self.views.dir, inline))
        return self._mods[k]

    def facts(self, fn):
        k = (id(fn.mod), fn.name)
        if k not in self._facts:
            self._facts[k] = Facts(fn)
        return self._facts[k]
