"""Reusable rule shapes built on facts.py / paths.py."""
from .facts import Facts, Matcher, ANY, is_const, const_val, describe, describe_fact
from .paths import PathStates
from .ir import Module, field_of_gep


def rets(fn):
    return [i for i in fn.insts() if i.op == "ret"]


def success_edges(F, fn):
    """All (value, pred_block, block) ways the function can return a possibly
    non-zero value: expands the return phi.  value is the leaf operand."""
    out = []
    for r in rets(fn):
        if not r.ops:
            continue
        v = r.ops[0]

        def rec(o, blk_from, blk_to, seen):
            d = fn.defn(o)
            if is_const(o):
                if const_val(o) != 0:
                    out.append((o, blk_from, blk_to))
                return
            if d is not None and not d.is_param and d.op == "phi" and d.id not in seen and d.block.id == blk_to:
                for iv, pb in d.incoming:
                    rec(iv, pb, d.block.id, seen | {d.id})
                return
            out.append((o, blk_from, blk_to))

        rec(v, None, r.block.id, frozenset())
    return out


def facts_for_success(F, fn, v, pb, b):
    """facts known to hold when the function returns leaf value v != 0 via edge pb->b"""
    fs = set()
    if pb is None:
        fs |= F.at_block(b)
    else:
        fs |= F.on_edge(pb, b)
    if not is_const(v):
        n = F.need_nonzero(v)
        if n:
            fs |= n
    return fs


def require_on_success(rep, rid, ctx, fn, named_pats, env=None):
    """Every way fn returns non-zero must carry a fact matching each pattern.
    named_pats: list of (name, (pred, a, b))."""
    F = ctx.facts(fn)
    M = Matcher(fn)
    ses = success_edges(F, fn)
    if not ses:
        rep.broken(rid, "%s has no successful return" % fn.cname)
        return
    for v, pb, b in ses:
        fs = facts_for_success(F, fn, v, pb, b)
        for name, pat in named_pats:
            f, e = M.find_fact(pat, fs, env)
            inst = "%s: return via bb%s carries %s" % (fn.cname, pb if pb is not None else b, name)
            where = "%s:%s" % (fn.file, fn.blocks[pb if pb is not None else b].term.line())
            if f is not None:
                rep.ok(rid, inst, describe_fact(fn, f), where)
            else:
                rep.violation(rid, inst, where,
                              "a path returns success (%s) without the fact %s; facts there: %s" % (
                                  describe(fn, v), name, sorted({describe_fact(fn, x) for x in fs})[:12]),
                              function=fn.cname, obj=name)


def guarded_site(rep, rid, ctx, inst, named_pats, env=None, function=None):
    """inst executes only if a fact matching each pattern holds."""
    fn = inst.fn
    F = ctx.facts(fn)
    M = Matcher(fn)
    fs = F.at_inst(inst)
    ok = True
    for name, pat in named_pats:
        f, e = M.find_fact(pat, fs, env)
        iname = "%s: %s guarded by %s" % (inst.src_fn(), _short(inst), name)
        if f is None and env is None:
            # not an available fact on every path as such - but it may hold on every *feasible* path: a helper's status that comes back
            # through a flag (`ok = 0` on one exit of the helper, `ok = callee() != NULL` on another, then `if (!ok) return`) is followed by
            # the predicate path states, which keep the flag's value and the fact together
            try:
                from .paths import PathStates, holds
                from . import build as _b
                _before = set(_b.REQUESTED_MISSING)      # (trying the pattern on every branch of the function must not by itself count as "the rule needed a vanished field")
                ps = PathStates(fn, F, {"g": pat}, correlate=True, cap=4096)
                sts = ps.at_block(inst.block.id)
                if sts and not ps.overflow and all(holds(s_, "g") for s_ in sts):
                    f = ("path-states", name, len(sts))
                else:
                    _b.REQUESTED_MISSING.clear()
                    _b.REQUESTED_MISSING.update(_before)
            except Exception:
                f = None
        if f is not None and f[0] == "path-states":
            rep.ok(rid, iname, "holds in all %d path states at the site" % f[2], inst.where())
        elif f is not None:
            rep.ok(rid, iname, describe_fact(fn, f), inst.where())
        else:
            ok = False
            rep.violation(rid, iname, inst.where(),
                          "site is reachable without the fact %s; facts there: %s" % (
                              name, sorted({describe_fact(fn, x) for x in fs})[:12]),
                          function=function or inst.src_fn(), obj=name)
    return ok


def _short(inst):
    if inst.op == "call":
        return "call %s" % (inst.fn.mod.callee_cname(inst) or "<indirect>")
    return inst.op


def stores_to_field(mod, sname, fname, fns=None):
    """all store instructions whose address is field fname of struct sname"""
    out = []
    for fn in (fns or mod.defined()):
        for i in fn.insts():
            if i.op == "store":
                d = fn.defn(i.ops[1])
                # look through bitcasts of the address
                while d is not None and not d.is_param and d.op == "bitcast":
                    d = fn.defn(d.ops[0])
                if d is not None and not d.is_param and d.op == "getelementptr":
                    fo = field_of_gep(mod, d)
                    if fo and fo[0] == sname.lstrip("_") and fo[1] == fname:
                        out.append(i)
    return out


def loads_of_field(mod, sname, fname, fns=None):
    out = []
    for fn in (fns or mod.defined()):
        for i in fn.insts():
            if i.op == "load":
                d = fn.defn(i.ops[0])
                while d is not None and not d.is_param and d.op == "bitcast":
                    d = fn.defn(d.ops[0])
                if d is not None and not d.is_param and d.op == "getelementptr":
                    fo = field_of_gep(mod, d)
                    if fo and fo[0] == sname.lstrip("_") and fo[1] == fname:
                        out.append(i)
    return out


def min_width_through_casts(fn, o):
    """minimum integer bit width on the cast chain from o back to its non-cast origin,
    and the origin operand.  Used for 'full width comparison' rules."""
    mod = fn.mod
    w = None
    while True:
        d = fn.defn(o)
        if d is None or d.is_param or d.op not in ("zext", "sext", "trunc"):
            break
        bits = mod.int_bits(d.ty)
        w = bits if w is None else min(w, bits)
        o = d.ops[0]
    d = fn.defn(o)
    ty = d.ty if d is not None else None
    if ty:
        bits = mod.int_bits(ty)
        if bits:
            w = bits if w is None else min(w, bits)
    return w, o


def blocks_reachable_from(fn, starts):
    seen = set(starts)
    work = list(starts)
    while work:
        b = work.pop()
        for s in fn.blocks[b].succs:
            if s not in seen:
                seen.add(s)
                work.append(s)
    return seen


def require_on_success_alt(rep, rid, ctx, fn, alternatives, env=None, leaf_filter=None):
    """Every way fn returns non-zero must satisfy one alternative.
    alternatives: list of (name, leafpat_or_None, [(factname, factpat), ...]).
    leafpat constrains the returned leaf value (e.g. a call, or the constant 1)."""
    F = ctx.facts(fn)
    M = Matcher(fn)
    ses = success_edges(F, fn)
    if not ses:
        rep.broken(rid, "%s has no successful return" % fn.cname)
        return
    for v, pb, b in ses:
        fs = facts_for_success(F, fn, v, pb, b)
        chosen = None
        why = []
        for name, leafpat, pats in alternatives:
            if leafpat is not None and M.match(leafpat, v, dict(env or {})) is None:
                why.append("%s: returned value %s is not of the expected form" % (name, describe(fn, v)))
                continue
            missing = [n for n, p in pats if M.find_fact(p, fs, env)[0] is None]
            if missing:
                why.append("%s: missing %s" % (name, missing))
                continue
            chosen = name
            break
        inst = "%s: non-zero return %s via bb%s" % (fn.cname, describe(fn, v), pb if pb is not None else b)
        where = "%s:%s" % (fn.file, fn.blocks[pb if pb is not None else b].term.line())
        if chosen:
            rep.ok(rid, inst, "alternative: " + chosen, where)
        else:
            rep.violation(rid, inst, where, "no admissible reason for this successful return: %s; facts: %s" % (
                why, sorted({describe_fact(fn, x) for x in fs})[:10]), function=fn.cname, obj="return:%s" % describe(fn, v, 1))
