"""Interprocedural NULL-typestate of one pointer field of the object a constructor builds.

Question decided: at a given store to field (S, f), is the field still NULL - on every path from the start of the constructor
(where the object is calloc'ed) through every chain of calls - so that overwriting it cannot lose a live block?

Lattice per program point: N (provably NULL) < M (may hold a pointer).
  store of the constant NULL to (S, f)          -> N
  any other store to (S, f)                     -> M
  call with an argument whose type mentions S   -> analysed callee's exit state (direct or resolved indirect callee defined in the
                                                   module, context-sensitive by entry state); an external callee -> M, except
                                                   realloc (fields are copied)
  other calls                                   -> unchanged (the object is not reachable from a global)
All stores to (S, f) are attributed to the one object under construction (sound for a constructor that builds one object:
attributing a store to another object of the same type could only move the state to M).  Recursion is cut with M."""
from .facts import is_const, const_val
from .rules import stores_to_field

N, M = "N", "M"


def _join(a, b):
    if a is None:
        return b
    if b is None:
        return a
    return M if M in (a, b) else N


class NullState:
    def __init__(self, mod, cg, S, f, preserving=("realloc",)):
        self.mod, self.cg, self.S, self.f = mod, cg, S, f
        self.preserving = set(preserving)
        self._memo = {}
        self._active = set()
        self.at_store = {}          # store inst id (per function name) -> {state: [context chain]}
        self._field_stores = {}

    def _stores(self, fn):
        if fn.name not in self._field_stores:
            self._field_stores[fn.name] = {st.id for st in stores_to_field(self.mod, self.S, self.f, [fn])}
        return self._field_stores[fn.name]

    def _mentions(self, fn, o):
        d = fn.defn(o)
        seen = 0
        while d is not None and not d.is_param and d.op == "bitcast" and seen < 4:
            if self.S in (d.ty or ""):
                return True
            d = fn.defn(d.ops[0])
            seen += 1
        return d is not None and self.S in (getattr(d, "ty", "") or "")

    def _call(self, fn, c, cur, chain):
        if not any(self._mentions(fn, o) for o in c.ops):
            return cur
        targets = []
        if c.callee:
            t = self.mod.functions.get(c.callee)
            if t is not None and not t.decl:
                targets = [t]
            else:
                return cur if self.mod.callee_cname(c) in self.preserving else M
        else:
            names, _how = self.cg.resolve_indirect(c)
            for n in names:
                t = self.mod.functions.get(n)
                if t is None or t.decl:
                    return M
                targets.append(t)
            if not targets:
                return M
        out = None
        for t in targets:
            out = _join(out, self.analyse(t, cur, chain + ((fn.cname, c.where().split(" <- ")[0]),)))
        return out if out is not None else cur     # a callee that never returns leaves nothing to continue with

    def analyse(self, fn, entry, chain=()):
        """exit state of fn entered in state `entry` (join over its returns; None if it has no reachable return)"""
        key = (fn.name, entry)
        if key in self._memo:
            return self._memo[key]
        if key in self._active:
            return M
        self._active.add(key)
        fstores = self._stores(fn)
        inn = {b.id: None for b in fn.blocks}
        if fn.blocks:
            inn[fn.blocks[0].id] = entry
        work = [fn.blocks[0].id] if fn.blocks else []
        exit_state = None
        rounds = 0
        while work and rounds < 100000:
            rounds += 1
            b = fn.blocks[work.pop()]
            cur = inn[b.id]
            for i in b.insts + ([b.term] if b.term is not None and b.term not in b.insts else []):
                if i.op == "store" and i.id in fstores:
                    self.at_store.setdefault((fn.name, i.id), {}).setdefault(cur, chain)
                    cur = N if (i.ops[0][0] == "null" or (is_const(i.ops[0]) and const_val(i.ops[0]) == 0)) else M
                elif i.op == "call":
                    cur = self._call(fn, i, cur, chain)
                elif i.op == "ret":
                    exit_state = _join(exit_state, cur)
            for s in b.succs:
                j = _join(inn[s], cur)
                if j != inn[s]:
                    inn[s] = j
                    if s not in work:
                        work.append(s)
        self._active.discard(key)
        self._memo[key] = exit_state
        return exit_state
