"""Obligation bookkeeping, evidence files, known findings, exit codes."""
import json, os, sys, time, re

VERIF = os.path.dirname(os.path.dirname(os.path.dirname(os.path.abspath(__file__))))
KNOWN = os.path.join(VERIF, "KNOWN_FINDINGS.txt")


def load_known():
    findings = []
    fixed = []
    if os.path.exists(KNOWN):
        for line in open(KNOWN):
            line = line.strip()
            if not line or line.startswith("#"):
                continue
            if line.startswith("finding:"):
                body, _, what = line[len("finding:"):].partition("::")
                kv = dict(re.findall(r"(\w+)=(\S+)", body))
                findings.append((kv, what.strip()))
            elif line.startswith("fixed:"):
                fixed.append(line)
    return findings, fixed


class Report:
    def __init__(self, prop, tier, level="other", explanation=""):
        self.prop = prop
        self.tier = tier
        self.level = level
        self.explanation = explanation
        self.t0 = time.time()
        self.rules = {}         # rule -> dict(desc, ok, assumed, violations, sites)
        self.order = []
        self.violations = []
        self.known_hits = []
        self.broken_reasons = []
        self.samples = []
        self.assumptions = []
        self.analysed = {}
        self.trusted_base = []
        self.findings, self.fixed = load_known()
        self.extra = {}

    # -- rule registration ------------------------------------------------
    def rule(self, rid, desc, min_sites=1):
        if rid not in self.rules:
            self.rules[rid] = {"desc": desc, "ok": 0, "assumed": 0, "violations": 0, "min_sites": min_sites, "instances": []}
            self.order.append(rid)
        return rid

    def ok(self, rid, instance, detail=None, where=None):
        r = self.rules[rid]
        r["ok"] += 1
        if len(r["instances"]) < 12:
            r["instances"].append({"instance": instance, "status": "discharged", "where": where, "detail": detail})

    def assumed(self, rid, instance, name, reason, where=None):
        r = self.rules[rid]
        r["assumed"] += 1
        if len(r["instances"]) < 40:
            r["instances"].append({"instance": instance, "status": "assumed:" + name, "where": where})
        a = "%s: %s" % (name, reason)
        if a not in self.assumptions:
            self.assumptions.append(a)

    def violation(self, rid, instance, where, detail, function=None, obj=None):
        """instance: short id of rule instance. function/object: identity for known findings."""
        key = {"property": self.prop, "rule": rid, "function": function or "", "object": obj or ""}
        for kv, what in self.findings:
            if kv.get("property") == self.prop and kv.get("rule") == rid and \
               kv.get("function", "") == (function or "") and kv.get("object", "") == (obj or ""):
                self.known_hits.append((kv, what))
                r = self.rules[rid]
                r["instances"].append({"instance": instance, "status": "known-finding", "where": where, "detail": detail})
                return
        r = self.rules[rid]
        r["violations"] += 1
        v = {"property": self.prop, "rule": rid, "rule_desc": r["desc"], "instance": instance, "where": where,
             "detail": detail, "function": function, "object": obj}
        r["instances"].append({"instance": instance, "status": "VIOLATION", "where": where, "detail": detail})
        self.violations.append(v)

    def broken(self, rid, reason):
        self.broken_reasons.append((rid, reason))

    def check(self, rid, cond, instance, where=None, detail=None, function=None, obj=None):
        if cond:
            self.ok(rid, instance, detail, where)
        else:
            self.violation(rid, instance, where, detail, function, obj)
        return cond

    def need(self, rid, thing, what):
        """anchor lookup: returns thing, or records analysis-broken when it is None"""
        if thing is None or thing == []:
            self.broken(rid, "anchor missing: %s" % what)
            if what.startswith("function "):
                from . import build
                build.note_requested(what.split()[1], False)
        return thing

    def sample(self, s):
        if len(self.samples) < 40:
            self.samples.append(s)

    # -- finish -------------------------------------------------------------
    def finish(self, seed=0):
        for rid in self.order:
            r = self.rules[rid]
            n = r["ok"] + r["assumed"] + r["violations"] + sum(1 for i in r["instances"] if i["status"] == "known-finding")
            if n < r["min_sites"]:
                self.broken(rid, "rule matched %d sites, fewer than the %d confirmed by hand" % (n, r["min_sites"]))
        obligations = sum(r["ok"] + r["assumed"] + r["violations"] for r in self.rules.values()) + len(self.known_hits)
        discharged = sum(r["ok"] for r in self.rules.values())
        assumed = sum(r["assumed"] for r in self.rules.values())
        wall = time.time() - self.t0
        cov = {
            "obligations": obligations,
            "discharged": discharged,
            "assumed": assumed,
            "explanation": self.explanation,
            "checker_cmd": "./check %s --tier %s" % (self.prop, self.tier),
            "trusted_base": self.trusted_base or [
                "clang 14 C front end, LLVM passes sroa/inline/simplifycfg/early-cse preserve semantics",
                "irx serialises the IR faithfully", "the Python rule engines under /verif/sa/lhsa"],
            "rules": {rid: {k: self.rules[rid][k] for k in ("desc", "ok", "assumed", "violations", "min_sites")} for rid in self.order},
            "samples": self.samples or [i for rid in self.order for i in self.rules[rid]["instances"][:3]],
            "analysed": self.analysed,
            "exhaustive": True,
            "known_findings_reported": [w for _, w in self.known_hits],
        }
        if os.environ.get("LHSA_DUMP_INSTANCES"):
            with open(os.environ["LHSA_DUMP_INSTANCES"], "a") as f_:
                for rid in self.order:
                    for i in self.rules[rid]["instances"]:
                        f_.write(json.dumps({"prop": self.prop, "rule": rid, "where": i.get("where"), "instance": i.get("instance"), "status": i.get("status")}) + "\n")
        from .build import vanished_anchors
        gone = vanished_anchors(self.prop)
        for g in gone:
            if g.startswith("field "):
                self.broken_reasons.append(("anchors", "%s, which the rules of this property name, no longer exists with that name and layout (renamed together with a layout change, "
                                                       "moved or removed): the rules that rest on it cannot be evaluated" % g))
                continue
            self.broken_reasons.append(("anchors", "function %s, which the rules of this property name, no longer exists in the tree (renamed, merged into its caller or removed): "
                                                   "the rules that rest on it cannot be evaluated" % g))
        from . import build as _b
        if getattr(_b, "RENAMED_FIELDS", None):
            cov["renamed_fields"] = {"%s.%s" % k: v for k, v in _b.RENAMED_FIELDS.items()}
            print("  note: struct fields analysed under their reference names (layout unchanged): %s" % ", ".join("%s.%s (now %s)" % (k[0], k[1], v) for k, v in sorted(_b.RENAMED_FIELDS.items())))
        if getattr(_b, "ALIASES", None):
            cov["renamed_functions"] = {v: k for k, v in _b.ALIASES.items()}
            fz = getattr(_b, "FUZZY", {}) or {}
            pure = {k: v for k, v in _b.ALIASES.items() if k not in fz}
            if pure:
                print("  note: analysed under their reference names (recognised as pure renames): %s" % ", ".join("%s (now %s)" % (v, k) for k, v in sorted(pure.items())))
            if fz:
                cov["reworked_functions"] = {v[0]: {"now": k, "resemblance": v[1]} for k, v in fz.items()}
                print("  note: renamed AND reworked functions, identified by resemblance only to decide where the rules look: %s" %
                      ", ".join("%s (now %s, %.2f)" % (v[0], k, v[1]) for k, v in sorted(fz.items())))
        from . import ir as _ir
        if _ir.PRUNED_NULL_GUARDS:
            cov["null_guards_on_object_parameters_not_followed"] = sorted("%s:%s" % x for x in _ir.PRUNED_NULL_GUARDS)
            if not any(a_.startswith("A-nonnull-objects") for a_ in self.assumptions):
                self.assumptions.append("A-nonnull-objects: branches on `pointer-to-struct parameter == NULL` are not followed (%d in this tree): the properties speak of calls "
                                        "on valid objects, and the reference code dereferences these parameters unconditionally" % len(_ir.PRUNED_NULL_GUARDS))
        cov.update(self.extra)
        ev = {"property_id": self.prop, "tier": self.tier, "seed": seed, "level": self.level, "coverage": cov,
              "assumptions": self.assumptions, "wall_s": round(wall, 3), "violations": len(self.violations)}
        if self.broken_reasons:
            ev["analysis_broken"] = ["%s: %s" % x for x in self.broken_reasons]
        evdir = os.environ.get("LHSA_EVIDENCE", os.path.join(VERIF, "evidence"))     # regression runs on scratch copies keep their evidence apart
        os.makedirs(evdir, exist_ok=True)
        with open(os.path.join(evdir, "%s.json" % self.prop), "w") as f:
            json.dump(ev, f, indent=1, default=str)
        for rid in self.order:
            r = self.rules[rid]
            print("  %-8s %-70s ok=%d assumed=%d viol=%d" % (rid, r["desc"][:70], r["ok"], r["assumed"], r["violations"]))
        seen = set()
        for kv, what in self.known_hits:
            k = json.dumps(kv, sort_keys=True)
            if k in seen:
                continue
            seen.add(k)
            print("KNOWN-FINDING: property=%s rule=%s function=%s object=%s :: %s" % (
                self.prop, kv.get("rule"), kv.get("function"), kv.get("object"), what))
        if self.broken_reasons:
            for rid, reason in self.broken_reasons:
                print("ANALYSIS-BROKEN property=%s rule=%s reason=%s" % (self.prop, rid, reason))
            if not self.violations or gone:
                if gone and self.violations:
                    print("  (%d rule instances failed as well; with a named function gone they are not reported as violations)" % len(self.violations))
                return 2
        if self.violations:
            rd = os.path.join(os.environ.get("LHSA_EVIDENCE", os.path.join(VERIF, "evidence")), "replay")
            os.makedirs(rd, exist_ok=True)
            for n, v in enumerate(self.violations):
                p = os.path.join(rd, "%s_%s_%d.json" % (self.prop, re.sub(r"\W+", "_", v["rule"]), n))
                with open(p, "w") as f:
                    json.dump(v, f, indent=1, default=str)
                print("  violated: rule=%s instance=%s at %s :: %s" % (v["rule"], v["instance"], v["where"], v["detail"]))
                print("VIOLATION property=%s replay=%s" % (self.prop, p))
            return 1
        print("OK property=%s tier=%s obligations=%d discharged=%d assumed=%d wall=%.1fs" % (
            self.prop, self.tier, obligations, discharged, assumed, wall))
        return 0
