"""Byte-map loops: `for each byte of a string: maybe replace it`.

Recognises a natural loop that walks a buffer one byte per iteration (pointer
or index induction) and computes, per acyclic path through the body, the set of
byte values that path admits (by evaluating the path's branch facts over all 256
values of the byte - an exact abstract evaluation over a finite domain, not an
execution of the program) and the constant it stores back, if any.

Result: ByteLoop with
  .kind          "ptr" | "index"
  .start_ok      walk starts at offset 0 of .base
  .step_ok       advances by exactly one byte per iteration
  .exit          "nul" (leaves when the byte is 0) | "counted" (index >= bound) | None
  .bound         operand of the bound for counted loops
  .base          operand of the buffer start (pointer walked / array indexed)
  .final_values  set of byte values a visited position can hold after its iteration
  .unvisited_ok  True if the only way to leave the loop is the exit condition above
"""
from .facts import Facts, Matcher, is_const, const_val, NEG
from .mem import root


def _eval(fn, o, bid, bval, depth=0):
    """value of operand o when SSA value bid (a load i8) has value bval; None if not a function of it"""
    if o[0] == "ci":
        return o[1]
    if o[0] != "v" or depth > 12:
        return None
    if o[1] == bid:
        return bval
    d = fn.defn(o)
    if d is None or d.is_param:
        return None
    bits = fn.mod.int_bits(d.ty) or 64
    mask = (1 << bits) - 1
    if d.op == "zext":
        v = _eval(fn, d.ops[0], bid, bval, depth + 1)
        if v is None:
            return None
        sb = fn.mod.int_bits(fn.defn(d.ops[0]).ty) if fn.defn(d.ops[0]) is not None else 8
        return v & ((1 << sb) - 1)
    if d.op == "sext":
        v = _eval(fn, d.ops[0], bid, bval, depth + 1)
        if v is None:
            return None
        sb = fn.mod.int_bits(fn.defn(d.ops[0]).ty) if fn.defn(d.ops[0]) is not None else 8
        v &= (1 << sb) - 1
        return v - (1 << sb) if v >> (sb - 1) else v
    if d.op == "trunc":
        v = _eval(fn, d.ops[0], bid, bval, depth + 1)
        return None if v is None else v & mask
    if d.op in ("and", "or", "xor", "add", "sub"):
        a = _eval(fn, d.ops[0], bid, bval, depth + 1)
        b = _eval(fn, d.ops[1], bid, bval, depth + 1)
        if a is None or b is None:
            return None
        r = {"and": a & b, "or": a | b, "xor": a ^ b, "add": a + b, "sub": a - b}[d.op]
        # keep mathematical value for comparisons in the signed reading of the width
        r &= mask
        return r
    return None


def _cmp(pred, a, b, bits):
    def s(x):
        x &= (1 << bits) - 1
        return x - (1 << bits) if x >> (bits - 1) else x

    def u(x):
        return x & ((1 << bits) - 1)
    return {"eq": u(a) == u(b), "ne": u(a) != u(b), "ult": u(a) < u(b), "ule": u(a) <= u(b), "ugt": u(a) > u(b),
            "uge": u(a) >= u(b), "slt": s(a) < s(b), "sle": s(a) <= s(b), "sgt": s(a) > s(b), "sge": s(a) >= s(b)}[pred]


class ByteLoop:
    pass


def find_byte_loops(fn, F=None):
    F = F or Facts(fn)
    M = Matcher(fn)
    out = []
    for lp in fn.loops():
        hdr = fn.blocks[lp["header"]]
        body = lp["body"]
        # induction candidates: header phis with one entry value and one latch value = phi + 1
        for phi in [i for i in hdr.insts if i.op == "phi"]:
            ins = [(v, b) for v, b in phi.incoming if b not in body]
            backs = [(v, b) for v, b in phi.incoming if b in body]
            if len(ins) != 1 or not backs:
                continue
            isptr = phi.ty.endswith("*")
            step_ok = True
            for v, _ in backs:
                if isptr:
                    if M.match(("gep", ("inst", phi.id), [1]), v, {}) is None or fn.mod.type_size(phi.ty[:-1]) != 1:
                        step_ok = False
                else:
                    if M.match(("bin", "add", ("inst", phi.id), 1), v, {}) is None:
                        step_ok = False
            if not step_ok:
                continue
            bl = ByteLoop()
            bl.fn, bl.loop, bl.phi = fn, lp, phi
            bl.kind = "ptr" if isptr else "index"
            bl.step_ok = True
            bl.init = ins[0][0]
            # byte accesses: loads/stores whose address is phi (ptr) or gep(base, [phi]) (index)
            loads, stores = [], []
            base = None
            for b in body:
                for i in fn.blocks[b].insts:
                    if i.op not in ("load", "store"):
                        continue
                    addr = i.ops[0] if i.op == "load" else i.ops[1]
                    sz = i.size
                    if sz != 1:
                        continue
                    if isptr:
                        if M.strip(addr, ("bitcast",)) == ("v", phi.id):
                            (loads if i.op == "load" else stores).append(i)
                    else:
                        e = M.match(("gep", ("bind", "base"), [("inst", phi.id)]), addr, {})
                        if e is not None:
                            if base is None:
                                base = e["base"]
                            if e["base"] == base or M.equiv(e["base"], base):
                                (loads if i.op == "load" else stores).append(i)
            if not loads:
                continue
            bl.loads, bl.stores = loads, stores
            bl.base = bl.init if isptr else base
            bl.start_ok = True if isptr else (is_const(bl.init) and const_val(bl.init) == 0)
            # exits
            bl.exit = None
            bl.bound = None
            kinds = set()
            for (b, s) in lp["exits"]:
                fs = F.edge_facts(b, s)
                k = None
                for f in fs:
                    if f[0] == "eq" and is_const(f[2]) and const_val(f[2]) == 0 and any(M.strip(f[1]) == ("v", l.id) for l in loads):
                        k = "nul"
                    if not isptr and f[0] == "uge" and M.strip(f[1]) == ("v", phi.id):
                        k = "counted"
                        bl.bound = f[2]
                    if isptr and f[0] == "uge" and M.strip(f[1], ("bitcast",)) == ("v", phi.id):
                        # pointer walk up to an end pointer: end = start + n for the same start the walk begins at
                        e = M.match(("gep", ("bind", "b0"), [("bind", "n")]), f[2], {})
                        if e is not None and (e["b0"] == M.strip(bl.init, ("bitcast",)) or M.equiv(e["b0"], M.strip(bl.init, ("bitcast",)))):
                            k = "counted"
                            bl.bound = e["n"]
                kinds.add(k)
            bl.unvisited_ok = None not in kinds and len(kinds) == 1
            bl.exit = kinds.pop() if len(kinds) == 1 else None
            # paths header -> latch (acyclic inside the body)
            bl.paths = []
            _enumerate(fn, F, M, bl)
            out.append(bl)
    return out


def _enumerate(fn, F, M, bl):
    lp = bl.loop
    hdr = lp["header"]
    results = []
    loads = {l.id for l in bl.loads}

    def walk(b, facts, stored, first_load, seen):
        blk = fn.blocks[b]
        for i in blk.insts:
            if i in bl.stores:
                v = i.ops[0]
                stored = ("const", const_val(v)) if is_const(v) else ("value", v)
            elif i.op == "load" and i.id in loads:
                if stored is None and first_load is None:
                    first_load = i.id
                elif stored is None and first_load is not None:
                    pass
            elif i.op == "call" or (i.op == "store" and i not in bl.stores):
                # a call or foreign store may change the byte: give up precision for this path
                if i.op == "call" and (i.callee or "").startswith("llvm.dbg"):
                    continue
                r = root(fn, i.ops[1])[:2] if i.op == "store" else None
                if i.op == "store" and r is not None and r[0] == "alloca" and root(fn, bl.base)[:2] != r:
                    continue
                stored = ("unknown", None)
        for s in blk.succs:
            ef = F.edge_facts(b, s)
            if s == hdr:
                results.append((facts | ef, stored, first_load))
            elif s in lp["body"] and s not in seen:
                walk(s, facts | ef, stored, first_load, seen | {s})

    walk(hdr, frozenset(), None, None, {hdr})
    final = set()
    covered = set()
    detail = []
    for facts, stored, first_load in results:
        admitted = set()
        if first_load is None:
            admitted = set(range(256))
        else:
            for bv in range(256):
                ok = True
                for (p, a, c) in facts:
                    if not is_const(c):
                        continue
                    d = fn.defn(a)
                    ev = _eval(fn, a, first_load, bv)
                    if ev is None:
                        # maybe a different load of the same byte before any store
                        alt = None
                        for l in loads:
                            alt = _eval(fn, a, l, bv)
                            if alt is not None:
                                break
                        ev = alt
                    if ev is None:
                        continue
                    bits = fn.mod.int_bits(d.ty) if d is not None and not d.is_param else 8
                    if not _cmp(p, ev, const_val(c), bits or 8):
                        ok = False
                        break
                if ok:
                    admitted.add(bv)
        covered |= admitted
        if stored is None:
            vals = admitted
        elif stored[0] == "const":
            vals = {stored[1] & 0xFF} if admitted else set()
        else:
            vals = set(range(256)) if admitted else set()
        detail.append({"admits": _ranges(admitted), "stores": None if stored is None else (stored[1] if stored[0] == "const" else stored[0]),
                       "leaves": _ranges(vals)})
        final |= vals
    bl.final_values = final
    bl.covered = covered
    bl.path_detail = detail


def _ranges(s):
    s = sorted(s)
    out = []
    i = 0
    while i < len(s):
        j = i
        while j + 1 < len(s) and s[j + 1] == s[j] + 1:
            j += 1
        out.append("0x%02x" % s[i] if i == j else "0x%02x-0x%02x" % (s[i], s[j]))
        i = j + 1
    return ",".join(out)


class SearchReplace:
    pass


def find_search_replace(fn, F=None):
    """search-and-replace loops over a byte buffer, written with the library's search functions:

        for (p = strchr(s, C); p != NULL; p = strchr(p, C)) *p = R;            (NUL-terminated string)
        p = s; while ((p = memchr(p, C, end - p)) != NULL) *p++ = R;           (end = s + len)

    Recognised: one header phi for the cursor (or the search result); the loop is left exactly when the search returns NULL; the only store
    in the loop writes a constant R != C (and, for strchr, R != 0) at the position found; the next search starts at the position found or
    one past it; for memchr the length is `end - cursor` with end = start + len.  Then: every iteration removes one occurrence of C from a
    finite buffer (termination), and at the exit no byte equal to C remains in [start, start + len) / in the string (post-condition).
    Attributes: kind, loop, start (pointer operand the first search starts at), length (operand, memchr only), byte C, repl R."""
    F = F or Facts(fn)
    M = Matcher(fn)
    out = []
    for lp in fn.loops():
        body = lp["body"]
        calls = [i for b in body for i in fn.blocks[b].insts if i.op == "call" and fn.mod.callee_cname(i) in ("strchr", "memchr")]
        pre = []
        hdr = fn.blocks[lp["header"]]
        phis = [i for i in hdr.insts if i.op == "phi" and i.ty.endswith("*")]
        if len(phis) != 1:
            continue
        ph = phis[0]
        ins = [v for v, b in ph.incoming if b not in body]
        backs = [v for v, b in ph.incoming if b in body]
        if len(ins) != 1 or not backs:
            continue
        stores = [i for b in body for i in fn.blocks[b].insts if i.op == "store"]
        others = [i for b in body for i in fn.blocks[b].insts if i.op == "call" and fn.mod.callee_cname(i) not in ("strchr", "memchr") and
                  not (i.callee or "").startswith("llvm.dbg")]
        if len(stores) != 1 or others or not is_const(stores[0].ops[0]) or stores[0].size != 1:
            continue
        R = const_val(stores[0].ops[0]) & 0xFF
        sr = SearchReplace()
        sr.fn, sr.loop, sr.store = fn, lp, stores[0]
        # form 1: the phi IS the search result (search before the loop and on the back edge)
        d_in = fn.defn(M.strip(ins[0], ("bitcast",)))
        form1 = d_in is not None and not d_in.is_param and d_in.op == "call" and fn.mod.callee_cname(d_in) == "strchr" and len(calls) == 1 and \
            all(M.strip(v, ("bitcast",)) == ("v", calls[0].id) for v in backs)
        if form1:
            c_in, c_bk = d_in, calls[0]
            if not (is_const(c_in.ops[1]) and is_const(c_bk.ops[1]) and const_val(c_in.ops[1]) == const_val(c_bk.ops[1])):
                continue
            C = const_val(c_in.ops[1]) & 0xFF
            at = M.strip(stores[0].ops[1], ("bitcast",))
            nxt = M.strip(c_bk.ops[0], ("bitcast",))
            ok = at == ("v", ph.id) and (nxt == ("v", ph.id) or M.match(("gep", ("inst", ph.id), [1]), c_bk.ops[0], {}) is not None)
            # left exactly when the result is NULL: every exit edge carries `phi == NULL`, the back edge / body entry `phi != NULL`
            exits_ok = all(M.find_fact(("eq", ("inst", ph.id), 0), F.edge_facts(b_, s_))[0] is not None for (b_, s_) in lp["exits"])
            guarded = M.find_fact(("ne", ("inst", ph.id), 0), F.at_inst(stores[0]))[0] is not None
            if ok and exits_ok and guarded and R != C and R != 0 and C != 0:
                sr.kind, sr.start, sr.length, sr.byte, sr.repl = "strchr", c_in.ops[0], None, C, R
                out.append(sr)
            continue
        # form 2: the phi is the cursor; one search per iteration, from the cursor
        if len(calls) != 1:
            continue
        c = calls[0]
        if M.strip(c.ops[0], ("bitcast",)) != ("v", ph.id) or not is_const(c.ops[1]):
            continue
        C = const_val(c.ops[1]) & 0xFF
        at = M.strip(stores[0].ops[1], ("bitcast",))
        if at != ("v", c.id):
            continue
        nxt_ok = all(M.strip(v, ("bitcast",)) == ("v", c.id) or M.match(("gep", ("inst", c.id), [1]), v, {}) is not None for v in backs)
        exits_ok = all(M.find_fact(("eq", ("inst", c.id), 0), F.edge_facts(b_, s_))[0] is not None for (b_, s_) in lp["exits"])
        guarded = M.find_fact(("ne", ("inst", c.id), 0), F.at_inst(stores[0]))[0] is not None
        if not (nxt_ok and exits_ok and guarded and R != C):
            continue
        kind = fn.mod.callee_cname(c)
        length = None
        if kind == "memchr":
            # length = end - cursor, end = start + len  (ptrtoint difference)
            e = M.match(("bin", "sub", ("cast", "ptrtoint", ("bind", "end")), ("cast", "ptrtoint", ("inst", ph.id))), c.ops[2], {})
            if e is None:
                # or: len - (cursor - start)
                e2 = M.match(("bin", "sub", ("bind", "len"), ("bin", "sub", ("cast", "ptrtoint", ("inst", ph.id)), ("cast", "ptrtoint", ("bind", "base")))), c.ops[2], {})
                def same_ptr(a, b):
                    a, b = M.strip(a, ("bitcast",)), M.strip(b, ("bitcast",))
                    if a == b or M.equiv(a, b):
                        return True
                    da, db = fn.defn(a), fn.defn(b)
                    # two loads of one pointer field (the buffer's address re-read inside the loop; the loop's only store writes a byte of the buffer)
                    return da is not None and db is not None and not da.is_param and not db.is_param and da.op == "load" and db.op == "load" and \
                        M.strip(da.ops[0], ("bitcast",)) == M.strip(db.ops[0], ("bitcast",)) and da.ty == db.ty
                if e2 is not None and same_ptr(e2["base"], ins[0]):
                    sr.kind, sr.start, sr.length, sr.byte, sr.repl = kind, ins[0], e2["len"], C, R
                    out.append(sr)
                continue
            eg = fn.defn(M.strip(e["end"], ("bitcast",)))
            if eg is None or eg.is_param or eg.op != "getelementptr" or M.strip(eg.ops[0], ("bitcast",)) != M.strip(ins[0], ("bitcast",)):
                continue
            idx = [st_["idx"] for st_ in eg.steps if "idx" in st_]
            if len(idx) != 1:
                continue
            length = idx[0]
        elif R == 0 or C == 0:
            continue
        sr.kind, sr.start, sr.length, sr.byte, sr.repl = kind, ins[0], length, C, R
        out.append(sr)
    return out
