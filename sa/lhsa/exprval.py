"""Evaluation of a branch condition for one concrete value of a few named leaves (e.g. "the OS type byte is 0x4d").

Not an execution: a pure expression evaluator over the SSA definitions a condition is computed from - constants, casts, integer arithmetic and
bit operations (of any width: switch lowering produces wide bit masks), comparisons and selects.  Anything else (a load that is not a named
leaf, a call, a phi) makes the result None: "this branch does not depend on the leaves alone".  Used to ask, for each of the 256 values of a
byte, which blocks remain reachable (feasible_cut)."""
from .facts import is_const, const_val


def _bits(fn, o):
    if is_const(o):
        return o[2] if len(o) > 2 and o[2] else 64
    d = fn.defn(o)
    return (fn.mod.int_bits(d.ty) or 64) if d is not None else 64


def _s(v, w):
    v &= (1 << w) - 1
    return v - (1 << w) if v >> (w - 1) else v


def eval_int(fn, o, leaves, depth=0):
    """value of integer operand o as an unsigned number of its width, given leaves {value id: unsigned value}; None if it depends on anything else"""
    if is_const(o):
        c = const_val(o)
        if c is None:
            return None
        return c & ((1 << _bits(fn, o)) - 1)
    if o[0] != "v" or depth > 40:
        return None
    if o[1] in leaves:
        return leaves[o[1]]
    d = fn.defn(o)
    if d is None or d.is_param:
        return None
    w = fn.mod.int_bits(d.ty) or 64
    m = (1 << w) - 1
    ev = lambda x: eval_int(fn, x, leaves, depth + 1)
    if d.op in ("zext", "trunc", "bitcast", "freeze"):
        a = ev(d.ops[0])
        return None if a is None else a & m
    if d.op == "sext":
        a = ev(d.ops[0])
        return None if a is None else _s(a, _bits(fn, d.ops[0])) & m
    if d.op in ("add", "sub", "mul", "and", "or", "xor", "shl", "lshr", "ashr", "udiv", "urem"):
        a, b = ev(d.ops[0]), ev(d.ops[1])
        if a is None or b is None:
            # x & 0 and the like are not worth it
            return None
        if d.op == "add":
            return (a + b) & m
        if d.op == "sub":
            return (a - b) & m
        if d.op == "mul":
            return (a * b) & m
        if d.op == "and":
            return a & b
        if d.op == "or":
            return a | b
        if d.op == "xor":
            return a ^ b
        if d.op == "shl":
            return (a << b) & m if b < w else None
        if d.op == "lshr":
            return a >> b if b < w else None
        if d.op == "ashr":
            return (_s(a, w) >> b) & m if b < w else None
        if d.op == "udiv":
            return a // b if b else None
        if d.op == "urem":
            return a % b if b else None
    if d.op == "icmp":
        a, b = ev(d.ops[0]), ev(d.ops[1])
        if a is None or b is None:
            return None
        wa = _bits(fn, d.ops[0]) if not is_const(d.ops[0]) else _bits(fn, d.ops[1])
        sa, sb = _s(a, wa), _s(b, wa)
        a &= (1 << wa) - 1
        b &= (1 << wa) - 1
        p = d.d.get("pred")
        r = {"eq": a == b, "ne": a != b, "ult": a < b, "ule": a <= b, "ugt": a > b, "uge": a >= b,
             "slt": sa < sb, "sle": sa <= sb, "sgt": sa > sb, "sge": sa >= sb}.get(p)
        return None if r is None else int(r)
    if d.op == "select":
        c = ev(d.ops[0])
        if c is None:
            return None
        return ev(d.ops[1] if c else d.ops[2])
    return None


def feasible_cut(fn, leaves):
    """edges that cannot be taken when the leaves have the given values: the not-taken successors of every conditional branch or switch whose
    condition is determined by the leaves"""
    cut = set()
    for b in fn.blocks:
        t = b.term
        if t is None or len(b.succs) < 2:
            continue
        if t.op == "br" and t.ops:
            c = eval_int(fn, t.ops[0], leaves)
            if c is None:
                continue
            tgt = list(t.succs or [])
            if len(tgt) != 2:
                continue
            taken = tgt[0] if c else tgt[1]
            cut |= {(b.id, s) for s in b.succs if s != taken}
        elif t.op == "switch":
            c = eval_int(fn, t.ops[0], leaves)
            if c is None:
                continue
            cases = t.d.get("cases") or []
            taken = t.d.get("default")
            for cv, tb in cases:
                if (cv & ((1 << _bits(fn, t.ops[0])) - 1)) == c:
                    taken = tb
            if taken is None:
                continue
            cut |= {(b.id, s) for s in b.succs if s != taken}
    return cut


def reachable_under(fn, leaves, target, start=0):
    """is block `target` reachable from `start` when the leaves have the given values?  Like feasible_cut, but a condition may also depend on
    a phi of its own block, whose value is fixed by the edge the block was entered through (the status variable idiom: `ok = 1` on some
    arms of a switch, `ok = 0` on the others, then `if (ok)`)."""
    seen = set()
    work = [(start, None)]
    while work:
        b, p = work.pop()
        if (b, p) in seen:
            continue
        seen.add((b, p))
        if b == target:
            return True
        blk = fn.blocks[b]
        env = dict(leaves)
        if p is not None:
            for i in blk.insts:
                if i.op != "phi":
                    break
                for v, pb in i.incoming:
                    if pb == p:
                        x = eval_int(fn, v, leaves)
                        if x is not None:
                            env[i.id] = x
        t = blk.term
        succs = list(blk.succs)
        if t is not None and len(succs) >= 2:
            if t.op == "br" and t.ops:
                c = eval_int(fn, t.ops[0], env)
                tg = list(t.succs or [])
                if c is not None and len(tg) == 2:
                    succs = [tg[0] if c else tg[1]]
            elif t.op == "switch":
                c = eval_int(fn, t.ops[0], env)
                if c is not None:
                    taken = t.d.get("default")
                    for cv, tb in t.d.get("cases") or []:
                        if (cv & ((1 << _bits(fn, t.ops[0])) - 1)) == c:
                            taken = tb
                    if taken is not None:
                        succs = [taken]
        for s in succs:
            work.append((s, b))
    return False
