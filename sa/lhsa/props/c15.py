"""C15 - members are independent of how other members were skipped, read or checked.

Decided (claimed in part):
 R1 no shared mutable state in lib/: every global / static local defined by the
    library is never written (so readers are independent, also across threads), and
    the library calls no non-reentrant libc function;
 R2 sticky end: lha_reader_next_file returns non-NULL only if the state is not EOF,
    the state is written only by the constructor and next_file;
 R3 skip wiring: before the next header is read the unread remainder of the current
    member is skipped; curr_file_remaining is initialised from compressed_length and
    decreased by exactly the number of compressed bytes handed out.
R4 the basic reader's compressed stream is opened only while the current entry is
    NORMAL; decoder slots are written only by open/close/new; close_decoder nulls both;
    next_file closes the decoder before any change of entry.
Not decided: the sequence semantics of re-presented directories / deferred symlinks
under the three policies (a property of call histories).
"""
from ..context import Context
from ..report import Report
from ..facts import Facts, Matcher, ANY, is_const, const_val, describe, describe_fact
from ..rules import (require_on_success, guarded_site, success_edges, facts_for_success, stores_to_field, rets)
from ..mem import root, derived_values
from ..callgraph import CallGraph

RD, BR, HDR = "LHAReader", "LHABasicReader", "LHAFileHeader"
NON_REENTRANT = {"strtok", "localtime", "gmtime", "asctime", "ctime", "rand", "srand", "strerror", "setlocale", "tmpnam",
                 "readdir", "getpwnam", "getpwuid", "getgrnam", "getgrgid", "getlogin", "ttyname", "basename", "dirname",
                 "getenv", "putenv", "setenv", "strsignal", "ecvt", "fcvt", "gcvt", "l64a", "lgamma", "drand48", "lrand48",
                 "getc_unlocked", "putc_unlocked", "getchar_unlocked", "putchar_unlocked", "signal", "umask", "chdir"}
READONLY_CALLEES = {"strcmp", "strncmp", "memcmp", "strlen", "strchr", "strrchr", "printf", "fprintf", "puts"}


def const_refs(o, acc):
    """global names referenced by a (constant) operand"""
    if o[0] == "gv":
        acc.add(o[1])
    elif o[0] == "ce":
        for x in o[1].ops:
            const_refs(x, acc)


def advance_rules(rep, ctx, mod, prefix=""):
    """R7: the reader takes the next member from the input exactly when the entry it presented last was the input's own (or nothing yet);
       R7b: a directory is 'ended' by the first entry whose path does not start with the WHOLE path of the directory on top of the stack.
       (Also run inside C06: a member dropped or a directory re-presented late changes the extracted tree.)"""
    from ..paths import PathStates, holds, refuted, show
    rid = rep.rule(prefix + "R7", "lha_reader_next_file advances the basic reader exactly when the last entry was START or NORMAL: a re-presented directory or a deferred link "
                                  "never consumes a pending member, and a member is never presented twice", 2)
    nf = rep.need(rid, mod.fn("lha_reader_next_file"), "function lha_reader_next_file")
    START, NORMAL = mod.enums.get("CURR_FILE_START"), mod.enums.get("CURR_FILE_NORMAL")
    if nf and START is not None and NORMAL is not None:
        F = ctx.facts(nf)
        M = Matcher(nf)
        ctype = ("load", ("field", RD, "curr_file_type", ("param", 0)))
        calls = list(nf.calls("lha_basic_reader_next_file"))
        rep.check(rid, len(calls) == 1, "one advance site", nf.file, "%d" % len(calls), function=nf.cname, obj="sites")
        inside = F.edges_value_in(ctype, {START, NORMAL})            # edges on which the type is known to be START or NORMAL (if-chains and switches alike)
        def refuted_on(b_, s_, k):
            for f in F.on_edge(b_, s_):          # facts available on the edge (the test of START may lie on an earlier edge than that of NORMAL)
                if M.match(ctype, f[1], {}) is None:
                    continue
                if (f[0] == "ne" and is_const(f[2]) and const_val(f[2]) == k) or (f[0] == "eq" and is_const(f[2]) and const_val(f[2]) != k) or \
                        (f[0] == "in" and k not in f[2][1]):
                    return True
            return False
        outside = {(b_.id, s_) for b_ in nf.blocks for s_ in b_.succs if refuted_on(b_.id, s_, START) and refuted_on(b_.id, s_, NORMAL)}
        for c in calls:
            fs = F.at_inst(c)
            ok = M.find_fact(("eq", ctype, START), fs)[0] is not None or M.find_fact(("eq", ctype, NORMAL), fs)[0] is not None or \
                not F.reaches_avoiding(0, c.block.id, inside)
            rep.check(rid, ok, "the input is advanced only under curr_file_type == START or == NORMAL", c.where(),
                      None if ok else "the advance is reachable without that test: after a re-presented directory (or a deferred link) the pending member would be skipped",
                      function=nf.cname, obj="advance-only")
            # ... and always then: the selection of the next entry (the stores to curr_file) is reachable round the call only across an edge
            # that excludes START and NORMAL
            cut = {(c.block.id, x) for x in c.block.succs} | set(outside)
            sts = [st for st in stores_to_field(mod, RD, "curr_file", [nf]) if st.block.id != c.block.id]
            bad = [st for st in sts if F.reaches_avoiding(0, st.block.id, cut)]
            rep.check(rid, not bad and bool(sts), "the advance is bypassed only when the last entry was neither START nor NORMAL", c.where(),
                      None if not bad else "the next entry can be selected at %s without advancing although the last entry may have been START / NORMAL: that member would be presented again" % bad[0].where(),
                      function=nf.cname, obj="advance-always")
    rid = rep.rule(prefix + "R7b", "end_of_top_dir compares the next entry's path with the whole path of the directory on top of the stack (prefix length = its strlen)", 1)
    et = rep.need(rid, mod.fn("end_of_top_dir"), "function end_of_top_dir")
    if et:
        M = Matcher(et)
        top = ("load", ("field", HDR, "path", ("load", ("field", RD, "dir_stack", ANY))))
        cs = [c for c in et.insts() if c.op == "call" and mod.callee_cname(c) in ("strncmp", "memcmp")]
        rep.check(rid, len(cs) == 1, "one prefix comparison", et.file, "%d" % len(cs), function=et.cname, obj="sites")
        for c in cs:
            a_top = [k for k in (0, 1) if M.match(top, c.ops[k], {}) is not None]
            n = et.defn(M.strip(c.ops[2]))
            okn = n is not None and not n.is_param and n.op == "call" and mod.callee_cname(n) == "strlen" and M.match(top, n.ops[0], {}) is not None
            if len(a_top) == 1 and not okn and n is not None and not n.is_param and n.op == "load":
                # a cached length: a reader field that is only ever assigned 0 or strlen(path) of a header that is (becoming) the top of the stack
                from ..ir import field_of_gep
                g_ = et.defn(n.ops[0])
                fo_ = field_of_gep(mod, g_) if g_ is not None and not g_.is_param and g_.op == "getelementptr" else None
                if fo_ and fo_[0] == RD:
                    sts_ = [st for f_ in mod.defined() for st in stores_to_field(mod, fo_[0], fo_[1], [f_])]
                    def top_len(st):
                        Ms = Matcher(st.fn)
                        Fs = ctx.facts(st.fn)
                        for s_, _fs in Fs.sources(st.ops[0]):
                            if is_const(s_) and const_val(s_) == 0:
                                continue
                            e_ = Ms.match(("call", "strlen", [("load", ("field", HDR, "path", ("bind", "h")))]), s_, {})
                            if e_ is None:
                                return False
                            h_ = Ms.strip(e_["h"], ("bitcast",))
                            # h is what this function stores to dir_stack, or the current dir_stack
                            is_top = Ms.match(("load", ("field", RD, "dir_stack", ANY)), e_["h"], {}) is not None or \
                                any(Ms.strip(x.ops[0], ("bitcast",)) == h_ or Ms.equiv(x.ops[0], e_["h"]) for x in stores_to_field(mod, RD, "dir_stack", [st.fn]))
                            if not is_top:
                                return False
                        return True
                    okn = bool(sts_) and all(top_len(st) for st in sts_)
            rep.check(rid, len(a_top) == 1 and okn, "strncmp(next->path, top->path, strlen(top->path))", c.where(),
                      None if (len(a_top) == 1 and okn) else "the compared length is not the length of the directory's own path: a sibling whose name merely begins alike is taken to lie inside it "
                      "(or an entry inside it to lie outside), and the directory is re-presented at the wrong point", function=et.cname, obj="prefix-len")


        # R7c: once the input is exhausted every directory still on the stack is handed out: end_of_top_dir may answer "not yet" (0) only when
        # the stack is empty or an entry is still pending in the input - whatever the directory policy (it can be changed between members)
        rid = rep.rule(prefix + "R7c", "end_of_top_dir answers 0 only with an empty directory stack or with an input entry still pending", 2)
        F = ctx.facts(et)
        inp = ("call", "lha_basic_reader_curr_file", [ANY])
        nzero = 0
        for r in rets(et):
            for s_, fs in F.sources(r.ops[0]):
                if is_const(s_) and const_val(s_) == 0:
                    nzero += 1
                    ok = M.find_fact(("eq", ("load", ("field", RD, "dir_stack", ANY)), 0), fs)[0] is not None or M.find_fact(("ne", inp, 0), fs)[0] is not None
                    rep.check(rid, ok, "a 'not yet' answer lies behind dir_stack == NULL or a pending input entry", r.where(),
                              None if ok else "0 can be returned with directories on the stack and the input exhausted: they are never re-presented, their permissions and times never applied",
                              function=et.cname, obj="not-yet")
                elif not is_const(s_):
                    # a computed answer (the prefix comparison): it is reached only with a pending entry
                    ok = M.find_fact(("ne", inp, 0), fs)[0] is not None
                    rep.check(rid, ok, "the computed answer is used only with a pending input entry", r.where(), None, function=et.cname, obj="computed")
        rep.check(rid, nzero >= 1, "'not yet' answers found", et.file, "%d" % nzero, function=et.cname, obj="sites")

        # R7d: which entries keep the top directory open.  An entry without a path lies in the archive root, outside every directory; an entry
        # with a path keeps it open exactly when the prefix comparison says "equal".
        rid = rep.rule(prefix + "R7d", "end_of_top_dir: an entry without a path ends the top directory, and the computed answer is `strncmp(...) != 0`", 2)
        npath = ("load", ("field", "LHAFileHeader", "path", inp))
        nd = 0
        for r in rets(et):
            for s_, fs in F.sources(r.ops[0]):
                if is_const(s_) and const_val(s_) == 0:
                    bad = M.find_fact(("eq", npath, 0), fs)[0] is not None
                    nd += 1
                    rep.check(rid, not bad, "'not yet' is not answered for a pending entry that has no path", r.where(),
                              None if not bad else "an entry stored in the archive root (path == NULL) is treated as lying inside the directory on top of the stack: "
                              "the directory is re-presented late, after members that do not belong to it", function=et.cname, obj="rootless")
                elif not is_const(s_):
                    d = et.defn(M.strip(s_))
                    okc = d is not None and not d.is_param and d.op == "icmp" and d.pred == "ne" and is_const(d.ops[1]) and const_val(d.ops[1]) == 0 and \
                        M.match(("call", "strncmp", [ANY, ANY, ANY]), d.ops[0], {}) is not None
                    oknn = M.find_fact(("ne", npath, 0), fs)[0] is not None
                    nd += 1
                    rep.check(rid, okc and oknn, "the computed answer is `strncmp(next->path, top->path, n) != 0`, used only when next->path != NULL", r.where(),
                              None if okc and oknn else "computed as %s" % describe(et, s_), function=et.cname, obj="computed-form")
        rep.check(rid, nd >= 2, "answers of end_of_top_dir examined", et.file, "%d" % nd, function=et.cname, obj="sites-d")


def run(tier, seed):
    rep = Report("C15", tier, "other",
                 "Static global-state and wiring analysis: (R1) every global and function-local static defined by lib/ is never "
                 "the target of a store, memcpy, memset or a call that may write it, and no struct type used for a library "
                 "table is written through any pointer, and lib/ calls no non-reentrant libc function - so two readers share no "
                 "mutable state, interleaved or on different threads; (R2) the end state is sticky; (R3) the unread remainder of a "
                 "member is skipped before the next header is read and the remaining-bytes counter is decreased by exactly the "
                 "compressed bytes handed out; (R4) the member's compressed stream is opened only while the current entry is the basic "
                 "reader's own member and no decoder survives a change of entry; (R5) the lead-in buffer's capacity does not exceed the least number of bytes "
                 "a successful header read consumes, so the skip never runs with buffered bytes; a NULL from the basic reader leaves no current entry; (R6) every reader field written beneath a decode operation and read back is reset on every path through lha_reader_next_file (only the two documented lists persist). (R7) the basic reader is advanced exactly under curr_file_type in {START, NORMAL}; (R7b) the end-of-directory test compares over exactly strlen(top->path) bytes of the top directory's own path; (R7c) 'nothing to present' only with an empty stack or pending input. Not decided: the full order in which directories and deferred symlinks are re-presented "
                 "(a property of call histories).")
    with Context(tier) as ctx:
        from .. import selfcheck
        selfcheck.run(ctx, rep, ['facts'])
        mod = ctx.plain()
        cg = CallGraph(mod)
        lib_files = set(u.split("/")[1] for u in ctx.views.units if u.startswith("lib/")) | {"bit_stream_reader.c", "tree_decode.c", "lh_new_decoder.c", "pma_common.c"}
        lib_fns = [f for f in mod.defined() if f.file.split("/")[-1] in lib_files]
        rep.analysed = {"view": "plain", "lib_functions": len(lib_fns), "functions": len(mod.defined()), "globals": len(mod.globals)}

        # ---- R1: globals -------------------------------------------------------------------------------
        rid = rep.rule("R1", "no global or static local defined in lib/ is ever written", 30)
        # collect writes by root object over the whole program
        written = {}     # global name -> [inst]
        escapes = {}     # global name -> [inst]
        for fn in mod.defined():
            M = Matcher(fn)
            for i in fn.insts():
                ptrs = []
                if i.op == "store":
                    ptrs.append((i.ops[1], "store"))
                    acc = set()
                    const_refs(i.ops[0], acc)
                    for g in acc:
                        escapes.setdefault(g, []).append(i)
                elif i.op == "call":
                    cn = mod.callee_cname(i) or ""
                    if cn.startswith("llvm.memcpy") or cn.startswith("llvm.memmove") or cn.startswith("llvm.memset") or cn in ("memcpy", "memset", "memmove", "strcpy", "strcat", "sprintf"):
                        ptrs.append((i.ops[0], cn))
                        rest = i.ops[1:]
                    else:
                        rest = i.ops
                    if cn not in READONLY_CALLEES and not cn.startswith("llvm.dbg"):
                        for a in rest:
                            acc = set()
                            r = root(fn, a)
                            if r[0] == "global":
                                acc.add(r[1])
                            const_refs(a, acc)
                            for g in acc:
                                if not (cn.startswith("llvm.mem") and a is i.ops[1]):
                                    escapes.setdefault(g, []).append(i)
                elif i.op == "ret" and i.ops:
                    r = root(fn, i.ops[0])
                    if r[0] == "global":
                        escapes.setdefault(r[1], []).append(i)
                for p, how in ptrs:
                    r = root(fn, p)
                    if r[0] == "global":
                        written.setdefault(r[1], []).append(i)
        # struct types of library tables: no store through a field of these types anywhere
        table_struct_writes = {}
        for fn in mod.defined():
            for i in fn.insts():
                if i.op == "store":
                    d = fn.defn(i.ops[1])
                    while d is not None and not d.is_param and d.op == "bitcast":
                        d = fn.defn(d.ops[0])
                    if d is not None and not d.is_param and d.op == "getelementptr" and d.steps:
                        for st in d.steps:
                            if st["k"] == "field":
                                table_struct_writes.setdefault(mod.struct_cname(st["struct"]), []).append(i)
        nglob = 0
        for name, g in sorted(mod.globals.items()):
            if g.get("decl"):
                continue
            f = g.get("file")
            inlib = (f is not None and f.split("/")[-1] in lib_files)
            if f is None:
                # string literals and compiler temporaries: constant by construction
                if g["constant"]:
                    continue
                rep.violation(rid, "global %s without debug info is not constant" % name, name, "cannot attribute to a unit", function="global", obj=name)
                continue
            if not inlib:
                continue
            nglob += 1
            where = "%s:%s" % (f, g.get("line"))
            w = written.get(name, [])
            if w:
                rep.violation(rid, "global %s is written" % g.get("cname", name), w[0].where(), "store/copy into library global", function="global", obj=g.get("cname", name))
                continue
            if g["constant"]:
                rep.ok(rid, "%s: constant, never written" % g.get("cname", name), None, where)
                continue
            # non-const object: its address must not reach a writer.  Struct tables: the struct type is never
            # written through any pointer in the program; scalar tables: address does not escape.
            sname = None
            t = g["ty"]
            while t.startswith("["):
                t = t[t.index(" x ") + 3:-1]
            if t.startswith("%struct") or t.startswith("%union"):
                sname = mod.struct_cname(t)
            if sname and not sname.startswith("anon"):
                tw = table_struct_writes.get(sname, [])
                rep.check(rid, not tw, "%s: objects of type %s are never written through any pointer" % (g.get("cname", name), sname), where,
                          "written at %s" % tw[0].where() if tw else None, function="global", obj=g.get("cname", name))
            else:
                esc = escapes.get(name, [])
                tw = table_struct_writes.get(sname, []) if sname else []
                rep.check(rid, not esc and not tw, "%s: address never escapes to a store or a non-read-only callee" % g.get("cname", name), where,
                          "escapes at %s" % esc[0].where() if esc else ("anonymous struct written at %s" % tw[0].where() if tw else None),
                          function="global", obj=g.get("cname", name))
        rep.extra["lib_globals"] = nglob
        rid = rep.rule("R1b", "lib/ calls no non-reentrant libc function", 1)
        bad = 0
        ncalls = 0
        for fn in lib_fns:
            for c in fn.insts():
                if c.op == "call" and c.callee:
                    ncalls += 1
                    if c.callee in NON_REENTRANT:
                        bad += 1
                        rep.violation(rid, "call to %s in %s" % (c.callee, fn.cname), c.where(), "non-reentrant libc function in the library", function=fn.cname, obj=c.callee)
        if not bad:
            rep.ok(rid, "%d direct call sites in lib/ checked against the deny-list" % ncalls, None, "lib/")

        # ---- R2: sticky end ------------------------------------------------------------------------------
        rid = rep.rule("R2", "lha_reader_next_file returns a header only if curr_file_type != EOF at entry; EOF is stored only when nothing is left", 3)
        nf = rep.need(rid, mod.fn("lha_reader_next_file"), "function lha_reader_next_file")
        EOF = mod.enums.get("CURR_FILE_EOF")
        if EOF is None:
            rep.broken(rid, "enumerator CURR_FILE_EOF not found")
        if nf and EOF is not None:
            F = ctx.facts(nf)
            M = Matcher(nf)
            ctype = ("load", ("field", RD, "curr_file_type", ("param", 0)))
            require_on_success(rep, rid, ctx, nf, [("curr_file_type != CURR_FILE_EOF", ("ne", ctype, EOF))])
            # that test reads the state before any store to it
            sts = stores_to_field(mod, RD, "curr_file_type", [nf])
            for v, pb, b in success_edges(F, nf)[:1]:
                f, _ = M.find_fact(("ne", ctype, EOF), facts_for_success(F, nf, v, pb, b))
                if f is not None:
                    ld = nf.defn(M.strip(f[1]))
                    early = [s for s in sts if nf.dominates(s.block.id, ld.block.id) and not (s.block.id == ld.block.id and s.idx > ld.idx)]
                    rep.check(rid, not early, "the EOF test reads the state as left by the previous call", ld.where(), None, function=nf.cname, obj="eof-test-first")
            for s in sts:
                if is_const(s.ops[0]) and const_val(s.ops[0]) == EOF:
                    guarded_site(rep, rid, ctx, s, [("curr_file == NULL", ("eq", ("load", ("field", RD, "curr_file", ("param", 0))), 0)),
                                                    ("deferred_symlinks == NULL", ("eq", ("load", ("field", RD, "deferred_symlinks", ("param", 0))), 0))])
            writers = {s.fn.cname for f in mod.defined() for s in stores_to_field(mod, RD, "curr_file_type", [f])}
            rep.check(rid, writers <= {"lha_reader_next_file", "lha_reader_new"}, "only the constructor and next_file write curr_file_type", nf.file,
                      "writers %s" % sorted(writers), function="curr_file_type", obj="writers")
            # the input is advanced only from START or NORMAL
            for c in nf.calls("lha_basic_reader_next_file"):
                START, NORMAL = mod.enums.get("CURR_FILE_START"), mod.enums.get("CURR_FILE_NORMAL")
                fs = F.at_inst(c)
                ok = M.find_fact(("eq", ctype, START), fs)[0] is not None or M.find_fact(("eq", ctype, NORMAL), fs)[0] is not None
                # disjunction: use edges
                cut = F.edges_value_in(ctype, {START, NORMAL})
                okc = not F.reaches_avoiding(0, c.block.id, cut)
                rep.check(rid, ok or okc, "input advances only when the last entry was START or NORMAL", c.where(), None, function=nf.cname, obj="advance")

        # ---- R3: skip wiring ---------------------------------------------------------------------------------
        rid = rep.rule("R3", "lha_basic_reader_next_file: the next header is read only after skip(stream, curr_file_remaining) if there was a current member", 3)
        bn = rep.need(rid, mod.fn("lha_basic_reader_next_file"), "function lha_basic_reader_next_file")
        if bn:
            F = ctx.facts(bn)
            M = Matcher(bn)
            skips = [c for c in bn.calls("lha_input_stream_skip")]
            rep.check(rid, len(skips) == 1 and M.match(("load", ("field", BR, "stream", ("param", 0))), skips[0].ops[0], {}) is not None and
                      M.match(("load", ("field", BR, "curr_file_remaining", ("param", 0))), skips[0].ops[1], {}) is not None,
                      "skip(reader->stream, reader->curr_file_remaining)", bn.file, None, function=bn.cname, obj="skip-args")
            if len(skips) == 1:
                # ... at its full width: a count that passes through an `int` on the way is another number for members of 2 GiB and more, and
                # then what is skipped depends on how much of the member the caller happened to read
                from ..rules import min_width_through_casts
                wmin, origin = min_width_through_casts(bn, skips[0].ops[1])
                od = bn.defn(origin)
                ow = (mod.int_bits(od.ty) if od is not None else None) or 64
                rep.check(rid, wmin is None or wmin >= ow, "the skip count reaches lha_input_stream_skip without being narrowed", skips[0].where(),
                          None if (wmin is None or wmin >= ow) else "passes through a %d-bit type on its way from a %d-bit counter" % (wmin, ow), function=bn.cname, obj="skip-width")
            for rd in bn.calls("lha_file_header_read"):
                cut = F.edges_with_fact(("eq", ("load", ("field", BR, "curr_file", ("param", 0))), 0))
                for sk in skips:
                    cut |= {(sk.block.id, s) for s in sk.block.succs}
                # the curr_file == NULL edge must be the test at entry (before curr_file is cleared)
                rep.check(rid, not F.reaches_avoiding(0, rd.block.id, cut), "every path to the header read crosses 'no current member' or the skip call", rd.where(), None,
                          function=bn.cname, obj="skip-before-read")
                rep.check(rid, M.match(("load", ("field", BR, "stream", ("param", 0))), rd.ops[0], {}) is not None, "header is read from reader->stream", rd.where(), None,
                          function=bn.cname, obj="read-stream")
            # a failed skip ends the archive
            for sk in skips:
                fe = F.edges_with_fact(("eq", ("inst", sk.id), 0))
                ones = [s for s in stores_to_field(mod, BR, "eof", [bn]) if const_val(s.ops[0]) == 1]
                ok = bool(fe) and all(any(o.block.id == s for o in ones) for (_, s) in fe)
                rep.check(rid, ok, "failed skip sets eof = 1", sk.where(), None, function=bn.cname, obj="skip-fail")
            sts = stores_to_field(mod, BR, "curr_file_remaining", [bn])
            # exactly one store gives the counter a member's size: the compressed length of the header just read; any other store is a reset to 0
            # (nothing left of a member that has been skipped or abandoned)
            inits = [x for x in sts if not (is_const(x.ops[0]) and const_val(x.ops[0]) == 0)]
            rep.check(rid, len(inits) == 1 and M.match(("load", ("field", HDR, "compressed_length", ANY)), inits[0].ops[0], {}) is not None,
                      "curr_file_remaining = curr_file->compressed_length", bn.file, None, function=bn.cname, obj="init-remaining")
        rid = rep.rule("R3b", "lha_basic_reader_read_compressed: bytes = min(buf_len, remaining); remaining -= bytes exactly when those bytes were read; returns bytes", 4)
        rc = rep.need(rid, mod.fn("lha_basic_reader_read_compressed"), "function lha_basic_reader_read_compressed")
        if rc:
            F = ctx.facts(rc)
            M = Matcher(rc)
            rem = ("load", ("field", BR, "curr_file_remaining", ("param", 0)))
            sts = stores_to_field(mod, BR, "curr_file_remaining", [rc])
            reads = list(rc.calls("lha_input_stream_read"))
            rep.check(rid, len(sts) == 1 and len(reads) == 1, "one read and one counter update", rc.file, None, function=rc.cname, obj="sites")
            if len(sts) == 1 and len(reads) == 1:
                e = M.match(("bin", "sub", rem, ("bind", "n")), sts[0].ops[0], {})
                rep.check(rid, e is not None and M.strip(reads[0].ops[2]) == e["n"], "remaining -= bytes, the same count passed to the stream read", sts[0].where(), None,
                          function=rc.cname, obj="dec")
                guarded_site(rep, rid, ctx, sts[0], [("stream read succeeded", ("ne", ("inst", reads[0].id), 0))])
                rep.check(rid, M.strip(reads[0].ops[1], ("bitcast",)) == ("v", rc.params[1].id), "data goes to the caller's buffer", reads[0].where(), None, function=rc.cname, obj="buf")
                if e is not None:
                    for v, pb, b in success_edges(F, rc):
                        rep.check(rid, M.strip(v) == e["n"], "the count returned is that same count", rc.file, describe(rc, v), function=rc.cname, obj="ret")
                    for s, fs in F.sources(e["n"]):
                        if M.match(("param", 2), s, {}) is not None:
                            f, _ = M.find_fact(("ule", ("param", 2), rem), fs)
                            rep.check(rid, f is not None, "bytes = buf_len only if buf_len <= remaining", rc.file, None, function=rc.cname, obj="min")
                        else:
                            rep.check(rid, M.match(rem, s, {}) is not None, "otherwise bytes = remaining", rc.file, describe(rc, s), function=rc.cname, obj="min2")

        # ---- R4: member bytes are consumed only for the NORMAL current entry -------------------------------
        rid = rep.rule("R4", "the compressed stream of the basic reader is opened only while the current entry is the basic reader's own member (NORMAL), "
                             "and a decoder never survives a change of entry", 6)
        NORMAL = mod.enums.get("CURR_FILE_NORMAL")
        if NORMAL is None:
            rep.broken(rid, "enumerator CURR_FILE_NORMAL not found")
        rd_fns = [f for f in mod.defined() if f.file.endswith("lha_reader.c")]
        opens = [c for f in rd_fns for c in f.insts() if c.op == "call" and mod.callee_cname(c) in ("lha_basic_reader_decode", "lha_basic_reader_read_compressed")]
        if not opens:
            rep.broken(rid, "no call to lha_basic_reader_decode in lha_reader.c")
        def entry_kind_known(fn, inst, depth=0):
            """'curr_file_type == NORMAL' is a fact at inst, or (static helper) at every call site of the enclosing function; the state is not
            written in between because only next_file and the constructor write it (R2) and neither reaches these sites"""
            pk = [k for k, pp in enumerate(fn.params) if mod.struct_cname(pp.ty) == RD]
            if not pk:
                return False, "enclosing function %s has no LHAReader parameter" % fn.cname
            F, M = ctx.facts(fn), Matcher(fn)
            pat = ("eq", ("load", ("field", RD, "curr_file_type", ("param", pk[0]))), NORMAL)
            f, _ = M.find_fact(pat, F.at_inst(inst))
            if f is not None:
                return True, "%s: %s" % (fn.cname, describe_fact(fn, f))
            callers = [(g, c2) for g in mod.defined() for c2 in g.insts() if c2.op == "call" and mod.callee_cname(c2) == fn.cname]
            if depth >= 2 or not callers or not fn.internal:
                return False, "site in %s is reachable without the fact curr_file_type == CURR_FILE_NORMAL; facts there: %s" % (
                    fn.cname, sorted({describe_fact(fn, x) for x in F.at_inst(inst)})[:8])
            why = []
            for g, c2 in callers:
                ok2, w = entry_kind_known(g, c2, depth + 1)
                if not ok2:
                    return False, w
                why.append(w)
            return True, "; ".join(why)
        for c in opens:
            if NORMAL is None:
                break
            ok, why = entry_kind_known(c.fn, c)
            rep.check(rid, ok, "%s: call %s only while reader->curr_file_type == CURR_FILE_NORMAL" % (c.fn.cname, mod.callee_cname(c)), c.where(), why,
                      function=c.fn.cname, obj="open")
        # decoder slots: written only by open_decoder / close_decoder / constructor
        for fld in ("decoder", "inner_decoder"):
            writers = {s.fn.cname for f in mod.defined() for s in stores_to_field(mod, RD, fld, [f])}
            rep.check(rid, writers <= {"open_decoder", "close_decoder", "lha_reader_new"}, "reader->%s is written only by open_decoder, close_decoder and the constructor" % fld,
                      "lib/lha_reader.c", "writers %s" % sorted(writers), function=fld, obj="writers")
        cd = rep.need(rid, mod.fn("close_decoder"), "function close_decoder")
        if cd:
            Fc = ctx.facts(cd)
            Mc = Matcher(cd)
            # on every return both slots are NULL: each return edge carries 'slot == NULL' or is dominated by a store of NULL with no later non-NULL store
            for fld in ("decoder", "inner_decoder"):
                slot = ("load", ("field", RD, fld, ("param", 0)))
                nulls = [s for s in stores_to_field(mod, RD, fld, [cd]) if is_const(s.ops[0]) and const_val(s.ops[0]) == 0]
                nonnull = [s for s in stores_to_field(mod, RD, fld, [cd]) if not (is_const(s.ops[0]) and const_val(s.ops[0]) == 0)]
                cut = Fc.edges_with_fact(("eq", slot, 0))
                for s in nulls:
                    cut |= {(s.block.id, t) for t in s.block.succs}
                ok = not nonnull
                for r in rets(cd):
                    if any(s.block.id == r.block.id for s in nulls):
                        continue
                    if Fc.reaches_avoiding(0, r.block.id, cut):
                        ok = False
                rep.check(rid, ok, "close_decoder leaves reader->%s == NULL on every path" % fld, cd.file, None, function=cd.cname, obj="null-" + fld)
        nf = mod.fn("lha_reader_next_file")
        if nf and cd:
            cl = list(nf.calls("close_decoder"))
            eff = [i for i in nf.insts() if (i.op == "store" and i in stores_to_field(mod, RD, "curr_file_type", [nf]) + stores_to_field(mod, RD, "curr_file", [nf]))
                   or (i.op == "call" and mod.callee_cname(i) == "lha_basic_reader_next_file")]
            ok = bool(cl) and all(any(nf.dominates(c.block.id, e.block.id) and (c.block.id != e.block.id or c.idx < e.idx) for c in cl) for e in eff)
            rep.check(rid, ok and bool(eff), "lha_reader_next_file closes the decoder before it advances the input or changes the current entry (%d effect sites)" % len(eff),
                      nf.file, None, function=nf.cname, obj="close-first")
        # ---- R6: member-scoped reader state is reset at every change of entry ----------------------------------------------------------
        # Whatever a decode operation (read / check / extract) writes into the reader must not be visible to the next member, otherwise
        # what was done with member k changes what member k+1 yields.  The fields such operations write are discovered from the call
        # graph; apart from the two documented lists, each must be put back to its constructor value on every path through
        # lha_reader_next_file (directly, through a helper that does so on all of its paths, or found already holding that value).
        rid = rep.rule("R6", "every LHAReader field written beneath lha_reader_read/check/extract (other than the documented dir_stack / deferred_symlinks lists) is reset "
                             "to its initial value on every path through lha_reader_next_file", 2)
        PERSISTENT = {"dir_stack": "documented: extracted directories are re-presented after their contents (END_OF_DIR / END_OF_FILE policies)",
                      "deferred_symlinks": "documented: dangerous symlinks are re-presented at end of archive"}
        ops = [mod.fn(n) for n in ("lha_reader_read", "lha_reader_check", "lha_reader_extract")]
        nf6 = rep.need(rid, mod.fn("lha_reader_next_file"), "function lha_reader_next_file")
        for n, f_ in zip(("lha_reader_read", "lha_reader_check", "lha_reader_extract"), ops):
            rep.need(rid, f_, "function " + n)
        if nf6 and all(ops):
            reach = cg.reachable([f_.name for f_ in ops])
            rdt = mod.types.get("%struct._LHAReader") or {}
            fields = [fd.get("name") for fd in rdt.get("fields", [])]
            scoped = {}
            reach_all = reach | cg.reachable([nf6.name])

            def read_back(fname):
                """is the field read by the reader's operations in a way that can influence them (anything but updating the field itself,
                as a statistics counter would)?"""
                for g in mod.defined():
                    if g.name not in reach_all:
                        continue
                    Mg = Matcher(g)
                    own_stores = {st.id for st in stores_to_field(mod, RD, fname, [g])}
                    for ld in g.insts():
                        if ld.op != "load" or Mg.match(("field", RD, fname, ANY), ld.ops[0], {}) is None:
                            continue
                        seen, todo = set(), [ld.id]
                        while todo:
                            v = todo.pop()
                            if v in seen:
                                continue
                            seen.add(v)
                            for u in g.users(v):
                                if u.op in ("add", "sub", "mul", "zext", "sext", "trunc", "or", "and", "xor", "shl", "lshr"):
                                    todo.append(u.id)
                                elif u.op == "store" and u.id in own_stores and u.ops[0] == ("v", v):
                                    continue
                                else:
                                    return True
                return False
            for fname in fields:
                sts = [st for g in mod.defined() if g.name in reach for st in stores_to_field(mod, RD, fname, [g])]
                if sts and fname not in PERSISTENT and read_back(fname):
                    scoped[fname] = sts
            rep.check(rid, {"decoder", "inner_decoder"} <= set(scoped), "member-scoped fields discovered", nf6.file, "found %s" % sorted(scoped), function="LHAReader", obj="fields")
            memo = {}

            def resets(fn_, fname, depth=0):
                """does fn_ (taking the reader as parameter 0) leave reader-><fname> at 0 on every path to every return?"""
                key = (fn_.name, fname)
                if key in memo:
                    return memo[key]
                memo[key] = False
                Ff, Mf = ctx.facts(fn_), Matcher(fn_)
                fld = ("load", ("field", RD, fname, ("param", 0)))
                cut = set(Ff.edges_with_fact(("eq", fld, 0)))
                nonconst = []
                for st in stores_to_field(mod, RD, fname, [fn_]):
                    if st.ops[0][0] == "null" or (is_const(st.ops[0]) and const_val(st.ops[0]) == 0):
                        cut |= {(st.block.id, x) for x in st.block.succs} | ({(st.block.id, "ret")} if not st.block.succs else set())
                    else:
                        nonconst.append(st)
                if depth < 3:
                    for c in fn_.insts():
                        if c.op == "call" and c.callee and c.ops:
                            g = mod.functions.get(c.callee)
                            a0 = fn_.defn(Mf.strip(c.ops[0], ("bitcast",)))
                            if g is not None and not g.decl and a0 is not None and a0.is_param and a0.index == 0 and g.params and "LHAReader" in (g.params[0].ty or "") \
                                    and resets(g, fname, depth + 1):
                                cut |= {(c.block.id, x) for x in c.block.succs} | ({(c.block.id, "ret")} if not c.block.succs else set())
                ok = not nonconst
                for r in rets(fn_):
                    if (r.block.id, "ret") in cut:
                        continue
                    if r.block.id == 0 or Ff.reaches_avoiding(0, r.block.id, cut):
                        ok = False
                memo[key] = ok
                return ok
            LIFECYCLE = {"lha_reader_new", "lha_reader_free"}

            def coupled(fname):
                """alternative to a reset: the field is a cache of one of the persistent lists - written only where that list is written, and
                every change of the list (outside the reader's constructor/destructor) is accompanied by a write of the field: one that
                dominates the list store, or one that every path from the list store to a return passes.  Returns (list name, None) or
                (None, reason)."""
                why = "it is not written together with a persistent list"
                for L in sorted(PERSISTENT):
                    fst = [st for g in mod.defined() if g.cname not in LIFECYCLE for st in stores_to_field(mod, RD, fname, [g])]
                    if not fst:
                        continue
                    lfn = {}
                    for g in mod.defined():
                        if g.cname in LIFECYCLE:
                            continue
                        ls = stores_to_field(mod, RD, L, [g])
                        if ls:
                            lfn[g.name] = (g, ls)
                    if not lfn or any(st.fn.name not in lfn for st in fst):
                        continue
                    bad = None
                    for g, ls in lfn.values():
                        Fg = ctx.facts(g)
                        fs = [st for st in fst if st.fn is g]
                        cut = set()
                        for st in fs:
                            cut |= {(st.block.id, x) for x in st.block.succs} | ({(st.block.id, "ret")} if not st.block.succs else set())
                        for sl in ls:
                            if any(st.block.id == sl.block.id or g.dominates(st.block.id, sl.block.id) for st in fs):
                                continue
                            if fs and not any((r.block.id, "ret") not in cut and (r.block.id == sl.block.id or Fg.reaches_avoiding(sl.block.id, r.block.id, cut)) for r in rets(g)):
                                continue
                            bad = "reader->%s changes at %s without reader->%s being written on that path" % (L, sl.where().split(" <- ")[0], fname)
                    if bad is None:
                        return L, None
                    why = bad
                return None, why
            for fname in sorted(scoped):
                w = sorted({st.fn.cname for st in scoped[fname]})
                ok = resets(nf6, fname)
                L, why = (None, None) if ok else coupled(fname)
                if L:
                    rep.ok(rid, "reader->%s is a cache of the persistent list reader->%s: written only where the list is, and at every change of the list" % (fname, L), None, nf6.file)
                    continue
                rep.check(rid, ok, "reader->%s (written beneath a decode operation in %s) is reset on every path through lha_reader_next_file" % (fname, ", ".join(w)), nf6.file,
                          None if ok else "some path through lha_reader_next_file (and the helpers it calls with the reader) neither stores 0 to the field nor finds it 0: "
                          "what a decode operation on one member left there is seen by the next; nor is it kept in step with a persistent list (%s)" % why, function=nf6.cname, obj="reset-" + fname)
            for fname, why in sorted(PERSISTENT.items()):
                rep.ok(rid, "reader->%s persists across members by design: %s" % (fname, why), None, nf6.file)

        # ---- R5: the lead-in buffer is empty before any skip ----------------------------------------------------------------------
        # lha_input_stream_skip goes straight to the underlying stream; bytes still waiting in the lead-in buffer would be skipped over
        # *in addition*, so how a member is passed over would change what follows.  It is sound only because every successful header
        # read drains the buffer: the buffer's capacity does not exceed the least number of bytes a successful header read consumes.
        rid = rep.rule("R5", "lead-in capacity <= bytes consumed by any successful header read (so lha_input_stream_skip never runs with buffered bytes)", 2)
        from ..lin import Lin, linform
        cap = None
        st = mod.types.get("%struct._LHAInputStream") or {}
        for fdesc in st.get("fields", []):
            if fdesc.get("name") == "leadin":
                mm = __import__("re").match(r"\[(\d+) x i8\]", fdesc.get("ty", ""))
                cap = int(mm.group(1)) if mm else None
        if cap is None:
            rep.broken(rid, "capacity of LHAInputStream.leadin not found in the type information")
        sk = rep.need(rid, mod.fn("lha_input_stream_skip"), "function lha_input_stream_skip")
        if sk:
            uses = [i for i in sk.insts() if i.op in ("load", "store") and Matcher(sk).match(("field", "LHAInputStream", "leadin_len", ANY), i.ops[0] if i.op == "load" else i.ops[1], {}) is not None]
            rep.extra["skip_accounts_for_leadin"] = bool(uses)
        else:
            uses = []
        mins = {}
        RAWP = ("load", ("field", HDR, "raw_data", ("load", ("param", 0))))
        for lname in ("decode_level0_header", "decode_level2_header", "decode_level3_header"):
            lf = rep.need(rid, mod.fn(lname), "function " + lname)
            if not lf:
                continue
            Fl, Ml = ctx.facts(lf), Matcher(lf)

            def symf(o, Ml=Ml):
                if Ml.match(("load", ("gep", RAWP, [0])), o, {}) is not None:
                    return "h8"
                if Ml.match(("call", "lha_decode_uint16", [("gep", RAWP, [0])]), o, {}) is not None:
                    return "h16"
                if Ml.match(("load", ("field", HDR, "raw_data_len", ("load", ("param", 0)))), o, {}) is not None:
                    return "rawlen"
                return None
            # the first extension on the way to success: total length after it = rawlen + n
            calls = [c for c in lf.calls("extend_raw_data")]
            first = [c for c in calls if not any(o is not c and (lf.dominates(o.block.id, c.block.id) and o.block.id != c.block.id) for o in calls)]
            best = None
            for c in first[:1]:
                n = linform(lf, c.ops[2], symf)
                if n is None:
                    continue
                tot = n.add(Lin(0, {"rawlen": 1}))
                if tot.is_const():
                    best = tot.c
                elif set(tot.t) <= {"h8", "h16"} and sum(tot.t.values()) == 1:
                    hs = [k for k in tot.t][0]
                    # lower bound of the length field among the facts at the call
                    lo = None
                    for f in Fl.at_inst(c):
                        if f[0] in ("uge", "ugt") and symf(Ml.strip(f[1])) == hs or (f[0] in ("uge", "ugt") and linform(lf, f[1], symf) == Lin(0, {hs: 1})):
                            srcs_ = [(x, fs_) for x, fs_ in Fl.sources(f[2]) if x[0] != "undef"]      # an out-parameter left unset on a path that fails anyway
                            vals = [const_val(x) for x, _ in srcs_ if is_const(x)]
                            if vals and len(vals) == len(srcs_):
                                b0 = min(vals) + (1 if f[0] == "ugt" else 0)
                                lo = b0 if lo is None else max(lo, b0)
                    if lo is not None:
                        best = lo + tot.c
            if best is None:
                rep.broken(rid, "%s: cannot recover the least total length read on success" % lname)
            else:
                mins[lname] = best
        if cap is not None and len(mins) == 3:
            least = min(mins.values())
            rep.check(rid, bool(uses) or cap <= least, "lead-in capacity %d <= least bytes consumed by a successful header read %d (%s)" % (cap, least, mins),
                      "lib/lha_input_stream.c", "a header of %d bytes leaves %d member bytes in the lead-in buffer, which lha_input_stream_skip passes over in addition" % (least, cap - least),
                      function="lha_input_stream_skip", obj="leadin-capacity")
            # and every successful header read starts by draining the buffer: lha_input_stream_read copies leadin first
            rd_ = mod.fn("lha_input_stream_read")
            if rd_:
                Mr = Matcher(rd_)
                mc = [c for c in rd_.insts() if c.op == "call" and (c.callee or "").startswith("llvm.memcpy") and Mr.match(("gep", ("field", "LHAInputStream", "leadin", ANY), [0]), c.ops[1], {}) is not None
                      or (c.op == "call" and (c.callee or "").startswith("llvm.memcpy") and Mr.match(("field", "LHAInputStream", "leadin", ANY), c.ops[1], {}) is not None)]
                rep.check(rid, len(mc) >= 1, "lha_input_stream_read serves buffered lead-in bytes first", rd_.file, None, function=rd_.cname, obj="drain-first")
            rep.extra["min_header_read"] = mins

        # ---- the end of the archive is reported, not the previous member again (rule shared with C12) --------------------------
        from .c12 import end_consistency_rules
        end_consistency_rules(rep, ctx, mod, prefix="C12.")
        advance_rules(rep, ctx, mod)
    return rep.finish(seed)
