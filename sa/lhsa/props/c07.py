"""C07 - a member is reported good only if its bytes match the recorded length and CRC-16.

Decides the wiring of the verdict for all archives at once (E2 facts):
library return values, CLI status accumulation, messages, exit status.
"""
from ..context import Context
from ..report import Report
from ..facts import Facts, Matcher, ANY, is_const, const_val, describe, describe_fact
from ..rules import (require_on_success, require_on_success_alt, guarded_site, success_edges, facts_for_success,
                     min_width_through_casts, rets, stores_to_field)
from . import c14

RD, HDR, DEC = "LHAReader", "LHAFileHeader", "LHADecoder"


def rfield(f):
    return ("load", ("field", RD, f, ("param", 0)))


INNER = rfield("inner_decoder")
CURR = rfield("curr_file")
DIRSTR = ("str", b"-lhd-")


def unbool(fn, o):
    """`x != 0` (possibly widened) carries the same zero / non-zero verdict as x: the value behind such normalisations"""
    for _ in range(4):
        d = fn.defn(o)
        if d is None or d.is_param:
            return o
        if d.op in ("zext", "sext"):
            o = d.ops[0]
            continue
        if d.op == "icmp" and d.pred == "ne" and is_const(d.ops[1]) and const_val(d.ops[1]) == 0:
            o = d.ops[0]
            continue
        return o
    return o


def returned_sources(ctx, fn):
    F = ctx.facts(fn)
    out = []
    for r in rets(fn):
        if r.ops:
            out.extend((unbool(fn, s_), fs_) for s_, fs_ in F.sources(r.ops[0]))
    return out


def accumulator_rule(rep, rid, ctx, fn, callee):
    """`result` starts at 1, is set to 0 on the edge callee(...) == 0, is never set back, and is what is returned."""
    if fn is None:
        return
    F = ctx.facts(fn)
    M = Matcher(fn)
    srcs = returned_sources(ctx, fn)
    fail_pat = ("eq", ("call", callee), 0)
    ones = zeros = 0
    for s, fs in srcs:
        failed, _ = M.find_fact(fail_pat, fs)
        if is_const(s) and const_val(s) == 0:
            zeros += 1
            rep.check(rid, failed is not None, "%s: status 0 arises on the edge %s(...) == 0" % (fn.cname, callee), fn.file,
                      None, function=fn.cname, obj="zero-source")
        elif is_const(s) and const_val(s) == 1:
            ones += 1
            rep.check(rid, failed is None, "%s: status 1 does not arise after a failed member" % fn.cname, fn.file,
                      None, function=fn.cname, obj="one-source")
        else:
            # dry-run delegation is allowed: `return extract_archive_dry_run(...)` under options->dry_run
            dry, _ = M.find_fact(("ne", ("load", ("field", "LHAOptions", "dry_run", ANY)), 0), fs)
            okd = M.match(("call", "extract_archive_dry_run"), s, {}) is not None and dry is not None
            rep.check(rid, okd, "%s: other status source %s" % (fn.cname, describe(fn, s)), fn.file,
                      "only the constants 1 (entry) and 0 (failure edge) may reach the returned status", function=fn.cname,
                      obj="source:%s" % describe(fn, s, 1))
    rep.check(rid, zeros >= 1, "%s: a failing member forces status 0" % fn.cname, fn.file,
              "no path sets the status to 0 when %s fails" % callee, function=fn.cname, obj="no-zero")
    # every call of callee is followed by the test: the edge callee == 0 exists
    calls = list(fn.calls(callee))
    rep.check(rid, len(calls) >= 1 and all(F.edges_with_fact(("eq", ("inst", c.id), 0)) for c in calls),
              "%s: result of every %s call is tested" % (fn.cname, callee), fn.file, None, function=fn.cname, obj="tested")


def run(tier, seed):
    rep = Report("C07", tier, "other",
                 "Static path analysis of the verdict wiring: do_decode returns non-zero only under 'decoded length == header "
                 "length' and 'running CRC == header CRC' (both full width) after reading to exhaustion; the getters return the "
                 "decoder's counters unmodified; lha_reader_check/extract forward exactly that verdict; the CLI accumulates failures "
                 "into its status, prints 'Tested'/'Melted' only under success, and main returns the negation of the status. "
                 "Includes the C14 identity rules (CRC/length cover exactly the bytes handed out). Does not decide that decoders "
                 "produce the right bytes (C01-C04) nor the arithmetic of CRC-16 (C17).")
    with Context(tier) as ctx:
        from .. import selfcheck
        selfcheck.run(ctx, rep, ['facts'])
        mod = ctx.plain()
        rep.analysed = {"view": "plain", "functions": len(mod.defined()), "units": len(ctx.views.units)}

        # ---- R1 do_decode ---------------------------------------------------------------
        rid = rep.rule("R1", "do_decode returns non-zero only if get_length(inner_decoder) == curr_file->length and get_crc(inner_decoder) == curr_file->crc, after the read loop hit 0", 3)
        dd = rep.need(rid, mod.fn("do_decode"), "function do_decode")
        if dd:
            len_pat = ("eq", ("call", "lha_decoder_get_length", [INNER]), ("load", ("field", HDR, "length", CURR)))
            crc_pat = ("eq", ("call", "lha_decoder_get_crc", [INNER]), ("load", ("field", HDR, "crc", CURR)))
            require_on_success(rep, rid, ctx, dd, [
                ("decoded length == header length", len_pat),
                ("running CRC == header CRC", crc_pat),
            ])
            from ..rules import require_on_success_alt
            rdc = ("call", "lha_reader_read", [("param", 0), ANY, ANY])
            require_on_success_alt(rep, rid, ctx, dd, [
                ("read loop ran until lha_reader_read returned 0 (<= 0)", None, [("lha_reader_read(...) <= 0", ("ule", rdc, 0))]),
                ("read loop ran until lha_reader_read returned 0 (== 0)", None, [("lha_reader_read(...) == 0", ("eq", rdc, 0))]),
            ])
            # R6 full width
            rid6 = rep.rule("R6", "both comparisons are full width (64-bit length, 16-bit CRC, no truncation or masking)", 2)
            F = ctx.facts(dd)
            M = Matcher(dd)
            for v, pb, b in success_edges(F, dd):
                fs = facts_for_success(F, dd, v, pb, b)
                for nm, pat, w in (("length", len_pat, 64), ("crc", crc_pat, 16)):
                    f, _ = M.find_fact(pat, fs)
                    if f is None:
                        continue
                    wa, _ = min_width_through_casts(dd, f[1])
                    wb, _ = min_width_through_casts(dd, f[2])
                    rep.check(rid6, wa == w and wb == w, "do_decode: %s comparison width" % nm, dd.file,
                              "operand widths %s/%s, expected %d" % (wa, wb, w), function=dd.cname, obj="width-" + nm)

        # ---- R2 getters -----------------------------------------------------------------------
        rid = rep.rule("R2", "lha_decoder_get_crc / lha_decoder_get_length return the decoder's crc / stream_pos fields unmodified", 2)
        for gname, fld, w in (("lha_decoder_get_crc", "crc", 16), ("lha_decoder_get_length", "stream_pos", 64)):
            g = rep.need(rid, mod.fn(gname), "function " + gname)
            if g:
                M = Matcher(g)
                r = rets(g)
                ok = len(r) == 1 and M.match(("load", ("field", DEC, fld, ("param", 0))), r[0].ops[0], {}) is not None \
                    and min_width_through_casts(g, r[0].ops[0])[0] == w
                rep.check(rid, ok, "%s returns decoder->%s" % (gname, fld), "%s:%s" % (g.file, g.line), None, function=gname, obj=fld)

        # ---- R3 library verdict forwarding -----------------------------------------------------
        rid = rep.rule("R3", "lha_reader_check returns non-zero only for a directory entry or under open_decoder != 0 and do_decode(reader, NULL) != 0", 1)
        ck = rep.need(rid, mod.fn("lha_reader_check"), "function lha_reader_check")
        if ck:
            method = ("gep", ("field", HDR, "compress_method", CURR), [0])
            require_on_success_alt(rep, rid, ctx, ck, [
                ("directory entry", 1, [("strcmp(method, \"-lhd-\") == 0", ("eq", ("call", "strcmp", [method, DIRSTR]), 0)),
                                        ("curr_file_type == NORMAL", ("eq", rfield("curr_file_type"), mod.enums.get("CURR_FILE_NORMAL", 1)))]),
                ("decoded and verified", None, [("open_decoder(reader, cb, data) != 0", ("ne", ("call", "open_decoder", [("param", 0), ("param", 1), ("param", 2)]), 0)),
                                                ("do_decode(reader, NULL) != 0", ("ne", ("call", "do_decode", [("param", 0), 0]), 0)),
                                                ("curr_file_type == NORMAL", ("eq", rfield("curr_file_type"), mod.enums.get("CURR_FILE_NORMAL", 1)))]),
            ])
        rid = rep.rule("R3b", "extract_file's result is do_decode's verdict (else 0), obtained under open_decoder != 0 and an opened output file", 2)
        ef = rep.need(rid, mod.fn("extract_file"), "function extract_file")
        if ef:
            M = Matcher(ef)
            n = 0
            for s, fs in returned_sources(ctx, ef):
                if is_const(s):
                    rep.check(rid, const_val(s) == 0, "extract_file: constant result is 0", ef.file, "const %s" % const_val(s), function=ef.cname, obj="const")
                else:
                    n += 1
                    # the output stream is what lha_arch_fopen returned (the helper that gathers owner/permissions is folded in by the normalised view)
                    OUT = ("bind", "out", ("call", "lha_arch_fopen", [ANY, ANY, ANY, ANY]))
                    e_ = M.match(("call", "do_decode", [("param", 0), OUT]), s, {})
                    okc = e_ is not None
                    f1, _ = M.find_fact(("ne", ("call", "open_decoder", [("param", 0), ("param", 2), ("param", 3)]), 0), fs)
                    f2, _ = M.find_fact(("ne", ("inst", e_["out"][1]), 0), fs) if okc else (None, None)
                    rep.check(rid, okc and f1 is not None and f2 is not None, "extract_file: result is do_decode(reader, fstream)",
                              ef.defn(s).where() if ef.defn(s) else ef.file, describe(ef, s), function=ef.cname, obj="verdict")
            if n == 0:
                rep.violation(rid, "extract_file returns the verdict", ef.file, "do_decode's result does not reach the return value", function=ef.cname, obj="verdict")
        rid = rep.rule("R3c", "extract_normal / lha_reader_extract forward extract_file's result for file entries", 2)
        en = rep.need(rid, mod.fn("extract_normal"), "function extract_normal")
        if en:
            M = Matcher(en)
            found = False
            for s, fs in returned_sources(ctx, en):
                if M.match(("call", "extract_file", [("param", 0), ("param", 1), ("param", 2), ("param", 3)]), s, {}) is not None:
                    found = True
                    f, _ = M.find_fact(("ne", ("call", "strcmp", [ANY, DIRSTR]), 0), fs)
                    rep.check(rid, f is not None, "extract_normal: extract_file handles non-directory entries", en.file, None, function=en.cname, obj="file")
                else:
                    # any other source must be under 'is a directory entry'
                    f, _ = M.find_fact(("eq", ("call", "strcmp", [ANY, DIRSTR]), 0), fs)
                    rep.check(rid, f is not None, "extract_normal: %s only for -lhd- entries" % describe(en, s, 1), en.file, None,
                              function=en.cname, obj="dir:%s" % describe(en, s, 1))
            if not found:
                rep.violation(rid, "extract_normal forwards extract_file", en.file, "not found", function=en.cname, obj="file")
        ex = rep.need(rid, mod.fn("lha_reader_extract"), "function lha_reader_extract")
        if ex:
            M = Matcher(ex)
            NORMAL = mod.enums.get("CURR_FILE_NORMAL")
            if NORMAL is None:
                rep.broken(rid, "enumerator CURR_FILE_NORMAL not found")
            found = False
            for s, fs in returned_sources(ctx, ex):
                if M.match(("call", "extract_normal", [("param", 0), ("param", 1), ("param", 2), ("param", 3)]), s, {}) is not None:
                    found = True
                    f, _ = M.find_fact(("eq", rfield("curr_file_type"), NORMAL), fs)
                    rep.check(rid, f is not None, "lha_reader_extract: NORMAL entries go to extract_normal", ex.file, None, function=ex.cname, obj="normal")
                else:
                    f, _ = M.find_fact(("eq", rfield("curr_file_type"), NORMAL), fs)
                    rep.check(rid, f is None, "lha_reader_extract: %s is not the verdict of a NORMAL entry" % describe(ex, s, 1), ex.file, None,
                              function=ex.cname, obj="other:%s" % describe(ex, s, 1))
            if not found:
                rep.violation(rid, "lha_reader_extract forwards extract_normal", ex.file, "not found", function=ex.cname, obj="normal")

        # ---- R4 CLI -----------------------------------------------------------------------------------
        # the reader of the invocation: a reader parameter, or the reader of a filter parameter
        READER = ("or", ("param", 0), ("load", ("field", "LHAFilter", "reader", ("param", 0))))
        rid = rep.rule("R4a", "test_archived_file_crc returns lha_reader_check's verdict (dry run excepted)", 2)
        ta = rep.need(rid, mod.fn("test_archived_file_crc"), "function test_archived_file_crc")
        if ta:
            M = Matcher(ta)
            found = False
            for s, fs in returned_sources(ctx, ta):
                if is_const(s):
                    f, _ = M.find_fact(("ne", ("load", ("field", "LHAOptions", "dry_run", ANY)), 0), fs)
                    rep.check(rid, const_val(s) == 0 or f is not None, "test_archived_file_crc: constant status %s" % const_val(s), ta.file,
                              "constant success is admissible only in dry-run mode", function=ta.cname, obj="const")
                else:
                    ok = M.match(("call", "lha_reader_check", [READER, ANY, ANY]), s, {}) is not None
                    found = found or ok
                    rep.check(rid, ok, "test_archived_file_crc: status is lha_reader_check(reader, ...)", ta.file, describe(ta, s), function=ta.cname, obj="verdict")
            if not found:
                rep.violation(rid, "verdict reaches the return value", ta.file, "lha_reader_check's result is not returned", function=ta.cname, obj="verdict")
        rid = rep.rule("R4b", "extract_archived_file returns lha_reader_extract's verdict; constant success only for skipped / pathless-directory entries", 2)
        ea = rep.need(rid, mod.fn("extract_archived_file"), "function extract_archived_file")
        if ea:
            M = Matcher(ea)
            found = False
            for s, fs in returned_sources(ctx, ea):
                if is_const(s):
                    if const_val(s) == 0:
                        rep.ok(rid, "extract_archived_file: constant failure", None, ea.file)
                        continue
                    f1, _ = M.find_fact(("eq", ("call", "confirm_file_overwrite", [ANY, ANY]), 0), fs)
                    f2, _ = M.find_fact(("eq", ("load", ("field", "LHAOptions", "use_path", ANY)), 0), fs)
                    rep.check(rid, f1 is not None or f2 is not None, "extract_archived_file: constant success", ea.file,
                              "constant success without 'overwrite declined' or 'paths disabled'", function=ea.cname, obj="const")
                else:
                    ok = M.match(("call", "lha_reader_extract", [READER, ANY, ANY, ANY]), s, {}) is not None
                    found = found or ok
                    rep.check(rid, ok, "extract_archived_file: status is lha_reader_extract(reader, ...)", ea.file, describe(ea, s), function=ea.cname, obj="verdict")
            if not found:
                rep.violation(rid, "verdict reaches the return value", ea.file, "lha_reader_extract's result is not returned", function=ea.cname, obj="verdict")
        rid = rep.rule("R4c", "test_file_crc / extract_archive: status starts at 1, drops to 0 on any failing member and is returned", 8)
        accumulator_rule(rep, rid, ctx, rep.need(rid, mod.fn("test_file_crc"), "function test_file_crc"), "test_archived_file_crc")
        accumulator_rule(rep, rid, ctx, rep.need(rid, mod.fn("extract_archive"), "function extract_archive"), "extract_archived_file")
        rid = rep.rule("R4d", "do_command returns the command's status; main returns its logical negation", 4)
        dc = rep.need(rid, mod.fn("do_command"), "function do_command")
        if dc:
            M = Matcher(dc)
            seen = set()
            for s, fs in returned_sources(ctx, dc):
                if is_const(s):
                    rep.check(rid, const_val(s) == 1, "do_command: constant status", dc.file, "const %s" % const_val(s), function=dc.cname, obj="const")
                    continue
                for cal in ("test_file_crc", "extract_archive", "print_archive"):
                    if M.match(("call", cal, [ANY, ("param", 2)]), s, {}) is not None:
                        seen.add(cal)
                        break
                else:
                    rep.violation(rid, "do_command: status source", dc.file, describe(dc, s), function=dc.cname, obj="source")
            rep.check(rid, {"test_file_crc", "extract_archive"} <= seen, "do_command returns test/extract status", dc.file, "sources %s" % sorted(seen),
                      function=dc.cname, obj="status")
            for cal, mode in (("test_file_crc", "MODE_CRC_CHECK"), ("extract_archive", "MODE_EXTRACT")):
                mv = mod.enums.get(mode)
                for c in dc.calls(cal):
                    guarded_site(rep, rid, ctx, c, [("mode == %s" % mode, ("eq", ("param", 0), mv))])
        mn = rep.need(rid, mod.fn("main"), "function main")
        if mn:
            F = ctx.facts(mn)
            M = Matcher(mn)
            n = 0
            for s, fs in returned_sources(ctx, mn):
                if is_const(s):
                    continue
                d = mn.defn(s)
                # s is a boolean-valued expression over a do_command call
                t = F.cond_facts(s, True)
                f = F.cond_facts(s, False)
                ft, _ = M.find_fact(("eq", ("call", "do_command"), 0), t)
                ff, _ = M.find_fact(("ne", ("call", "do_command"), 0), f)
                n += 1
                rep.check(rid, ft is not None and ff is not None, "main: exit status is !do_command(...)", d.where() if d else mn.file,
                          describe(mn, s), function="main", obj="negation")
            if n == 0:
                rep.violation(rid, "main returns !do_command", mn.file, "no do_command-derived exit status", function="main", obj="negation")

        # ---- R5 messages ---------------------------------------------------------------------------------
        rid = rep.rule("R5", "the literals 'Tested' / 'Melted' are printed only under success != 0", 2)
        for fn_name, lit, callee in (("test_archived_file_crc", b"Tested", "lha_reader_check"), ("extract_archived_file", b"Melted", "lha_reader_extract")):
            fn = mod.fn(fn_name)
            if not fn:
                continue
            M = Matcher(fn)
            F = ctx.facts(fn)
            n = 0
            for c in fn.insts():
                if c.op != "call":
                    continue
                for a in c.ops:
                    # the literal may reach the argument directly or through a local (phi): each flow carries the facts of its own edge
                    for sv, fs in F.sources(a):
                        if mod.const_string(M.strip(sv, ("bitcast",))) != lit:
                            continue
                        n += 1
                        facts = set(fs) | set(F.at_inst(c))
                        f, _ = M.find_fact(("ne", ("call", callee), 0), facts)
                        rep.check(rid, f is not None, "%s: %r is passed to %s only under %s(...) != 0" % (fn_name, lit.decode(), mod.callee_cname(c), callee), c.where(),
                                  describe_fact(fn, f) if f is not None else "the literal reaches the call on a flow without the success fact; facts: %s" % sorted(describe_fact(fn, x) for x in facts)[:8],
                                  function=fn_name, obj="literal-" + lit.decode())
            if n == 0:
                rep.broken(rid, "literal %r not found in %s" % (lit, fn_name))
        # the literals appear nowhere else
        for f in mod.defined():
            if f.cname in ("test_archived_file_crc", "extract_archived_file"):
                continue
            M = Matcher(f)
            for c in f.insts():
                if c.op == "call":
                    for a in c.ops:
                        sv = mod.const_string(M.strip(a, ("bitcast",)))
                        if sv is not None and (b"Tested" in sv or b"Melted" in sv):
                            rep.violation(rid, "success literal outside the verdict sites", c.where(), repr(sv), function=f.cname, obj="literal")

        # ---- C14 identity rules (the CRC/length are over exactly the bytes handed out) -------------------------
        c14.identity_rules(rep, ctx, mod, prefix="C14.")
    return rep.finish(seed)
