"""C06 - extraction reproduces the archived tree (claimed IN PART: the metadata wiring).

Decided, for every archive at once, on the call sites of the arch-layer setters and on the setters themselves:
 R1 time       every lha_arch_utime(path, t) outside the arch layer passes t = header->timestamp (and only when it is non-zero);
               inside, utime() receives a utimbuf whose actime and modtime are both that parameter;
 R2 owner      every lha_arch_chown(path, u, g) passes (header->unix_uid, header->unix_gid) of one header, in that order, under
               extra_flags & LHA_FILE_UNIX_UID_GID of the same header; inside, chown(path, uid, gid) in that order;
 R3 perms      every lha_arch_chmod(path, p) passes header->unix_perms under extra_flags & LHA_FILE_UNIX_PERMS; inside, chmod(path, perms);
 R4 creation   lha_arch_fopen(name, u, g, p) for a member's data: u / g are -1 exactly when the UID_GID flag is clear and else the header's
               uid / gid, p is -1 exactly when the PERMS flag is clear and else header->unix_perms; inside, fchown(fd, uid, gid) under
               uid >= 0 comes before fchmod(fd, perms) under perms >= 0, both on the descriptor just opened;
 R5 order      a file's time is set only after a successful decode (which lies behind the fclose of the output stream);
 R6 mkdir      a directory is created 0700 when permissions are recorded (to be widened afterwards, R3) and 0777 otherwise;
 R7 envelope   a Mac member is examined for a MacBinary envelope whenever its length is >= 128 (the size of such a header);
 C15.R7/R7b   the reader advances the input exactly after START / NORMAL entries (no member dropped or repeated around a re-presented directory)
               and a directory ends at the first entry whose path does not begin with its whole path (shared with C15);
 R8 wildcard   match_glob conforms to the glob transducer ('*' any run including the empty one, '?' one byte, bytes compared as stored).
These are necessary conditions of "its recorded modification time and, when recorded, its Unix permission bits [and owner]".
NOT decided (stated plainly): file contents (C01-C04, C07), path construction and parent directories, the order in which directories get
their metadata relative to their children (C10 R6/R6b decide who may receive metadata, not when), which members reach the filter, overwrite policy,
the print command, the contents of the MacBinary test. Those clauses of C06 are behaviour of call histories and are left to the suite.
"""
from ..context import Context
from ..report import Report
from ..facts import Facts, Matcher, ANY, is_const, const_val, describe, describe_fact
from ..rules import stores_to_field, rets, guarded_site

HDR = "LHAFileHeader"
F_PERMS, F_UIDGID = 0x01, 0x02



def mode_param(f, M, op, k):
    """op is parameter k, possibly through casts and a mask that keeps every permission bit (07777): chmod ignores the rest"""
    for _ in range(6):
        if M.match(("param", k), op, {}) is not None:
            return True
        d = f.defn(M.strip(op))
        if d is None or d.is_param:
            return False
        if d.op in ("zext", "sext", "trunc", "bitcast"):
            op = d.ops[0]
            continue
        if d.op == "and":
            cs = [x for x in d.ops if is_const(x)]
            vs = [x for x in d.ops if not is_const(x)]
            if len(cs) == 1 and len(vs) == 1 and const_val(cs[0]) is not None and (const_val(cs[0]) & 0o7777) == 0o7777:
                op = vs[0]
                continue
        return False
    return False


def fld(name, h):
    return ("load", ("field", HDR, name, h))


def flag_fact(h, bit, set_):
    return ("ne" if set_ else "eq", ("bin", "and", fld("extra_flags", h), bit), 0)


def run(tier, seed):
    rep = Report("C06", tier, "other",
                 "Static wiring analysis of the extraction metadata (claimed in part): at every call site of the arch-layer setters the value passed is the "
                 "header field of that meaning (timestamp, unix_uid/unix_gid in this order, unix_perms), guarded by the extra_flags bit that says the field "
                 "was recorded, for the same header object; the file-creation wrapper receives -1 exactly when the flag is clear; a file's time is set only "
                 "after a successful decode; a directory is created 0700 when permissions are recorded; and inside the arch layer the libc calls receive "
                 "those parameters in the right positions (utime with actime = modtime = timestamp, chown(uid, gid), fchown before fchmod on the descriptor "
                 "just opened). Also: a mode may be masked only with a mask keeping all of 07777; the MacBinary envelope is recognised only for length >= 128, version 0 and a name equal to the member's over exactly its length (R7/R7b); "
                 "the wildcard matcher conforms to the glob transducer (R8, E9); the reader's advance rules of C15 run here too. Decides these necessary conditions for all archives; does not decide contents, path construction, metadata order relative "
                 "to children, wildcards, overwrite policy or the print command.")
    with Context(tier) as ctx:
        from .. import selfcheck
        selfcheck.run(ctx, rep, ['facts'])
        mod = ctx.plain()
        rep.analysed = {"view": "plain", "functions": len(mod.defined())}
        lib = [f for f in mod.defined() if not f.file.endswith("lha_arch_unix.c") and not f.file.endswith("lha_arch_win32.c")]

        def sites(name):
            out = []
            for f in lib:
                for c in f.calls(name):
                    out.append((f, c))
            return out

        # ---- R1 time ---------------------------------------------------------------------------------------------------------
        rid = rep.rule("R1", "lha_arch_utime(path, t): t is header->timestamp, passed only when non-zero; utime() gets actime = modtime = that parameter", 3)
        rep.need(rid, mod.fn("lha_arch_utime"), "function lha_arch_utime")
        for f, c in sites("lha_arch_utime"):
            M, F = Matcher(f), ctx.facts(f)
            e = M.match(("bind", "t", fld("timestamp", ("bind", "h"))), c.ops[1], {}) if len(c.ops) > 1 else None
            rep.check(rid, e is not None, "%s: time passed is header->timestamp" % f.cname, c.where(), None if e is not None else "passes %s" % describe(f, c.ops[1]),
                      function=f.cname, obj="utime-value")
            if e is not None:
                ok = M.find_fact(("ne", fld("timestamp", ANY), 0), F.at_inst(c))[0] is not None
                rep.check(rid, ok, "%s: only a recorded (non-zero) time is applied" % f.cname, c.where(), None, function=f.cname, obj="utime-nonzero")
        au = mod.fn("lha_arch_utime")
        if au:
            M = Matcher(au)
            ut = [c for c in au.insts() if c.op == "call" and mod.callee_cname(c) in ("utime", "utimes", "utimensat")]
            rep.check(rid, len(ut) == 1 and M.match(("param", 0), ut[0].ops[0], {}) is not None, "lha_arch_utime calls utime(filename, ..) once on its path parameter", au.file, None,
                      function=au.cname, obj="utime-call")
            # both time fields of the buffer handed to utime come from parameter 1
            vals = []
            for st in au.insts():
                if st.op == "store":
                    src = M.strip(st.ops[0])
                    vals.append(src == ("v", au.params[1].id))
            rep.check(rid, len(vals) >= 2 and all(vals), "actime and modtime are both the timestamp parameter (%d stores)" % len(vals), au.file,
                      None if (len(vals) >= 2 and all(vals)) else "a store in lha_arch_utime writes something else than the timestamp parameter", function=au.cname, obj="utimbuf")
            # the header's timestamp is an unsigned 32-bit count of seconds: on its way into the (wider) time_t it is zero-extended; a sign
            # extension turns every time from 2038-01-19 on into a date before 1970
            sx = []
            for st in au.insts():
                if st.op == "store":
                    o_ = st.ops[0]
                    for _ in range(6):
                        d_ = au.defn(o_)
                        if d_ is None or d_.is_param:
                            break
                        if d_.op == "sext":
                            sx.append(st)
                        if d_.op in ("zext", "sext", "trunc", "bitcast"):
                            o_ = d_.ops[0]
                            continue
                        break
            rep.check(rid, not sx, "the timestamp is widened to time_t without sign extension", au.file,
                      None if not sx else "sign-extended at %s" % sx[0].where(), function=au.cname, obj="utime-widen")

        # the converse: a recorded time is never skipped - in the function that applies times, every way past the call carries timestamp == 0
        for f, c in sites("lha_arch_utime"):
            M, F = Matcher(f), ctx.facts(f)
            cut = {(c.block.id, x) for x in c.block.succs} | ({(c.block.id, "ret")} if not c.block.succs else set())
            for b_ in f.blocks:
                for s_ in b_.succs:
                    if M.find_fact(("eq", fld("timestamp", ANY), 0), F.edge_facts(b_.id, s_))[0] is not None:
                        cut.add((b_.id, s_))
            if f.cname in ("set_timestamps_from_header",):
                bad = [r for r in rets(f) if r.block.id != c.block.id and F.reaches_avoiding(0, r.block.id, cut) and (r.block.id, "ret") not in cut]
                rep.check(rid, not bad, "%s: the time is applied unless timestamp == 0 (no other way round the call)" % f.cname, c.where(),
                          None if not bad else "a return is reachable without the call and without the fact timestamp == 0: some recorded times are not applied",
                          function=f.cname, obj="utime-always")

        # ---- R2 owner --------------------------------------------------------------------------------------------------------
        rid = rep.rule("R2", "lha_arch_chown(path, u, g): (unix_uid, unix_gid) of one header, in this order, under extra_flags & UNIX_UID_GID of that header; chown(path, uid, gid)", 2)
        rep.need(rid, mod.fn("lha_arch_chown"), "function lha_arch_chown")
        for f, c in sites("lha_arch_chown"):
            M, F = Matcher(f), ctx.facts(f)
            e = M.match(fld("unix_uid", ("bind", "h")), c.ops[1], {}) if len(c.ops) > 2 else None
            e = M.match(fld("unix_gid", ("bind", "h")), c.ops[2], e) if e is not None else None
            rep.check(rid, e is not None, "%s: (uid, gid) are header->unix_uid, header->unix_gid of the same header" % f.cname, c.where(),
                      None if e is not None else "passes (%s, %s)" % (describe(f, c.ops[1]), describe(f, c.ops[2])) if len(c.ops) > 2 else None, function=f.cname, obj="chown-values")
            if e is not None:
                ok = M.find_fact(flag_fact(("bind", "h"), F_UIDGID, True), F.at_inst(c), dict(e))[0] is not None
                rep.check(rid, ok, "%s: owner applied only when LHA_FILE_UNIX_UID_GID is set for that header" % f.cname, c.where(), None, function=f.cname, obj="chown-flag")
        ac = mod.fn("lha_arch_chown")
        if ac:
            M = Matcher(ac)
            cs = [c for c in ac.insts() if c.op == "call" and mod.callee_cname(c) in ("chown", "lchown", "fchownat")]
            ok = len(cs) == 1 and mod.callee_cname(cs[0]) != "fchownat" and all(M.match(("param", k), cs[0].ops[k], {}) is not None for k in range(3))
            rep.check(rid, ok, "lha_arch_chown calls chown(filename, uid, gid) with its parameters in order", ac.file, None, function=ac.cname, obj="chown-call")

        # ---- R3 perms --------------------------------------------------------------------------------------------------------
        rid = rep.rule("R3", "lha_arch_chmod(path, p): p is header->unix_perms under extra_flags & UNIX_PERMS of that header; chmod(path, perms)", 2)
        rep.need(rid, mod.fn("lha_arch_chmod"), "function lha_arch_chmod")
        for f, c in sites("lha_arch_chmod"):
            M, F = Matcher(f), ctx.facts(f)
            e = M.match(fld("unix_perms", ("bind", "h")), c.ops[1], {}) if len(c.ops) > 1 else None
            rep.check(rid, e is not None, "%s: mode passed is header->unix_perms" % f.cname, c.where(), None if e is not None else "passes %s" % describe(f, c.ops[1]),
                      function=f.cname, obj="chmod-value")
            if e is not None:
                ok = M.find_fact(flag_fact(("bind", "h"), F_PERMS, True), F.at_inst(c), dict(e))[0] is not None
                rep.check(rid, ok, "%s: permissions applied only when LHA_FILE_UNIX_PERMS is set for that header" % f.cname, c.where(), None, function=f.cname, obj="chmod-flag")
        am = mod.fn("lha_arch_chmod")
        if am:
            M = Matcher(am)
            cs = [c for c in am.insts() if c.op == "call" and mod.callee_cname(c) in ("chmod", "fchmodat")]
            ok = len(cs) == 1 and mod.callee_cname(cs[0]) == "chmod" and M.match(("param", 0), cs[0].ops[0], {}) is not None and mode_param(am, M, cs[0].ops[1], 1)
            rep.check(rid, ok, "lha_arch_chmod calls chmod(filename, perms) with its parameters in order", am.file, None, function=am.cname, obj="chmod-call")

        # ---- R4 creation -----------------------------------------------------------------------------------------------------
        rid = rep.rule("R4", "lha_arch_fopen(name, u, g, p) for member data: u, g = -1 iff UNIX_UID_GID clear else header uid, gid; p = -1 iff UNIX_PERMS clear else "
                             "header->unix_perms; inside: fchown(fd, uid, gid) under uid >= 0, then fchmod(fd, perms) under perms >= 0, on the opened descriptor", 8)
        nfo = 0
        for f, c in sites("lha_arch_fopen"):
            if len(c.ops) < 4:
                continue
            M, F = Matcher(f), ctx.facts(f)
            # the placeholder of a deferred link: constant (-1, -1, 0600) - decided by C10 R4b
            if all(is_const(M.strip(c.ops[k])) for k in (1, 2, 3)):
                rep.ok(rid, "%s: constant owner/mode (placeholder; C10 R4b)" % f.cname, None, c.where())
                continue
            nfo += 1
            for k, field, bit in ((1, "unix_uid", F_UIDGID), (2, "unix_gid", F_UIDGID), (3, "unix_perms", F_PERMS)):
                srcs = F.sources(c.ops[k])
                good, why = bool(srcs), None
                for s, fs in srcs:
                    allf = set(fs) | set(F.at_inst(c))
                    if is_const(s):
                        v = const_val(s)
                        neg1 = v is not None and (v == -1 or v == 0xFFFFFFFF or v == (1 << 64) - 1)
                        if not (neg1 and M.find_fact(flag_fact(ANY, bit, False), allf)[0] is not None):
                            good, why = False, "constant %s without the fact that flag 0x%02x is clear" % (v, bit)
                    else:
                        e = M.match(fld(field, ("bind", "h")), s, {})
                        if e is None:
                            good, why = False, "source %s is not header->%s" % (describe(f, s), field)
                        elif M.find_fact(flag_fact(("bind", "h"), bit, True), allf, dict(e))[0] is None:
                            good, why = False, "header->%s passed without the fact that flag 0x%02x is set for that header" % (field, bit)
                rep.check(rid, good, "%s: argument %d of lha_arch_fopen is -1 / header->%s according to flag 0x%02x" % (f.cname, k, field, bit), c.where(), why,
                          function=f.cname, obj="fopen-arg%d" % k)
        rep.check(rid, nfo >= 1, "a data-file creation site found", "lib/lha_reader.c", "%d" % nfo, function="lha_arch_fopen", obj="sites")
        fo = rep.need(rid, mod.fn("lha_arch_fopen"), "function lha_arch_fopen")
        if fo:
            M, F = Matcher(fo), ctx.facts(fo)
            opens = list(fo.calls("open"))
            fch = [c for c in fo.insts() if c.op == "call" and mod.callee_cname(c) == "fchown"]
            fcm = [c for c in fo.insts() if c.op == "call" and mod.callee_cname(c) == "fchmod"]
            okfd = len(opens) == 1
            rep.check(rid, len(fch) == 1 and okfd and M.strip(fch[0].ops[0]) == ("v", opens[0].id) and M.match(("param", 1), fch[0].ops[1], {}) is not None and
                      M.match(("param", 2), fch[0].ops[2], {}) is not None, "fchown(fd, unix_uid, unix_gid) on the opened descriptor, parameters in order", fo.file, None,
                      function=fo.cname, obj="fchown")
            rep.check(rid, len(fcm) == 1 and okfd and M.strip(fcm[0].ops[0]) == ("v", opens[0].id) and mode_param(fo, M, fcm[0].ops[1], 3),
                      "fchmod(fd, unix_perms) on the opened descriptor", fo.file, None, function=fo.cname, obj="fchmod")
            if len(fch) == 1:
                rep.check(rid, M.find_fact(("sge", ("param", 1), 0), F.at_inst(fch[0]))[0] is not None, "owner set only for uid >= 0", fch[0].where(), None, function=fo.cname, obj="fchown-guard")
            if len(fcm) == 1:
                rep.check(rid, M.find_fact(("sge", ("param", 3), 0), F.at_inst(fcm[0]))[0] is not None, "mode set only for perms >= 0", fcm[0].where(), None, function=fo.cname, obj="fchmod-guard")
            if len(fch) == 1 and len(fcm) == 1:
                # owner before mode: the fchmod cannot be reached without having passed the fchown decision (its block, or the uid < 0 edge)
                before = fo.dominates(opens[0].block.id, fcm[0].block.id) and not F.reaches_avoiding(fcm[0].block.id, fch[0].block.id, set())
                rep.check(rid, before, "permissions are set after the owner (never the other way round)", fcm[0].where(), None, function=fo.cname, obj="order")

        # ---- R5 order ----------------------------------------------------------------------------------------------------------
        rid = rep.rule("R5", "a file's time is set only after a successful decode into it (hence after the output stream was closed)", 1)
        ef = rep.need(rid, mod.fn("extract_file"), "function extract_file")
        if ef:
            M, F = Matcher(ef), ctx.facts(ef)
            ut = list(ef.calls("lha_arch_utime")) + list(ef.calls("set_timestamps_from_header"))
            rep.check(rid, len(ut) >= 1, "extract_file sets the file's time", ef.file, None, function=ef.cname, obj="site")
            fcl = list(ef.calls("fclose"))
            for c in ut:
                okd = M.find_fact(("ne", ("call", "do_decode", [ANY, ANY]), 0), F.at_inst(c))[0] is not None
                rep.check(rid, okd, "time is set under do_decode(...) != 0", c.where(), None if okd else "facts: %s" % sorted(describe_fact(ef, x) for x in F.at_inst(c))[:8],
                          function=ef.cname, obj="after-decode")
                # and no path from the utime back to a write of the file: the stream is closed on every path that decoded
                oka = all(not F.reaches_avoiding(c.block.id, k.block.id, set()) for k in fcl) and bool(fcl)
                rep.check(rid, oka, "the output stream is not closed after the time was set", c.where(), None, function=ef.cname, obj="after-close")

        # ---- R6 mkdir -----------------------------------------------------------------------------------------------------------
        rid = rep.rule("R6", "extract_directory creates the directory 0700 when permissions are recorded and 0777 otherwise", 2)
        ed = rep.need(rid, mod.fn("extract_directory"), "function extract_directory")
        if ed:
            M, F = Matcher(ed), ctx.facts(ed)
            for c in ed.calls("lha_arch_mkdir"):
                srcs = F.sources(c.ops[1])
                seen = set()
                for s, fs in srcs:
                    allf = set(fs) | set(F.at_inst(c))
                    v = const_val(s) if is_const(s) else None
                    if v == 0o700:
                        ok = M.find_fact(flag_fact(ANY, F_PERMS, True), allf)[0] is not None
                    elif v == 0o777:
                        ok = M.find_fact(flag_fact(ANY, F_PERMS, False), allf)[0] is not None
                    else:
                        ok = False
                    seen.add(v)
                    rep.check(rid, ok, "mkdir mode %s under the matching state of LHA_FILE_UNIX_PERMS" % (oct(v) if v is not None else describe(ed, s)), c.where(), None,
                              function=ed.cname, obj="mode-%s" % v)
                rep.check(rid, seen == {0o700, 0o777}, "both modes occur", c.where(), "%s" % sorted(map(str, seen)), function=ed.cname, obj="modes")
        # ---- R7 MacBinary envelope threshold ---------------------------------------------------------------------------------------
        rid = rep.rule("R7", "a Mac member is examined for a MacBinary envelope whenever its length is at least the 128 bytes of such a header (an enveloped empty file is exactly 128 bytes long)", 2)
        mi = rep.need(rid, mod.fn("macbinary_decoder_init"), "function macbinary_decoder_init")
        if mi:
            M, F = Matcher(mi), ctx.facts(mi)
            length = ("load", ("field", HDR, "length", ANY))
            calls = list(mi.calls("read_macbinary_header"))
            rep.check(rid, len(calls) == 1, "one envelope test in macbinary_decoder_init", mi.file, "%d" % len(calls), function=mi.cname, obj="site")
            for c in calls:
                cut = {(c.block.id, x) for x in c.block.succs}
                for b_ in mi.blocks:
                    for s_ in b_.succs:
                        fs = F.edge_facts(b_.id, s_)
                        if M.find_fact(("ult", length, 128), fs)[0] is not None or M.find_fact(("ule", length, 127), fs)[0] is not None:
                            cut.add((b_.id, s_))
                # (only ways round the test that end in SUCCESS matter: a failed initialisation extracts nothing)
                from ..rules import success_edges
                bad = []
                for v_, pb_, b_ in success_edges(F, mi):
                    tgt = pb_ if pb_ is not None else b_
                    if tgt != c.block.id and (tgt == 0 or F.reaches_avoiding(0, tgt, cut)):
                        bad.append(tgt)
                rep.check(rid, not bad, "the envelope test is skipped only for length < 128", c.where(),
                          None if not bad else "a member of 128 bytes or more can bypass the envelope test: its MacBinary header would be extracted as file contents", function=mi.cname, obj="threshold")
        # ---- R7b what counts as an envelope --------------------------------------------------------------------------------------
        rid = rep.rule("R7b", "is_macbinary_header accepts a block only if its name field equals the member's file name (same length, same bytes), the version byte is 0, "
                              "the fork lengths plus the 128-byte header, rounded up to 128, equal the member length", 4)
        ih = rep.need(rid, mod.fn("is_macbinary_header"), "function is_macbinary_header")
        if ih:
            from ..rules import require_on_success
            fname = ("load", ("field", HDR, "filename", ("param", 1)))
            nlen = ("load", ("gep", ("param", 0), [1]))
            M_ih = Matcher(ih)
            from ..rules import success_edges
            require_on_success(rep, rid, ctx, ih, [
                ("version byte == 0", ("eq", ("load", ("or", ("param", 0), ("gep", ("param", 0), [0]))), 0)),
                ("name length == strlen(member name)", ("eq", nlen, ("call", "strlen", [fname]))),
                ("name bytes equal (memcmp over that length == 0)", ("eq", ("call", "memcmp", [("gep", ("param", 0), [2]), fname, ANY]), 0)),
            ])
            # the member's length is the fork lengths plus the 128-byte header, rounded UP to a multiple of 128 (unchanged when it already is
            # one): the expression compared with header->length is evaluated for sample fork lengths on both sides of the block boundaries
            from ..exprval import eval_int
            Fi = ctx.facts(ih)
            hl = ("load", ("field", HDR, "length", ("param", 1)))
            forks = [c_ for c_ in ih.insts() if c_.op == "call" and mod.callee_cname(c_) in ("lha_decode_be_uint32", "lha_decode_uint32")]
            cmpd = []
            for v_, pb_, b_ in success_edges(Fi, ih):
                fs_ = Fi.on_edge(pb_, b_) if pb_ is not None else Fi.at_block(b_)
                for f_ in fs_:
                    if f_[0] == "eq" and not is_const(f_[2]):
                        for x_, y_ in ((f_[1], f_[2]), (f_[2], f_[1])):
                            if M_ih.match(hl, x_, {}) is not None:
                                cmpd.append(y_)
            def leaves(o_, acc, depth=0):
                d_ = ih.defn(o_)
                if d_ is None or d_.is_param or depth > 12:
                    return
                if d_.op == "call":
                    acc.add(d_.id)
                    return
                for x__ in d_.ops:
                    if x__[0] == "v":
                        leaves(x__, acc, depth + 1)
            if cmpd:
                acc_ = set()
                leaves(cmpd[0], acc_)
                forks = [c_ for c_ in forks if c_.id in acc_]
                # any further quantity read from the envelope (an extension this tree does not have) is taken as 0: the clause then speaks of
                # the envelopes in which it is absent, which are the ones the property describes
                extra0 = {i_: 0 for i_ in acc_ if i_ not in {c_.id for c_ in forks}}
            okr, detail_r = bool(cmpd) and len(forks) == 2, None
            if okr:
                samples = [(a_, b_) for a_ in (0, 1, 5, 127, 128, 129, 255, 256, 300, 1024, 70000) for b_ in (0, 1, 127, 128, 200)]
                for e_ in cmpd[:2]:
                    for a_, b_ in samples:
                        got = eval_int(ih, e_, {**extra0, forks[0].id: a_, forks[1].id: b_})
                        want = ((a_ + b_ + 128 + 127) // 128) * 128
                        if got is None or (got & 0xFFFFFFFF) != (want & 0xFFFFFFFF):
                            okr, detail_r = False, "for fork lengths %d + %d the member length is compared with %s, the envelope occupies %d" % (a_, b_, got, want)
                            break
                    if not okr:
                        break
            rep.check(rid, okr, "member length == fork lengths + 128, rounded up to a multiple of 128 (evaluated for %d sample pairs)" % 55, ih.file,
                      detail_r or ("comparison with header->length not found on the successful returns" if not okr else None), function=ih.cname, obj="fork-round")
            # the memcmp length is the name-length byte
            Mi = Matcher(ih)
            for c in ih.calls("memcmp"):
                if not any(Mi.match(fname, a_, {}) is not None for a_ in c.ops[:2]):
                    continue            # some other comparison (e.g. a block compared with zeros), not the one of the names
                rep.check(rid, Mi.match(nlen, c.ops[2], {}) is not None, "the names are compared over the envelope's name length", c.where(), None, function=ih.cname, obj="memcmp-len")

        # ---- R9 parent directories ---------------------------------------------------------------------------------------------
        rid = rep.rule("R9", "the CLI extracts a member only after make_parent_directories(name) succeeded for the very name it hands to lha_reader_extract "
                             "(the only place the w=DIR prefix and missing parents are created)", 1)
        nsite = 0
        for f in mod.defined():
            if not f.file.startswith("src/") and "/src/" not in f.file and not f.file.endswith(("extract.c", "main.c", "list.c", "filter.c")):
                continue
            M, F = Matcher(f), ctx.facts(f)
            for c in f.calls("lha_reader_extract"):
                if len(c.ops) < 2 or is_const(M.strip(c.ops[1])) or M.strip(c.ops[1])[0] == "null":
                    continue            # NULL name: the library builds the path itself (not the CLI's way)
                nsite += 1
                e = M.find_fact(("ne", ("call", "make_parent_directories", [("bind", "n")]), 0), F.at_inst(c))[1]
                ok = e is not None and M.strip(e["n"]) == M.strip(c.ops[1])
                rep.check(rid, ok, "%s: lha_reader_extract(reader, name, ...) behind make_parent_directories(name) != 0" % f.cname, c.where(),
                          None if ok else ("the extraction is reachable without the parents of its output name having been created: with w=DIR (and any option that skips the step) "
                                           "every member fails and the tree is not reproduced"), function=f.cname, obj="parents")
        rep.check(rid, nsite >= 1, "an extraction site with a name found in the CLI", "src/extract.c", "%d" % nsite, function="extract_archived_file", obj="sites")

        # ---- R8 wildcard matcher -------------------------------------------------------------------------------------------------
        rid = rep.rule("R8", "match_glob conforms to the glob transducer: '*' tries the rest of the pattern at the same string position and else skips one string byte; "
                             "'?' or an equal stored byte advances both; anything else is a mismatch; at the end of the string trailing '*'s are passed and the verdict is pattern == NUL", 6)
        mg = rep.need(rid, mod.fn("match_glob"), "function match_glob")
        if mg:
            from ..scan import check_glob
            ok, problems, stats = check_glob(mg, ctx.facts(mg))
            rep.extra["match_glob_paths"] = stats
            for w_, text in problems:
                rep.violation(rid, "match_glob: %s" % text, w_, "the members selected by a wildcard argument are not exactly those whose stored path matches (or the analysis cannot show it)",
                              function="match_glob", obj="move")
            if ok:
                for k in ("star-advance", "star-match", "one", "mismatch", "end"):
                    for _ in range(stats.get(k, 0)):
                        rep.ok(rid, "match_glob: %s path conforms" % k, None, "%s:%s" % (mg.file, mg.line))
        # ---- C15.R7*: every member reaches extraction once, directories are completed at the right point ------------------------------
        from .c15 import advance_rules
        advance_rules(rep, ctx, mod, prefix="C15.")
    return rep.finish(seed)
