"""C08 - no archive bytes can make the library or tool touch invalid memory or abort.

Decided (claimed in part):
 R1 bounds of every access to an object of known extent outside the decoders (lead-in buffer
    with its inductive invariant leadin_len <= 24, scratch buffers, MacBinary header buffer,
    constant tables, struct fields, caller buffers under (pointer, length) contracts) by the
    RANGE engine with symbolic (linear) bounds;
 R2 every extended-header decoder is entered only with data_len >= its registry min_len
    and reads below min_len (C05.R3);
 R3 header raw data: the length guards are in force at the accesses (C12 R1c, R4a-R4g,
    included by reference) - the arithmetic relating raw_data_len to the guards is NOT decided;
 R4 release discipline: a reallocated block is published on every path before returning;
    a released field is overwritten before it can be used again; free(header) only when the
    reference count reached zero;
 R5 nullable header strings are used as strings only under a non-NULL fact (listed
    exceptions rest on the presence rule C12.R5).
Not decided: accesses to objects of unknown extent (C strings, libc objects, raw header
data) are counted and reported by category, not proven; aborts inside libc.
"""
import os, re, collections
from concurrent.futures import ProcessPoolExecutor
from ..context import Context
from ..report import Report
from ..facts import Facts, Matcher, ANY, is_const, const_val, describe, describe_fact
from ..rules import stores_to_field, loads_of_field, guarded_site, rets, blocks_reachable_from
from ..callgraph import CallGraph
from ..own import Ownership, zero_alias_closure
from ..mem import root
from ..range import I

HDR = "LHAFileHeader"
UNITS = {
    "stream": ({("LHAInputStream", "leadin_len"): (0, 24)}, {"lha_input_stream_read": {1: ("param", 2)}, "file_source_read": {1: ("param", 2)}}),
    "macbinary": ({("MacBinaryDecoder", "mb_header_bytes"): (0, 128)}, "decoder-types"),
    "basic_reader": ({}, {"lha_basic_reader_read_compressed": {1: ("param", 2)}, "decoder_callback": {0: ("param", 1)}}),
    "reader": ({}, {"lha_reader_read": {1: ("param", 2)}}),
    "decoder": ({}, {"lha_decoder_read": {1: ("param", 2)}, "lha_crc16_buf": {1: ("param", 2), 0: 2}}),
    "header": ({}, {}), "crc16": ({}, {"lha_crc16_buf": {1: ("param", 2), 0: 2}}), "arch": ({}, {}),
    "src_list": ({}, {}), "src_extract": ({}, {}), "src_main": ({}, {}), "src_filter": ({}, {}), "src_safe": ({}, {}),
}
ASSUMED = [
    # (unit regex, src fn regex, object regex, kind regex, name)
    (r"^decoder$", r"^(lha_decoder_read|lha_crc16_buf)$", r"^param 1$", r".", "A-decoder-clamp"),
    (r"^header$", r".", r"^heap$", r".", "A-rawdata"),
]
REASONS = {
    "A-libc-tm": "localtime() returns tm_mon in 0..11 (libc contract); months[] has 12 entries",
    "A-decoder-clamp": "lha_decoder_read copies bytes = min(buffered, limit - filled) with limit <= buf_len into buf + filled, and the CRC runs over buf[0..filled): "
                       "the relational chain through the clamped request is decided structurally by C14 R2/R2b/R1 (support), not by the interval domain",
    "A-rawdata": "accesses into the header's raw data (a realloc'ed block of sizeof(header) + raw_data_len bytes): the length guards are proven to be in force at each access "
                 "(C12 R1c, R4a-R4g; R3 here); the arithmetic relating raw_data_len to the guard constants is not decided (DESIGN: C08 'not decided')",
}
NULLABLE = ("path", "filename", "symlink_target", "unix_username", "unix_group")
STRING_FNS = {"strlen", "strcmp", "strncmp", "strcat", "strcpy", "strchr", "strrchr", "strdup", "memcpy", "memcmp", "printf", "fprintf", "sprintf",
              "safe_printf", "safe_fprintf", "puts", "fputs", "fopen", "stat", "mkdir", "unlink", "symlink", "open", "chmod", "chown", "utime", "remove",
              "llvm.memcpy.p0i8.p0i8.i64", "strncpy", "strncat"}


def _worker(args):
    unit_name, path, cands, extra = args
    from ..ir import Module
    from ..rangedrv import analyse_generic_unit, all_obligations, decoder_types
    mod = Module(path)
    if extra == "decoder-types":
        extra = {}
        for t in decoder_types(mod):
            for role in ("init", "read"):
                if t[role]:
                    cn = re.sub(r"\.\d+$", "", t[role])
                    extra.setdefault(cn, {})[0] = t["extra_size"]
                    if role == "read":
                        extra[cn][1] = t["max_read"]
    unit, entries, contracts, res = analyse_generic_unit(mod, extra_contracts=extra, candidates={k: I(*v) for k, v in cands.items()})
    out = {"unit": unit_name, "entries": len(entries), "obligations": [], "counts": {}}
    cnt = collections.Counter()
    for o in all_obligations(unit, res, entries):
        if o.ok:
            cls = "ok-symbolic" if (o.note or "").startswith("symbolic") else "ok"
        else:
            cls = None
            for un, src, obj, kind, name in ASSUMED:
                chain = [l.get("fn") or "" for l in (o.inst.loc or [])] or [o.inst.src_fn() or ""]     # a helper extracted from a listed function is that function's code
                if re.search(un, unit_name) and any(re.search(src, c) for c in chain) and re.search(obj, o.desc) and re.search(kind, o.kind):
                    cls = "assumed:" + name
            if cls is None and o.kind == "load" and _tm_mon_indexed(o):
                cls = "assumed:A-libc-tm"
            if cls is None:
                cls = "unknown-extent" if o.ok is None else "UNPROVEN"
        cnt[cls] += 1
        rec = {"class": cls, "fn": o.inst.fn.cname, "src_fn": o.inst.src_fn(), "object": o.desc, "kind": o.kind, "where": o.inst.where(), "off": repr(o.off),
               "width": repr(o.width), "size": repr(o.size), "note": o.note}
        if cls not in ("ok",) or len(out["obligations"]) < 4:
            out["obligations"].append(rec)
    out["counts"] = dict(cnt)
    out["candidates"] = {"%s.%s" % k: v for k, v in cands.items()}
    return out


def _tm_mon_indexed(o):
    """a table of at least twelve entries indexed by nothing but the tm_mon member of a struct tm (whatever the table is called, wherever it lives)"""
    fn = o.inst.fn
    mod = fn.mod
    if o.size is None or not isinstance(o.size, int) or not o.width or o.size < 12 * o.width:
        return False
    d = fn.defn(o.inst.ops[0])
    for _ in range(4):
        if d is None or d.is_param:
            return False
        if d.op == "bitcast":
            d = fn.defn(d.ops[0])
            continue
        break
    if d is None or d.is_param or d.op != "getelementptr":
        return False
    idx = [st["idx"] for st in d.steps if st["k"] in ("arr", "ptr") and st["idx"][0] != "ci"]
    if len(idx) != 1:
        return False
    x = fn.defn(idx[0])
    while x is not None and not x.is_param and x.op in ("sext", "zext"):
        x = fn.defn(x.ops[0])
    if x is None or x.is_param or x.op != "load":
        return False
    g = fn.defn(x.ops[0])
    if g is None or g.is_param or g.op != "getelementptr":
        return False
    fs = [st for st in g.steps if st["k"] == "field"]
    return len(fs) == 1 and mod.struct_cname(fs[0]["struct"]) == "tm" and mod.field_name(fs[0]["struct"], fs[0]["field"]) == "tm_mon"


def _sconst(o):
    c = const_val(o)
    return c - (1 << 64) if c is not None and c >= (1 << 63) else c


def _descending_cursor(ctx, mod, fn, M, inst, addr):
    """pointer form of an end-relative access: the address is a cursor that starts at s + strlen(s) [- c] and is moved towards the
    start of the string (`end = s + strlen(s) - 1; while (*end == '/') --end;`).  Returns None if the address is not of that
    form, else True/False: is the access guarded by a comparison of the cursor with the start of the string?"""
    def ptr_leaves(o, seen, neg):
        o = M.strip(o, ("bitcast",))
        d = fn.defn(o)
        if d is None or d.is_param:
            return [(o, neg)]
        if d.op == "phi":
            if d.id in seen:
                return []
            out = []
            for v_, _ in d.incoming:
                out += ptr_leaves(v_, seen | {d.id}, neg)
            return out
        if d.op == "getelementptr" and len(d.ops) == 2 and is_const(d.ops[1]) and _sconst(d.ops[1]) is not None:
            return ptr_leaves(d.ops[0], seen, neg or _sconst(d.ops[1]) < 0)
        return [(o, neg)]

    def int_leaves(o, seen):
        o = M.strip(o)
        d = fn.defn(o)
        if d is None or d.is_param:
            return {o}
        if d.op == "phi":
            if d.id in seen:
                return set()
            out = set()
            for v_, _ in d.incoming:
                out |= int_leaves(v_, seen | {d.id})
            return out
        if d.op in ("add", "sub") and is_const(d.ops[1]):
            return int_leaves(d.ops[0], seen)
        return {o}
    a0 = M.strip(addr, ("bitcast",))
    d0 = fn.defn(a0)
    if d0 is None or d0.is_param or d0.op not in ("phi", "getelementptr"):
        return None
    lv = ptr_leaves(a0, frozenset(), False)
    if not lv or not any(n for _, n in lv):
        return None
    base = None
    for leaf, _ in lv:
        g = fn.defn(leaf)
        if g is None or g.is_param or g.op != "getelementptr" or len(g.ops) != 2:
            return None
        b = M.strip(g.ops[0], ("bitcast",))
        il = int_leaves(g.ops[1], frozenset())
        if not il or not all(fn.defn(x) is not None and not fn.defn(x).is_param and fn.defn(x).op == "call" and mod.callee_cname(fn.defn(x)) == "strlen"
                             and (M.strip(fn.defn(x).ops[0], ("bitcast",)) == b or M.equiv(M.strip(fn.defn(x).ops[0], ("bitcast",)), b)) for x in il):
            return None
        if base is not None and base != b:
            return None
        base = b
    F = ctx.facts(fn)
    for f in F.at_inst(inst):
        if f[0] == "in":
            continue
        x, y = M.strip(f[1], ("bitcast",)), M.strip(f[2], ("bitcast",)) if isinstance(f[2], tuple) else f[2]
        if x == a0 and y == base and f[0] in ("uge", "ugt", "sge", "sgt"):
            return True
        if y == a0 and x == base and f[0] in ("ule", "ult", "sle", "slt"):
            return True
    return False



# ---- R6: unbounded string writers into objects of known extent -------------------------------------------------------------------------
UNBOUNDED_WRITERS = {"sprintf": 1, "vsprintf": 1, "strcpy": None, "strcat": None, "stpcpy": None, "gets": None}
_CONV = re.compile(r"%([-+ #0]*)(\*|\d+)?(?:\.(\*|\d+))?(hh|h|ll|l|j|z|t|L)?([diouxXeEfFgGaAcspn%])")


def format_max_len(fmt, string_arg_len=None):
    """largest number of bytes (without the NUL) a printf format can produce, or None when it has no bound
    (a %s without precision whose argument length is unknown, a '*' width, any floating conversion: a double prints up to 310 digits)"""
    n, pos = 0, 0
    k = 0
    for m in _CONV.finditer(fmt):
        n += len(fmt[pos:m.start()].replace("%%", "%"))
        pos = m.end()
        flags, width, prec, length, conv = m.groups()
        if conv == "%":
            n += 1
            continue
        if width == "*" or prec == "*":
            return None
        w = int(width) if width else 0
        if conv == "c":
            body = 1
        elif conv in "di":
            body = 20 if length in ("l", "ll", "j", "z", "t") else 11
        elif conv in "u":
            body = 20 if length in ("l", "ll", "j", "z", "t") else 10
        elif conv in "xX":
            body = (16 if length in ("l", "ll", "j", "z", "t") else 8) + (2 if "#" in flags else 0)
        elif conv == "o":
            body = (22 if length in ("l", "ll", "j", "z", "t") else 11) + 1
        elif conv == "s":
            if prec is not None:
                body = int(prec)
            elif string_arg_len is not None and string_arg_len(k) is not None:
                body = string_arg_len(k)
            else:
                return None
        elif conv == "p":
            body = 18
        else:
            return None                 # e f g a: no useful bound; n: writes
        if prec is not None and conv in "diouxX":
            body = max(body, int(prec) + 1)
        n += max(w, body)
        k += 1
    n += len(fmt[pos:])
    return n


def dest_extent(mod, fn, op):
    """bytes from the destination pointer to the end of the object it points into, when that object has a known extent
    (a local, a global, an array field of a struct); None for heap blocks and strings of unknown extent"""
    off = 0
    for _ in range(32):
        d = fn.defn(op)
        if d is None:
            if op[0] == "gv":
                g = mod.globals.get(op[1])
                return (g["size"] - off) if g and g.get("size") else None
            return None
        if d.is_param:
            return None
        if d.op == "bitcast":
            op = d.ops[0]
            continue
        if d.op == "getelementptr":
            steps = d.steps
            c = 0
            for i, st in enumerate(steps):
                if st["k"] == "field":
                    c += st["off"]
                    fsz = mod.types[st["struct"]]["fields"][st["field"]]["size"]
                    rest = steps[i + 1:]
                    if all(x["k"] in ("arr", "ptr") and x["idx"][0] == "ci" for x in rest):
                        inner = sum(x["idx"][1] * x["el_size"] for x in rest)
                        # an array member: the extent is the member's, whatever lies above
                        if mod.types[st["struct"]]["fields"][st["field"]].get("ty", "").startswith("["):
                            return fsz - inner - off
                elif st["k"] in ("arr", "ptr"):
                    if st["idx"][0] != "ci":
                        return None
                    c += st["idx"][1] * st["el_size"]
                else:
                    return None
            off += c
            op = d.ops[0]
            continue
        if d.op == "alloca":
            sz = d.d.get("alloc_size")
            return (sz - off) if sz is not None else None
        return None
    return None


def string_writer_sites(mod):
    """(function, call, extent, max_len or None, ok) for every sprintf / strcpy / strcat ... whose destination has a known extent"""
    out = []
    for f in mod.defined():
        for c in f.insts():
            if c.op != "call":
                continue
            nm = mod.callee_cname(c)
            if nm not in UNBOUNDED_WRITERS:
                continue
            ext = dest_extent(mod, f, c.ops[0])
            if ext is None:
                out.append((f, c, None, None, None))
                continue
            mx = None
            if nm in ("sprintf",):
                fmt = mod.const_string(c.ops[1]) if len(c.ops) > 1 else None
                if fmt is not None:
                    fmt = fmt.split(b"\0")[0].decode("latin-1")

                    def arglen(k, c=c, f=f):
                        a = c.ops[2 + k] if len(c.ops) > 2 + k else None
                        lit = mod.const_string(a) if a is not None else None
                        return len(lit.split(b"\0")[0]) if lit is not None else None
                    mx = format_max_len(fmt, arglen)
            elif nm in ("strcpy", "stpcpy"):
                lit = mod.const_string(c.ops[1]) if len(c.ops) > 1 else None
                mx = len(lit.split(b"\0")[0]) if lit is not None else None
            # strcat needs the length already there; gets and vsprintf have no bound at all
            out.append((f, c, ext, mx, mx is not None and mx + 1 <= ext))
    return out


def end_index_accesses(ctx, mod):
    """[(access instruction, c, guarded?)] for every byte access s[n - c] (c >= 1) whose n derives from strlen(s)"""
    out = []
    for fn in mod.defined():
        M = None
        for i in fn.insts():
            if i.op not in ("load", "store") or i.size != 1:
                continue
            addr = i.ops[0] if i.op == "load" else i.ops[1]
            g = fn.defn(addr)
            M = M or Matcher(fn)
            pw = _descending_cursor(ctx, mod, fn, M, i, addr)
            if pw is not None:
                out.append((i, 1, pw))
                continue
            if g is None or g.is_param or g.op != "getelementptr" or len(g.ops) != 2:
                continue
            base = M.strip(g.ops[0], ("bitcast",))
            idx = M.strip(g.ops[1])
            di = fn.defn(idx)
            if di is None or di.is_param or di.op not in ("add", "sub") or not is_const(di.ops[1]):
                continue
            c = const_val(di.ops[1])
            if c >= (1 << 63):
                c -= (1 << 64)
            c = c if di.op == "sub" else -c
            if c < 1 or c > 64:
                continue
            V = M.strip(di.ops[0])

            def leaves(o, seen):
                o = M.strip(o)
                d = fn.defn(o)
                if d is None or d.is_param:
                    return {o}
                if d.op == "phi":
                    if d.id in seen:
                        return set()
                    out = set()
                    for v_, _ in d.incoming:
                        out |= leaves(v_, seen | {d.id})
                    return out
                if d.op in ("add", "sub") and is_const(d.ops[1]):
                    return leaves(d.ops[0], seen)
                return {o}
            lv = leaves(V, frozenset())
            if not lv or not all(fn.defn(x) is not None and not fn.defn(x).is_param and fn.defn(x).op == "call" and mod.callee_cname(fn.defn(x)) == "strlen"
                                 and (M.strip(fn.defn(x).ops[0], ("bitcast",)) == base or M.equiv(M.strip(fn.defn(x).ops[0], ("bitcast",)), base)) for x in lv):
                continue
            F = ctx.facts(fn)
            ok = False
            for f in F.at_inst(i):
                if M.strip(f[1]) == V and is_const(f[2]):
                    k = const_val(f[2])
                    if (f[0] == "ugt" and k >= c - 1) or (f[0] == "uge" and k >= c) or (f[0] == "ne" and k == 0 and c == 1) or (f[0] == "eq" and k >= c):
                        ok = True
            out.append((i, c, ok))
    return out


def _excludes_zero(M, fact, v):
    """does the fact (op, a, b) exclude v == 0 ?"""
    op, a, b = fact[0], fact[1], fact[2]
    sv = M.strip(v)
    for x, y, o in ((a, b, op), (b, a, {"ugt": "ult", "ult": "ugt", "uge": "ule", "ule": "uge", "sgt": "slt", "slt": "sgt", "sge": "sle", "sle": "sge"}.get(op, op))):
        if M.strip(x) != sv:
            continue
        if is_const(y):
            c = const_val(y)
            if (o == "ne" and c == 0) or (o in ("ugt", "sgt") and c is not None and c >= 0) or (o in ("uge", "sge") and c is not None and c >= 1) or (o == "eq" and c not in (0, None)):
                return True
        elif o == "ugt":
            return True                         # v >u anything
    return False


def divisor_nonzero(mod, fn, F, M, site, v, depth=0):
    """a reason why v != 0 at the division `site`, or None"""
    from ..lin import maxbits
    if is_const(v):
        return "constant %s" % const_val(v) if const_val(v) != 0 else None
    for fc in F.at_inst(site):
        if len(fc) >= 3 and _excludes_zero(M, fc, v):
            return "under the fact %s" % describe_fact(fn, fc)
    d = fn.defn(M.strip(v))
    if d is None or d.is_param or depth > 4:
        return None
    w = mod.int_bits(d.ty) or 64
    if d.op in ("zext", "sext"):
        return divisor_nonzero(mod, fn, F, M, site, d.ops[0], depth + 1)
    if d.op == "or" and any(is_const(x) and const_val(x) not in (0, None) for x in d.ops):
        return "or with a non-zero constant"
    if d.op == "add":
        for a, b in ((d.ops[0], d.ops[1]), (d.ops[1], d.ops[0])):
            if is_const(b) and const_val(b) is not None and 1 <= const_val(b) < (1 << (w - 1)):
                k = maxbits(fn, a)
                da = fn.defn(M.strip(a))
                if k is None and da is not None and not da.is_param and da.op in ("udiv", "lshr") and is_const(da.ops[1]) and (const_val(da.ops[1]) or 0) >= (2 if da.op == "udiv" else 1):
                    k = w - 1
                if k is not None and k < w:
                    return "%d + a value below 2^%d: the sum cannot wrap to 0" % (const_val(b), k)
    if d.op in ("phi", "select"):
        vals = [x for x, _ in d.incoming] if d.op == "phi" else d.ops[1:]
        rs = [divisor_nonzero(mod, fn, F, M, site, x, depth + 1) for x in vals if x != ("v", d.id)]
        return "every source: " + "; ".join(rs) if rs and all(rs) else None
    if d.op == "load" and M.match(("load", ("field", "LHADecoderType", "block_size", ANY)), ("v", d.id), {}) is not None:
        return _block_size_reason(mod)
    return None


_BS = {}


def _block_size_reason(mod):
    """dtype->block_size as a divisor: every decoder type has a constant block size; those with 0 (the MacBinary pass-through, which reports no
    progress of its own) must never reach lha_decoder_monitor: their constructors' results go to fields that no monitor call reads"""
    if id(mod) in _BS:
        return _BS[id(mod)]
    st = mod.types.get("%struct._LHADecoderType")
    idx = next((k for k, fl in enumerate(st["fields"]) if fl.get("name") == "block_size"), None) if st else None
    res = None
    zero, n = [], 0
    if idx is not None:
        for name, g in mod.globals.items():
            if g.get("ty") != "%struct._LHADecoderType" or "init" not in g:
                continue
            n += 1
            if g["init"].get("k") == "zero":
                zero.append(name)
                continue
            el = g["init"]["elems"][idx]
            v = el.get("v")
            if not (el.get("k") == "scalar" and v and v[0] == "ci"):
                _BS[id(mod)] = None
                return None
            if v[1] == 0:
                zero.append(name)
        ok = n >= 10
        # writers of block_size outside the initialisers?
        if stores_to_field(mod, "LHADecoderType", "block_size"):
            ok = False
        if ok and zero:
            ok = _zero_block_types_unmonitored(mod, zero)
        if ok:
            res = "block size of a decoder type: %d constant tables, non-zero in all but %s, whose decoders never reach lha_decoder_monitor" % (n, sorted(zero) or "none")
    _BS[id(mod)] = res
    return res


def _refs_global(fn, names):
    def has(o, depth=0):
        if o is None or depth > 4:
            return False
        if o[0] == "gv":
            return o[1] in names
        if o[0] == "ce":
            return any(has(x, depth + 1) for x in o[1].ops)
        return False
    return any(has(o) for i in fn.insts() for o in i.ops if isinstance(o, tuple))


def _zero_block_types_unmonitored(mod, zero):
    """field-based provenance: results of the functions that build a decoder of a zero-block type (they name its table) are stored only into fields
    that no lha_decoder_monitor argument (and no progress_callback store) is loaded from"""
    from ..ir import field_of_gep
    def init_refs(x, depth=0):
        if isinstance(x, dict):
            return any(init_refs(v, depth + 1) for v in x.values())
        if isinstance(x, (list, tuple)):
            if len(x) == 2 and x[0] == "gv" and x[1] in zero:
                return True
            return any(init_refs(v, depth + 1) for v in x)
        ops = getattr(x, "ops", None)
        return bool(ops) and any(init_refs(v, depth + 1) for v in ops)
    for name, g in mod.globals.items():
        if name not in zero and "init" in g and init_refs(g["init"]):
            return False                        # listed in a table (lha_decoder_for_name hands it to anyone, who may attach a monitor)
    Z = {f.name for f in mod.defined() if _refs_global(f, set(zero))}
    if not Z:
        return True

    def from_Z(fn, o, seen, depth=0):
        """may operand o hold a decoder built by a Z function?"""
        M = Matcher(fn)
        o = M.strip(o)
        d = fn.defn(o)
        if o[0] == "null" or is_const(o):
            return False
        if d is None or depth > 5:
            return True
        if d.is_param:
            return True                         # unknown provenance
        if d.op == "call":
            if d.callee in Z:
                return True
            callee = mod.functions.get(d.callee) if d.callee else None
            if callee is None or callee.decl:
                return d.callee is None         # an indirect call could return anything; a library function returns no decoder of ours
            if callee.name in seen:
                return False
            seen = seen | {callee.name}
            return any(r.ops and from_Z(callee, r.ops[0], seen, depth + 1) for r in rets(callee))
        if d.op in ("phi", "select"):
            vals = [x for x, _ in d.incoming] if d.op == "phi" else d.ops[1:]
            return any(from_Z(fn, x, seen, depth + 1) for x in vals if x != ("v", d.id))
        if d.op == "load":
            pd = fn.defn(M.strip(d.ops[0]))
            fld = field_of_gep(mod, pd) if pd is not None and not pd.is_param and pd.op == "getelementptr" else None
            if fld is None:
                return True
            if fld in seen:
                return False
            seen = seen | {fld}
            sts = stores_to_field(mod, fld[0], fld[1])
            return any(from_Z(st.fn, st.ops[0], seen, depth + 1) for st in sts)
        return True
    for f in mod.defined():
        if f.name in Z:
            continue
        for c in f.calls("lha_decoder_monitor"):
            dd = f.defn(Matcher(f).strip(c.ops[0]))
            if dd is not None and dd.is_param:
                continue                        # a forwarding wrapper: its own callers are looked at when they call it
            if from_Z(f, c.ops[0], frozenset()):
                return False
    return True


def ctype_sites(mod, facts_of):
    """(function, gep, index operand, ok) for every lookup in a <ctype.h> table; facts_of(fn) gives the Facts of a function"""
    from ..lin import maxbits as _mb
    for f in mod.defined():
        if f.file.startswith("/usr/"):
            continue
        Fc = Mc = None
        for i in f.insts():
            if i.op != "call" or (mod.callee_cname(i) or "") not in ("__ctype_b_loc", "__ctype_tolower_loc", "__ctype_toupper_loc"):
                continue
            for ld in f.users(i.id):
                for g in f.users(ld.id):
                    if g.op != "getelementptr" or not g.steps:
                        continue
                    if Fc is None:
                        Fc, Mc = facts_of(f), Matcher(f)
                    fs = list(Fc.at_inst(g))
                    if any(fc_[0] == "ne" and is_const(fc_[2]) and const_val(fc_[2]) == 0 and getattr(f.defn(Mc.strip(fc_[1])), "op", "") == "call"
                           and (getattr(f.defn(Mc.strip(fc_[1])), "callee", "") or "").startswith("llvm.is.constant") for fc_ in fs if len(fc_) >= 3):
                        continue            # the branch glibc's macro takes for a compile-time constant argument: folded away by the compiler
                    idx = g.steps[-1].get("idx")
                    x = idx
                    okc = False
                    for _ in range(4):
                        d = f.defn(x) if x is not None else None
                        if d is None or d.is_param:
                            break
                        sw = mod.int_bits(f.defn(d.ops[0]).ty) if d.op in ("sext", "zext") and f.defn(d.ops[0]) is not None else None
                        if d.op == "zext" and sw is not None and sw <= 8:
                            okc = True
                            break
                        if d.op == "sext" and sw is not None and sw <= 8:
                            okc = True      # a signed char: -128..127
                            break
                        k = _mb(f, x)
                        if k is not None and k <= 8:
                            okc = True
                            break
                        if d.op in ("sext", "zext"):
                            x = d.ops[0]
                            continue
                        break
                    if not okc and x is not None:
                        sx = Mc.strip(x)
                        lo = any(len(fc_) >= 3 and fc_[0] in ("sge", "sgt") and Mc.strip(fc_[1]) == sx and is_const(fc_[2]) and (const_val(fc_[2]) or 0) - (1 << 64 if (const_val(fc_[2]) or 0) >= (1 << 63) else (1 << 32 if (const_val(fc_[2]) or 0) >= (1 << 31) else 0)) >= (-128 if fc_[0] == "sge" else -129) for fc_ in fs)
                        hi = any(len(fc_) >= 3 and fc_[0] in ("slt", "sle", "ult", "ule") and Mc.strip(fc_[1]) == sx and is_const(fc_[2]) and (const_val(fc_[2]) or 1 << 40) <= (256 if fc_[0] in ("slt", "ult") else 255) for fc_ in fs)
                        okc = hi and (lo or any(fc_[0] in ("ult", "ule") for fc_ in fs if len(fc_) >= 3 and Mc.strip(fc_[1]) == sx))
                    yield f, g, idx, okc



def run(tier, seed):
    rep = Report("C08", tier, "other",
                 "Static memory-safety analysis outside the decompressors (claimed in part): the RANGE abstract interpreter with symbolic linear "
                 "bounds proves every access to an object of known extent in the stream, reader, MacBinary, decoder-wrapper, header and CLI units "
                 "(including the inductive invariant leadin_len <= 24 of the lead-in scan and the (pointer, length) contracts of the read "
                 "functions); available-facts rules show that extended-header decoders run only with data_len >= min_len, that a reallocated "
                 "header is published before any return, that a header linked into the reader's directory stack or deferred-symlink list holds a reference of its own on every path, "
                 "that the extended-header dispatcher - evaluated for all 256 type bytes against the registry's own min_len column - never runs a decoder on fewer bytes, "
                 "that released fields are cleared before reuse, that the header is freed only at "
                 "reference count zero, and that nullable header strings are used only under a non-NULL fact, and that sprintf/strcpy-style writers into objects of known extent have a static output bound that fits (R6). Accesses to objects of unknown "
                 "extent (C strings, libc objects, the realloc'ed raw header data) are counted by category and NOT proven; for raw header data "
                 "the guards are shown to be in force (C12) but their arithmetic sufficiency is not decided.")
    with Context(tier) as ctx:
        from .. import selfcheck
        selfcheck.run(ctx, rep, ['range', 'own', 'facts'])
        mod = ctx.plain()
        cg = CallGraph(mod)
        paths = ctx.views.inlined_many(list(UNITS))
        with ProcessPoolExecutor(max_workers=min(12, os.cpu_count() or 4)) as ex:
            results = list(ex.map(_worker, [(u, paths[u], UNITS[u][0], UNITS[u][1]) for u in UNITS]))
        rid = rep.rule("R1", "every access to an object of known extent outside the decoders is in bounds (intervals + symbolic linear bounds; inductive field invariants)", 1200)
        total = collections.Counter()
        unknown_cats = collections.Counter()
        for r in results:
            u = r["unit"]
            for cls, n in r["counts"].items():
                total[cls] += n
            for _ in range(r["counts"].get("ok", 0)):
                rep.rules[rid]["ok"] += 1
            for o in r["obligations"]:
                inst = "%s/%s: %s %s of %s" % (u, o["fn"], o["src_fn"], o["kind"], o["object"])
                if o["class"] == "ok":
                    rep.sample({"unit": u, "obligation": inst, "offset": o["off"], "extent": o["size"], "status": "discharged (intervals)"})
                elif o["class"] == "ok-symbolic":
                    rep.ok(rid, inst, o["note"], o["where"])
                    rep.sample({"unit": u, "obligation": inst, "offset": o["off"], "extent": o["size"], "status": o["note"]})
                elif o["class"].startswith("assumed:"):
                    nm = o["class"].split(":", 1)[1]
                    rep.assumed(rid, inst, nm, REASONS[nm], o["where"])
                elif o["class"] == "unknown-extent":
                    unknown_cats["%s: %s" % (u, o["object"])] += 1
                else:
                    rep.violation(rid, inst, o["where"], "not provable in bounds: offset %s, access %s, extent %s (%s)" % (o["off"], o["width"], o["size"], o["note"]),
                                  function=o["src_fn"], obj="%s:%s" % (u, o["object"]))
        rep.extra["obligation_classes"] = dict(total)
        rep.extra["unknown_extent_by_object"] = dict(unknown_cats)
        rep.extra["inductive_invariants"] = {r["unit"]: r["candidates"] for r in results if r["candidates"]}
        rep.analysed = {"view": "inlined units + plain", "units": list(UNITS), "entries": sum(r["entries"] for r in results)}

        # ---- R2 K3 ---------------------------------------------------------------------------------------
        rid = rep.rule("R2", "an extended-header decoder is called only with data_len >= its registry min_len", 1)
        ed = rep.need(rid, mod.fn("lha_ext_header_decode"), "function lha_ext_header_decode")
        if ed:
            # decided by evaluating the dispatcher for all 256 type bytes against the registry table as it stands in the code (its own
            # min_len column): with min_len - 1 bytes no decoder runs, with min_len bytes the registered one does, and it receives
            # (header, data, data_len) unchanged; unregistered types reach no decoder at all
            from ..exthdr import registry_entries, evaluate_dispatch
            ents = registry_entries(mod)
            if not ents:
                rep.broken(rid, "registry table ext_header_types not found or not constant-initialised")
            else:
                wrong, incon = evaluate_dispatch(mod, ed, {t: (d, ml) for t, d, ml in ents}, safety_only=True)
                if incon:
                    rep.broken(rid, "dispatcher not evaluable for type 0x%02x: %s" % incon[0])
                rep.check(rid, not wrong and not incon, "every decoder of the registry (%d entries) is reached only with data_len >= its min_len" % len(ents), "%s:%s" % (ed.file, ed.line),
                          "; ".join(wrong[:4]) if wrong else None, function=ed.cname, obj="dispatch")

        # ---- R3 slice discipline ------------------------------------------------------------------------------
        # Functions that receive a window (data, data_len) into the header's raw bytes: every byte they read lies below data_len by the
        # facts in force at the read - constant offsets need `data_len >= k + w`, offsets counted from the end need `data_len >= that
        # distance`, loop indices need `i < data_len`.  What a caller guarantees about data_len (a guard at the call site) counts.
        rid = rep.rule("R3", "slice discipline: a function given (data, data_len) reads data[k .. k+w) only under facts implying k + w <= data_len", 10)
        from ..lin import Lin, linform
        SLICES = [("process_level0_extended_area", 1, 2),
                  ("process_level0_path", 1, 2)]
        WIDTHS = {"lha_decode_uint16": 2, "lha_decode_uint32": 4, "lha_decode_uint64": 8, "lha_decode_be_uint16": 2, "lha_decode_be_uint32": 4}

        def len_lower_bound(fn, F, M, o, blk, depth=0):
            """a lower bound of integer operand o at block blk from constants, facts and (for parameters) all call sites"""
            if is_const(o):
                return const_val(o)
            best = 0
            for f in F.at_block(blk):
                if f[0] in ("uge", "ugt") and M.strip(f[1]) == M.strip(o) and is_const(f[2]):
                    best = max(best, const_val(f[2]) + (1 if f[0] == "ugt" else 0))
                if f[0] in ("ne",) and M.strip(f[1]) == M.strip(o) and is_const(f[2]) and const_val(f[2]) == 0:
                    best = max(best, 1)
            d = fn.defn(M.strip(o))
            if d is not None and d.is_param and depth < 3:
                sites = [(c.fn, c) for (caller, callee), cs in cg.sites.items() if callee == fn.name for c in cs]
                if sites and fn.internal:
                    lows = []
                    for g, c in sites:
                        Fg, Mg = ctx.facts(g), Matcher(g)
                        arg = c.ops[d.index]
                        lo = len_lower_bound(g, Fg, Mg, arg, c.block.id, depth + 1)
                        # arg == X - Y with a fact X > Y (>= Y) at the call: arg >= 1 (>= 0)
                        def atom(x, g=g):
                            dx = g.defn(x)
                            if dx is None:
                                return None
                            return "p%d" % dx.index if dx.is_param else ("v%d" % dx.id if dx.op in ("phi", "load", "call", "select") else None)
                        la = linform(g, arg, atom)
                        if la is None:
                            # (uint8_t) (a - b - c) with a an 8-bit quantity and b, c non-negative: once a fact shows the difference not to be
                            # negative it lies in [0, a] and the narrowing changes nothing
                            from ..lin import narrowed_difference
                            nd = narrowed_difference(g, arg)
                            if nd is not None:
                                la = linform(g, nd, atom)
                        if la is not None:
                            for f in Fg.at_block(c.block.id):
                                if f[0] in ("ugt", "uge") and not is_const(f[1]):
                                    lx, ly = linform(g, f[1], atom), linform(g, f[2], atom)
                                    if lx is not None and ly is not None and lx.add(ly, -1) == la:
                                        lo = max(lo, 1 if f[0] == "ugt" else 0)
                        lows.append(lo)
                    best = max(best, min(lows))
            return best
        nsl = 0
        for fname, pi, li_ in SLICES:
            fn = mod.fn(fname)
            if fn is None:
                continue            # folded into its caller by a refactoring: its reads are then the caller's (raw-data accesses, A-rawdata)
            if len(fn.params) <= max(pi, li_) or fn.params[pi].ty != "i8*" or (mod.int_bits(fn.params[li_].ty) or 0) < 8:
                continue            # no longer a (byte pointer, length) window: its reads are raw-data accesses of whatever it receives (A-rawdata)
            F, M = ctx.facts(fn), Matcher(fn)
            P, L = fn.params[pi], fn.params[li_]

            def symf(o, fn=fn, M=M, L=L):
                so = M.strip(o)
                if so == ("v", L.id):
                    return "len"
                dd = fn.defn(so)
                if dd is not None and not dd.is_param and dd.op == "phi":
                    return "i%d" % dd.id
                return None

            def basef(o, M=M, P=P):
                return "data" if M.strip(o, ("bitcast",)) == ("v", P.id) else None
            reads = []
            for i in fn.insts():
                if i.op == "load":
                    reads.append((i, i.ops[0], i.size))
                elif i.op == "call" and mod.callee_cname(i) in WIDTHS:
                    reads.append((i, i.ops[0], WIDTHS[mod.callee_cname(i)]))
                elif i.op == "call" and (i.callee or "").startswith("llvm.memcpy"):
                    reads.append((i, i.ops[1], i.ops[2]))
            from ..lin import ptr_form
            for i, addr, w in reads:
                pf = ptr_form(fn, addr, basef, symf)
                if pf is None:
                    continue            # not a read through the window
                off = pf[1]
                nsl += 1
                wl = Lin(w) if isinstance(w, int) else linform(fn, w, symf)
                lb = len_lower_bound(fn, F, M, ("v", L.id), i.block.id)
                ok, why = False, None
                if wl is not None:
                    end = off.add(wl)                      # one past the last byte read, as a form over len and loop indices
                    a_len, c0 = end.t.get("len", 0), end.c
                    idx = [k for k in end.t if k != "len"]
                    if not idx and a_len == 0:
                        ok = c0 <= lb and off.c >= 0
                        why = "needs data_len >= %d, facts give data_len >= %d" % (c0, lb)
                    elif not idx and a_len == 1 and off.t.get("len", 0) == 1:
                        ok = c0 <= 0 and -off.c <= lb        # data[len - d .. len - d + w): d >= w and len >= d
                        why = "reads %d bytes at data_len - %d: needs data_len >= %d, facts give >= %d" % (w if isinstance(w, int) else -1, -off.c, -off.c, lb)
                    elif not idx and a_len == 1 and off.is_const() and off.c == 0:
                        ok = c0 <= 0                          # data[0 .. len)
                        why = "reads data_len + %d bytes from the start" % c0
                    elif len(idx) == 1 and end.t[idx[0]] == 1 and a_len == 0 and isinstance(w, int):
                        # data[i + c .. i + c + w): needs the fact i + (c + w - 1) < len, i.e. i < len when c + w == 1
                        pid = int(idx[0][1:])
                        need = c0 - 1
                        for f in F.at_block(i.block.id):
                            if f[0] == "ult" and M.strip(f[2]) == ("v", L.id):
                                lf = linform(fn, f[1], symf)
                                if lf is not None and lf.t == {idx[0]: 1} and lf.c >= need:
                                    ok = True
                        why = "index phi%d + %d must be below data_len" % (pid, need)
                rep.check(rid, ok, "%s: read of %s byte(s) at data%s" % (fname, w if isinstance(w, int) else "n", (" + %s" % off) if not off.is_const() or off.c else ""), i.where(),
                          why, function=fname, obj="read@%s" % off)
        rep.extra["slice_reads"] = nsl

        # ---- R3b: indexing a string from its end ------------------------------------------------------------------------------
        # s[strlen(s) - c] (directly, or through a counter that starts at strlen(s) and is decremented) underflows for strings shorter
        # than c - the empty string for c = 1 - and then reads or writes before the start of the block, whatever its size.  Required at
        # the access: a fact that the length (counter) is at least c.
        rid = rep.rule("R3b", "a string indexed from its end, s[strlen(s) - c] or s[n - c] with n counted down from strlen(s), is accessed only under a fact n >= c", 0)
        nend = 0
        for i, c, ok in end_index_accesses(ctx, mod):
            nend += 1
            rep.check(rid, ok, "%s: %s of s[n - %d] with n derived from strlen(s)" % (i.src_fn(), i.op, c), i.where(),
                      None if ok else "no fact that n >= %d here: for a string shorter than %d byte(s) the index wraps and the access lies before the start of the string" % (c, c),
                      function=i.fn.cname, obj="end-index")
        rep.extra["end_indexed_string_accesses"] = nend

        # ---- the length guards in force at the raw-data accesses (A-rawdata rests on them): the rules of C12, run here as well ------
        from .c12 import length_rules
        length_rules(rep, ctx, mod, cg, prefix="C12.")

        # ---- R4a realloc publication ------------------------------------------------------------------------
        rid = rep.rule("R4a", "after a successful realloc the new block is stored back to where the old pointer came from on every path to a return", 1)
        nre = 0
        for fn in mod.defined():
            F = None
            M = Matcher(fn)
            for c in fn.calls("realloc"):
                nre += 1
                F = F or ctx.facts(fn)
                old = M.strip(c.ops[0], ("bitcast",))
                dold = fn.defn(old)
                if dold is None or dold.is_param or dold.op != "load":
                    rep.violation(rid, "%s: realloc of a value not loaded from memory" % fn.cname, c.where(), "cannot identify the owner slot", function=fn.cname, obj="slot")
                    continue
                slot = dold.ops[0]
                aliases = zero_alias_closure(fn, c.id)
                pubs = [s for s in fn.insts() if s.op == "store" and s.ops[0][0] == "v" and s.ops[0][1] in aliases and M.equiv(M.strip(s.ops[1], ("bitcast",)), M.strip(slot, ("bitcast",)))]
                cut = set()
                for s in pubs:
                    cut |= {(s.block.id, x) for x in s.block.succs}
                cut |= F.edges_with_fact(("eq", ("inst", c.id), 0))
                bad = []
                for r in rets(fn):
                    if any(s.block.id == r.block.id and s.idx < r.idx for s in pubs):
                        continue
                    if r.block.id == c.block.id or F.reaches_avoiding(c.block.id, r.block.id, cut):
                        bad.append(r)
                rep.check(rid, bool(pubs) and not bad, "%s: reallocated block is published to *%s before every return" % (fn.cname, describe(fn, slot, 1)), c.where(),
                          "a return at %s is reachable after a successful realloc without storing the new pointer: the caller is left with a dangling pointer" % bad[0].where() if bad else
                          ("never stored back" if not pubs else None), function=fn.cname, obj="publish")
        rep.check(rid, nre >= 1, "realloc sites found", "lib/", "%d" % nre, function="realloc", obj="count")

        # ---- R4b free-then-clear ---------------------------------------------------------------------------------
        rid = rep.rule("R4b", "after releasing the value of a pointer field the field is overwritten (or its object freed) before the function can use or leave it", 8)
        RELEASE = {"free", "lha_file_header_free", "lha_decoder_free", "lha_basic_reader_free", "fclose"}
        nrel = 0
        for fn in mod.defined():
            if not (fn.file.endswith(".c") and not fn.file.startswith("src")):
                pass
            M = Matcher(fn)
            F = None
            for c in fn.insts():
                if c.op != "call" or mod.callee_cname(c) not in RELEASE or not c.ops:
                    continue
                v = M.strip(c.ops[0], ("bitcast",))
                d = fn.defn(v)
                if d is None or d.is_param or d.op != "load":
                    continue
                a = fn.defn(M.strip(d.ops[0], ("bitcast",)))
                from ..ir import field_of_gep
                fo = field_of_gep(mod, a) if a is not None and not a.is_param and a.op == "getelementptr" else None
                if not fo:
                    continue
                nrel += 1
                base = M.strip(a.ops[0], ("bitcast",))
                # already overwritten between the load that produced the value and the release?
                from ..mem import _between
                pre = [x for x in _between(fn, d, c) if x.op == "store" and fn.defn(M.strip(x.ops[1], ("bitcast",))) is not None and
                       not fn.defn(M.strip(x.ops[1], ("bitcast",))).is_param and fn.defn(M.strip(x.ops[1], ("bitcast",))).op == "getelementptr" and
                       field_of_gep(mod, fn.defn(M.strip(x.ops[1], ("bitcast",)))) == fo and M.equiv(M.strip(fn.defn(M.strip(x.ops[1], ("bitcast",))).ops[0], ("bitcast",)), base)]
                if pre and all(fn.dominates(x.block.id, c.block.id) for x in pre):
                    rep.ok(rid, "%s: %s->%s is overwritten before its old value is released" % (fn.cname, describe(fn, base, 1), fo[1]), None, c.where())
                    continue
                # admissible continuations: a store to the same field of the same base, or a release of the base object itself,
                # before any other load of the field / before returning
                ok, why = _cleared_before_reuse(fn, mod, M, c, fo, base, RELEASE)
                rep.check(rid, ok, "%s: %s->%s released by %s is cleared/overwritten before reuse" % (fn.cname, describe(fn, base, 1), fo[1], mod.callee_cname(c)), c.where(), why,
                          function=fn.cname, obj="%s.%s" % fo)
        rep.extra["release_sites_on_fields"] = nrel
        # free(header) only at refcount 0
        # a header shared with the reader's lists keeps its own reference (otherwise the list dangles after the next advance): rule of C20
        from .c20 import push_pairing_rules
        from ..own import Ownership as _Own
        push_pairing_rules(rep, ctx, mod, _Own(mod, cg), {("LHAReader", "dir_stack"), ("LHAReader", "deferred_symlinks")},
                           [f for f in mod.defined() if f.file.endswith("lha_reader.c")], prefix="C20.")
        rid = rep.rule("R4c", "lha_file_header_free releases the header only when its reference count has reached zero", 2)
        hf = rep.need(rid, mod.fn("lha_file_header_free"), "function lha_file_header_free")
        if hf:
            M = Matcher(hf)
            F = ctx.facts(hf)
            rc = ("load", ("field", HDR, "_refcount", ("param", 0)))
            frees = [c for c in hf.calls("free")]
            rep.check(rid, len(frees) >= 2, "frees found", hf.file, None, function=hf.cname, obj="frees")
            for c in frees:
                fs = F.at_inst(c)
                # the count was decremented and the decremented value is 0 (ule 0 / eq 0), and it was not 0 before
                dec_zero = any(f[0] in ("ule", "eq") and is_const(f[2]) and const_val(f[2]) == 0 and
                               (M.match(("bin", "add", rc, -1), f[1], {}) is not None or M.match(("bin", "sub", rc, 1), f[1], {}) is not None) for f in fs)
                nz = M.find_fact(("ne", rc, 0), fs)[0] is not None
                rep.check(rid, dec_zero and nz, "free under '_refcount was non-zero and reached 0'", c.where(), "facts: %s" % sorted(describe_fact(hf, x) for x in fs)[:5],
                          function=hf.cname, obj="refcount")

        # ---- R5 nullable strings ---------------------------------------------------------------------------------------
        # ---- R6 ----
        rid = rep.rule("R6", "sprintf / vsprintf / strcpy / strcat / gets write into an object of known extent (a local, a global, an array member) only when the "
                             "longest output the format or source can produce, plus the NUL, fits", 0)
        nsw = collections.Counter()
        for f, c, ext, mx, ok in string_writer_sites(mod):
            nm = mod.callee_cname(c)
            if ext is None:
                nsw["heap-or-unknown"] += 1
                continue
            nsw["known-extent"] += 1
            rep.check(rid, bool(ok), "%s: %s into %d bytes" % (f.cname, nm, ext), c.where(),
                      None if ok else ("the output has no static bound (a string conversion without precision, a floating conversion, a variable source)" if mx is None
                                       else "up to %d bytes plus NUL" % mx), function=f.cname, obj=nm)
        rep.extra["string_writers"] = dict(nsw)
        # ---- R7 integer division ---------------------------------------------------------------------------------------
        # An integer division or remainder by zero traps (SIGFPE): an abort the archive can cause if the divisor derives from it.
        rid = rep.rule("R7", "every integer division / remainder has a divisor that cannot be zero: a non-zero constant, a value under a fact excluding 0, "
                             "1 + (something that leaves room), or the block size of a decoder type that can be monitored (all non-zero in the tables)", 4)
        ndiv = collections.Counter()
        for f in mod.defined():
            Fd = Md = None
            for i in f.insts():
                if i.op not in ("udiv", "sdiv", "urem", "srem"):
                    continue
                dv = i.ops[1]
                if is_const(dv):
                    ndiv["constant divisor"] += 1
                    if const_val(dv) == 0:
                        rep.violation(rid, "%s: division by the constant 0" % f.cname, i.where(), None, function=f.cname, obj="div-const0")
                    continue
                if Fd is None:
                    Fd, Md = ctx.facts(f), Matcher(f)
                why = divisor_nonzero(mod, f, Fd, Md, i, dv)
                ndiv["variable divisor"] += 1
                rep.check(rid, why is not None, "%s: divisor %s is never 0" % (f.cname, describe(f, dv)), i.where(),
                          why or "no fact at the division excludes a zero divisor, and its derivation does not either: an archive value that makes it 0 stops the program with SIGFPE",
                          function=f.cname, obj="div-%s" % describe(f, dv))
        rep.extra["integer_divisions"] = dict(ndiv)
        # ---- R7b stack objects of run-time size -------------------------------------------------------------------------
        rid = rep.rule("R7b", "no stack object is sized at run time: every alloca has a constant element count, and alloca() is not called (a variable-length "
                              "array sized from archive data moves the stack pointer by an amount the archive chooses)", 40)
        for f in mod.defined():
            for i in f.insts():
                if i.op == "alloca":
                    okc = (not i.ops) or is_const(i.ops[0])
                    rep.check(rid, okc, "%s: stack object of constant size" % f.cname, i.where(),
                              None if okc else "element count %s is computed at run time" % describe(f, i.ops[0]), function=f.cname, obj="vla")
                elif i.op == "call" and (mod.callee_cname(i) or "") in ("alloca", "__builtin_alloca"):
                    rep.violation(rid, "%s: alloca()" % f.cname, i.where(), "stack allocation through alloca()", function=f.cname, obj="alloca")
        # ---- R7c character-class tables -----------------------------------------------------------------------------------
        # The <ctype.h> macros index a 384-entry table with their argument: defined for -128..255 only.  A plain `char` from the archive that is
        # sign-extended first is fine (>= -128); an int computed from archive bytes is not.
        rid = rep.rule("R7c", "the <ctype.h> tables (__ctype_b_loc, __ctype_tolower_loc, __ctype_toupper_loc) are indexed by a value in -128..255: a byte widened "
                              "to int, or a value under facts that bound it", 0)
        for f, g, idx, okc in ctype_sites(mod, ctx.facts):
            rep.check(rid, okc, "%s: character-class table indexed by %s" % (f.cname, describe(f, idx)), g.where(),
                      None if okc else "the index is not a widened byte and no fact bounds it to -128..255", function=f.cname, obj="ctype")
        rid = rep.rule("R5", "nullable header strings (path, filename, symlink_target, unix_username, unix_group) are used as strings only under a non-NULL fact", 25)
        LISTED = {
            ("is_macbinary_header", "filename"): "MacBinary detection runs for file members only (open_decoder requires a NORMAL entry that is decoded; C12.R5: a file entry always has a name)",
            ("extract_directory", "path"): "directory entries always have a path (C12.R5 presence rule); reached only for -lhd- entries without symlink target",
            ("extract_symlink", "symlink_target"): "called only when header->symlink_target != NULL (extract_normal's dispatch) or for a deferred symlink, which was queued as one",
            ("lha_reader_extract", "path"): "re-presented directory: the header came from dir_stack, i.e. a directory entry (C12.R5: it has a path)",
            ("end_of_top_dir", "path"): "dir_stack holds directory entries only (C12.R5: they have a path)",
            ("print_symlink_line", "symlink_target"): "called under is_symlink (symlink_target != NULL tested in the caller)",
        }
        # the listed exceptions rest on the presence rule of lha_file_header_read: decide it here too (same rule as C12.R5)
        from .c12 import presence_rules
        presence_rules(rep, ctx, mod, cg, prefix="R5p:")
        nuse = 0
        for fn in mod.defined():
            if (fn.file.endswith("lha_file_header.c") or fn.file.endswith("ext_header.c")) and fn.internal:
                continue        # the producer's private helpers: fields are being built here (covered by C11/C12/C20 rules); its exported
                                # functions (lha_file_header_full_path ...) are consumers like any other and are held to the rule
            F = None
            M = Matcher(fn)
            for fld in NULLABLE:
                for ld in loads_of_field(mod, HDR, fld, [fn]):
                    uses = _string_uses(fn, mod, ld)
                    for u, how in uses:
                        nuse += 1
                        F = F or ctx.facts(fn)
                        fs = F.at_inst(u)
                        ok = M.find_fact(("ne", ("inst", ld.id), 0), fs)[0] is not None or \
                            any(f[0] == "ne" and is_const(f[2]) and const_val(f[2]) == 0 and M.match(("load", ("field", HDR, fld, ANY)), f[1], {}) is not None and M.equiv(M.strip(f[1]), ("v", ld.id)) for f in fs)
                        if not ok and u.op == "phi":
                            ok = True
                        if not ok:
                            # a NULL test on an earlier load of the same field of the same header, with nothing in between
                            # that can write the field (direct stores, or calls reaching a writer of the field)
                            from ..mem import _between
                            writers = cg.field_writers(HDR, fld)
                            for f in fs:
                                if f[0] == "ne" and is_const(f[2]) and const_val(f[2]) == 0:
                                    d2 = fn.defn(M.strip(f[1]))
                                    if d2 is not None and not d2.is_param and d2.op == "load" and d2.id != ld.id and \
                                            M.match(("load", ("field", HDR, fld, ANY)), ("v", d2.id), {}) is not None:
                                        a1 = fn.defn(M.strip(ld.ops[0], ("bitcast",)))
                                        a2 = fn.defn(M.strip(d2.ops[0], ("bitcast",)))
                                        if a1 is None or a2 is None or M.strip(a1.ops[0]) != M.strip(a2.ops[0]):
                                            continue
                                        clob = False
                                        for x in _between(fn, d2, ld):
                                            if x.op == "store" and x in stores_to_field(mod, HDR, fld, [fn]):
                                                clob = True
                                            if x.op == "call" and x.callee and (cg.reachable([x.callee]) & writers):
                                                clob = True
                                        if not clob:
                                            ok = True
                        inst = "%s: header->%s used by %s" % (fn.cname, fld, how)
                        if ok:
                            rep.ok(rid, inst, "non-NULL fact available", u.where())
                        elif fld == "path" and _on_dir_stack(fn, M, ld):
                            # by provenance rather than by function: the header is the one on top of the directory stack
                            rep.assumed(rid, inst, "A-present:dir_stack.path", LISTED[("end_of_top_dir", "path")] + "; only extract_directory pushes (C10.R6)", u.where())
                        elif (u.src_fn(), fld) in LISTED or (fn.cname, fld) in LISTED:
                            key = (u.src_fn(), fld) if (u.src_fn(), fld) in LISTED else (fn.cname, fld)
                            rep.assumed(rid, inst, "A-present:%s.%s" % key, LISTED[key], u.where())
                        else:
                            rep.violation(rid, inst, u.where(), "a possibly-NULL header string is used as a string without a dominating NULL test",
                                          function=fn.cname, obj="%s:%s" % (fld, how))
        rep.extra["nullable_string_uses"] = nuse
    return rep.finish(seed)


def _on_dir_stack(fn, M, ld):
    """is the header whose field `ld` loads a member of the reader's directory stack: reader->dir_stack, or the _next of such a member"""
    g = fn.defn(M.strip(ld.ops[0], ("bitcast",)))
    if g is None or g.is_param or g.op != "getelementptr":
        return False
    h = g.ops[0]
    for _ in range(8):
        if M.match(("load", ("field", "LHAReader", "dir_stack", ANY)), h, {}) is not None:
            return True
        e = M.match(("load", ("field", HDR, "_next", ("bind", "h", ANY))), h, {})
        if e is None or "h" not in e:
            return False
        h = e["h"]
    return False


def _string_uses(fn, mod, ld):
    """instructions that treat the loaded pointer as a string / dereference it"""
    out = []
    vals = {ld.id}
    work = [ld.id]
    while work:
        x = work.pop()
        for u in fn.users(x):
            if u.op in ("bitcast", "getelementptr") and u.ops[0] == ("v", x):
                if u.id not in vals:
                    vals.add(u.id)
                    work.append(u.id)
            elif u.op == "phi":
                # merged with other strings (e.g. `path = header->path` / "" default): follow - unless the pointer enters the phi only on
                # edges that carry its non-NULL fact (`p = h->path != NULL ? h->path : ""`): then what comes out is never the NULL
                from ..facts import Facts as _F
                Fx = getattr(fn, "_c08_facts", None) or _F(fn)
                fn._c08_facts = Fx
                safe = True
                for v_, pb_ in u.incoming:
                    if v_ == ("v", x):
                        fs_ = Fx.on_edge(pb_, u.block.id)
                        if not any(f_[0] == "ne" and is_const(f_[2]) and const_val(f_[2]) == 0 and (f_[1] == ("v", ld.id) or f_[1] == ("v", x)) for f_ in fs_):
                            # or a NULL test of another load of the same field of the same object
                            d0 = fn.defn(("v", ld.id))
                            ok2 = False
                            for f_ in fs_:
                                if f_[0] == "ne" and is_const(f_[2]) and const_val(f_[2]) == 0:
                                    d2 = fn.defn(f_[1])
                                    if d2 is not None and not d2.is_param and d2.op == "load" and d0 is not None and d2.ops[0] == d0.ops[0]:
                                        ok2 = True
                                    elif d2 is not None and not d2.is_param and d2.op == "load" and d0 is not None:
                                        g1, g2 = fn.defn(d0.ops[0]), fn.defn(d2.ops[0])
                                        if g1 is not None and g2 is not None and not g1.is_param and not g2.is_param and g1.op == g2.op == "getelementptr" and g1.ops == g2.ops and g1.steps == g2.steps:
                                            ok2 = True
                            if not ok2:
                                safe = False
                if safe:
                    continue
                if u.id not in vals:
                    vals.add(u.id)
                    work.append(u.id)
            elif u.op == "load" and u.ops[0] == ("v", x):
                out.append((u, "dereference"))
            elif u.op == "store" and u.ops[1] == ("v", x):
                out.append((u, "store through it"))
            elif u.op == "call":
                cn = mod.callee_cname(u) or "indirect call"
                if cn == "free" or cn.startswith("llvm.dbg"):
                    continue
                if any(a == ("v", x) for a in u.ops):
                    cf = mod.callee_fn(u)
                    if cf is not None and not cf.decl and cn not in STRING_FNS:
                        # defined callee: does it null-check the parameter before dereferencing?
                        from ..own import Ownership
                        ks = [k for k, a in enumerate(u.ops) if a == ("v", x)]
                        if not _callee_derefs(cf, ks, mod):
                            continue
                    out.append((u, "call %s" % cn))
    # a phi that merges the pointer with a non-NULL default is fine: drop uses reached only through such phis
    res = []
    for u, how in out:
        res.append((u, how))
    return res


def _callee_derefs(cf, ks, mod, depth=0):
    from ..facts import Facts as F_
    if depth > 2:
        return True
    F = F_(cf)
    M = Matcher(cf)
    from ..own import derived_closure
    for k in ks:
        if k >= len(cf.params):
            continue
        p = cf.params[k]
        for v in derived_closure(cf, p.id):
            for u in cf.users(v):
                if (u.op == "load" and u.ops[0] == ("v", v)) or (u.op == "store" and u.ops[1] == ("v", v)) or \
                        (u.op == "call" and any(a == ("v", v) for a in u.ops) and (mod.callee_cname(u) or "") != "free"):
                    if M.find_fact(("ne", ("param", k), 0), F.at_inst(u))[0] is None:
                        return True
    return False


def _cleared_before_reuse(fn, mod, M, call, fo, base, RELEASE):
    """forward search from the release: every path must store to (base).field or release `base` itself before
    loading the field again or returning"""
    from ..ir import field_of_gep

    def is_field_addr(o):
        a = fn.defn(M.strip(o, ("bitcast",)))
        return a is not None and not a.is_param and a.op == "getelementptr" and field_of_gep(mod, a) == fo and M.equiv(M.strip(a.ops[0], ("bitcast",)), base)

    start = (call.block.id, call.idx + 1)
    seen = set()
    work = [start]
    while work:
        b, idx = work.pop()
        if (b, idx) in seen:
            continue
        seen.add((b, idx))
        blk = fn.blocks[b]
        stopped = False
        for i in blk.insts[idx:]:
            if i.op == "store" and is_field_addr(i.ops[1]):
                stopped = True
                break
            if i.op == "call" and mod.callee_cname(i) in RELEASE and i.ops and M.equiv(M.strip(i.ops[0], ("bitcast",)), base):
                stopped = True        # the owner object itself is released
                break
            if i.op == "load" and is_field_addr(i.ops[0]):
                return False, "the released field is loaded again at %s before being overwritten" % i.where()
            if i.op == "ret":
                # leaving the function with a dangling field is admissible only if the base object was a local that dies
                return False, "the function can return at %s with the released pointer still stored in the field" % i.where()
        if not stopped:
            for s in blk.succs:
                work.append((s, 0))
    return True, None
