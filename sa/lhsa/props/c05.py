"""C05 - every well-formed level 0-3 header is returned with exactly its encoded fields.

Decided (claimed in part): the *extraction tables*, recovered from the IR and compared
with the reference tables of the LHA header format held here (DESIGN Appendix B):
 R1 the integer decoders of lha_endian.c are bit-exact little/big endian (E4);
 R2 per level, field <- width @ offset for every header field the level decoder fills;
 R3 extended-header registry (ten types, once each, min_len) and each decoder's effect
    signature (fields written, source offset/width, flag);
 R4 chain walker: size-field width by level, payload slice, next offset;
 R5 level-1 compressed_length is reduced by each extended header's length;
 R6 OS-9 -> Unix permission mapping as a bit matrix (E4);
 R7 DOS date/time bit-fields feeding mktime (E4);
 R8 level-0 Unix / OS-9 extended areas: guards and field offsets.
R9 all-caps folding: fold stores only after both strings scanned clean; DOS-like OS types only.
Not decided: separator normalisation (see C11), mktime's arithmetic, data position (runtime values).
"""
from ..context import Context
from ..report import Report
from ..facts import Facts, Matcher, ANY, is_const, const_val, describe, describe_fact
from ..rules import stores_to_field, rets, guarded_site, success_edges
from ..gf2 import BitEval, sym, TOP, ZERO
from ..lin import Lin, linform, ptr_form
from ..ir import field_of_gep
from ..mem import root

HDR = "LHAFileHeader"
DECODE = {"lha_decode_uint16": ("u16le", 2), "lha_decode_uint32": ("u32le", 4), "lha_decode_uint64": ("u64le", 8),
          "lha_decode_be_uint16": ("u16be", 2), "lha_decode_be_uint32": ("u32be", 4)}


def L(c=0, **t):
    return Lin(c, t)


def field_effects(fn, base_is, symf, fields_struct=HDR):
    """stores to header fields in fn -> list of (field, kind, base, offset Lin | value, inst)"""
    mod = fn.mod
    M = Matcher(fn)
    out = []
    for st in fn.insts():
        if st.op == "store":
            d = fn.defn(M.strip(st.ops[1], ("bitcast",)))
            if d is None or d.is_param or d.op != "getelementptr":
                continue
            fo = field_of_gep(mod, d)
            if not fo:
                # element of an array field: &hdr->field[k]
                d0 = fn.defn(d.ops[0])
                if d0 is not None and not d0.is_param and d0.op == "getelementptr" and field_of_gep(mod, d0):
                    fo0 = field_of_gep(mod, d0)
                    idx = [x["idx"] for x in d.steps if "idx" in x]
                    if fo0[0] == fields_struct and all(is_const(x) for x in idx) and is_const(st.ops[0]):
                        out.append((fo0[1], "const[%d]" % const_val(idx[-1]), None, const_val(st.ops[0]), st))
                continue
            if fo[0] != fields_struct:
                continue
            v = st.ops[0]
            vs = M.strip(v, ("zext", "sext", "bitcast"))
            dv = fn.defn(vs)
            if is_const(vs):
                out.append((fo[1], "const", None, const_val(vs), st))
            elif dv is not None and not dv.is_param and dv.op == "call" and mod.callee_cname(dv) in DECODE:
                pf = ptr_form(fn, dv.ops[0], base_is, symf)
                kind = DECODE[mod.callee_cname(dv)][0]
                # narrowing on the way into the field?
                tr = fn.defn(M.strip(v, ("zext", "sext")))
                if tr is not None and not tr.is_param and tr.op == "trunc":
                    kind += ">trunc%d" % (mod.int_bits(tr.ty) or 0)
                out.append((fo[1], kind, pf[0] if pf else "?", pf[1] if pf else None, st))
            elif dv is not None and not dv.is_param and dv.op == "load" and dv.size == 1:
                pf = ptr_form(fn, dv.ops[0], base_is, symf)
                out.append((fo[1], "u8", pf[0] if pf else "?", pf[1] if pf else None, st))
            elif dv is not None and not dv.is_param and dv.op == "or":
                e = M.match(("bin", "or", ("load", ("field", fields_struct, fo[1], ANY)), ("bind", "c", ("const",))), vs, {})
                if e is not None:
                    out.append((fo[1], "or", None, const_val(e["c"]), st))
                else:
                    out.append((fo[1], "other", None, describe(fn, vs), st))
            elif dv is not None and not dv.is_param and dv.op == "call":
                cn = mod.callee_cname(dv)
                pf = ptr_form(fn, dv.ops[0], base_is, symf) if dv.ops else None
                out.append((fo[1], "call:%s" % cn, pf[0] if pf else "?", pf[1] if pf else None, st))
            else:
                out.append((fo[1], "other", None, describe(fn, vs), st))
        elif st.op == "call" and (st.callee or "").startswith("llvm.memcpy"):
            d = fn.defn(M.strip(st.ops[0], ("bitcast",)))
            fo = None
            while d is not None and not d.is_param and d.op == "getelementptr":
                fo = field_of_gep(mod, d)
                if fo:
                    break
                d = fn.defn(d.ops[0])
            if fo and fo[0] == fields_struct:
                pf = ptr_form(fn, st.ops[1], base_is, symf)
                n = const_val(st.ops[2]) if is_const(st.ops[2]) else None
                out.append((fo[1], "copy%s" % n, pf[0] if pf else "?", pf[1] if pf else None, st))
    return out


def compare_effects(rep, rid, fn, got, ref, ignore=()):
    """ref: dict field -> set of (kind, base, offset Lin|value); got: list from field_effects"""
    gotd = {}
    for f, kind, base, off, st in got:
        if f in ignore:
            continue
        gotd.setdefault(f, set()).add((kind, base, off if not isinstance(off, Lin) else off.key()))
    refd = {f: {(k, b, o.key() if isinstance(o, Lin) else o) for (k, b, o) in v} for f, v in ref.items()}
    for f in sorted(set(gotd) | set(refd)):
        g, r = gotd.get(f, set()), refd.get(f, set())
        rep.check(rid, g == r, "%s: %s <- %s" % (fn.cname, f, _fmt(r)), "%s:%s" % (fn.file, fn.line),
                  "recovered from the code: %s; reference: %s" % (_fmt(g), _fmt(r)), function=fn.cname, obj=f)


def _fmt(s):
    out = []
    for k, b, o in sorted(s, key=str):
        if isinstance(o, tuple):
            o = repr(Lin(o[0], dict(o[1])))
        out.append("%s%s" % (k, "" if b is None and o is None else " @%s%s" % ((b + "+") if b else "", o)))
    return "{" + ", ".join(out) + "}"


def run(tier, seed):
    rep = Report("C05", tier, "other",
                 "Static recovery of the header field-extraction tables from the IR (which header field is filled from which "
                 "width at which offset of the raw header / extended header / level-0 extended area, as linear forms over the "
                 "path length and data length), compared with the reference tables of the LHA format held by the checker; the "
                 "endian decoders, the OS-9 permission mapping and the DOS date/time bit-fields are proven bit-exact by GF(2) "
                 "bit-level evaluation; the extended-header registry is compared entry by entry and its dispatcher is evaluated for all 256 type bytes; the "
                 "all-caps folding of DOS-like names is shown to run only after both strings were scanned clean; a symlink entry's name and target are cut at the first '|' of the joined path+filename string. Decides the field wiring for all "
                 "headers at once (the suite's sizes stay below 2^24 and it has no 0x52/0x53 headers). Not decided: separator "
                 "normalisation values (C11), mktime's arithmetic, position of member data.")
    with Context(tier) as ctx:
        from .. import selfcheck
        selfcheck.run(ctx, rep, ['gf2', 'facts'])
        mod = ctx.plain()
        rep.analysed = {"view": "plain", "functions": len(mod.defined())}

        # ---- R1 endian decoders -------------------------------------------------------------------------------
        rid = rep.rule("R1", "integer decoders are bit-exact: output bit 8k+t = bit t of byte k (little endian), mirrored for big endian", 5)
        for name, (kind, nbytes) in DECODE.items():
            fn = rep.need(rid, mod.fn(name), "function " + name)
            if not fn:
                continue
            M = Matcher(fn)
            bind = {}
            for l in fn.insts():
                if l.op == "load" and l.size == 1:
                    pf = ptr_form(fn, l.ops[0], lambda o: "buf" if M.strip(o, ("bitcast",)) == ("v", fn.params[0].id) else None, lambda o: None)
                    if pf and pf[1].is_const():
                        bind[l.id] = sym("b%d" % pf[1].c, 8)
            def narrower_decoder(d, fn=fn, M=M, nbytes=nbytes):
                """a decoder may be composed of narrower decoders: each of them is itself an obligation of this rule, so its reference
                meaning may be used here (widths strictly decrease: no circularity)"""
                cn = mod.callee_cname(d)
                if cn not in DECODE or DECODE[cn][1] >= nbytes:
                    return None
                kind2, nb2 = DECODE[cn]
                pf = ptr_form(fn, d.ops[0], lambda o: "buf" if M.strip(o, ("bitcast",)) == ("v", fn.params[0].id) else None, lambda o: None)
                if not pf or not pf[1].is_const():
                    return None
                out = []
                for k in range(nb2):
                    out += sym("b%d" % (pf[1].c + (k if kind2.endswith("le") else nb2 - 1 - k)), 8)
                return out
            ev = BitEval(fn, bind, call_model=narrower_decoder)
            r = rets(fn)[0]
            bits = ev.val(r.ops[0])
            ok = bits is not None and len(bits) == nbytes * 8
            detail = None
            if ok:
                for j, b in enumerate(bits):
                    k, t = divmod(j, 8)
                    src = k if kind.endswith("le") else nbytes - 1 - k
                    want = (0, frozenset([("b%d" % src, t)]))
                    if b != want:
                        ok = False
                        detail = "output bit %d is %s, expected byte %d bit %d" % (j, "TOP (%s)" % sorted(set(ev.blame.values()))[:1] if b is TOP else sorted(b[1]), src, t)
                        break
            else:
                detail = "result not bit-evaluable / wrong width: %s" % sorted(set(ev.blame.values()))[:2]
            rep.check(rid, ok, "%s is exact %s" % (name, kind), "%s:%s" % (fn.file, fn.line), detail, function=name, obj=kind)

        # ---- R2 per-level field tables ------------------------------------------------------------------------------
        RAWP = ("load", ("field", HDR, "raw_data", ("load", ("param", 0))))

        def mk_base(fn):
            M = Matcher(fn)

            def base_is(o):
                return "raw" if M.match(RAWP, o, {}) is not None else None

            def symf(o):
                if M.match(("load", ("gep", RAWP, [21])), o, {}) is not None:
                    return "P"
                if M.match(("load", ("field", HDR, "raw_data_len", ("load", ("param", 0)))), o, {}) is not None:
                    return "rawlen"
                if M.match(("load", ("gep", RAWP, [0])), o, {}) is not None:
                    return "hlen"
                return None
            return base_is, symf

        # components of the header reader that have rules of their own (R3-R5, R8, C12): their stores are not part of a level's field table
        COMPONENTS = {"extend_raw_data", "decode_extended_headers", "read_l1_extended_headers", "process_level0_path",
                      "process_level0_extended_area", "lha_ext_header_decode", "decode_ftime",
                      "decode_level0_header"}

        def effects_with_helpers(fn, depth=0):
            """field effects of fn plus those of private helpers that receive fn's header argument unchanged (e.g. a shared 'base fields' helper)"""
            got = field_effects(fn, *mk_base(fn))
            M = Matcher(fn)
            for c in fn.insts():
                if c.op != "call" or not c.callee or c.callee not in mod.functions:
                    continue
                h = mod.functions[c.callee]
                if h.decl or not h.internal or h.cname in COMPONENTS or depth >= 2 or not c.ops or not h.params:
                    continue
                if M.match(("param", 0), c.ops[0], {}) is not None and h.params[0].ty == fn.params[0].ty:
                    got += effects_with_helpers(h, depth + 1)
            return got

        rid = rep.rule("R2", "level decoders fill each header field from the reference (width @ offset) of the raw header", 20)
        common = {
            "compress_method": {("copy5", "raw", L(2)), ("const[5]", None, 0)},
            "compressed_length": {("u32le", "raw", L(7))},
            "length": {("u32le", "raw", L(11))},
        }
        ref0 = dict(common)
        ref0.update({"timestamp": {("call:decode_ftime", "raw", L(15))}, "os_type": {("const", None, 0), ("u8", "raw", L(24, P=1))},
                     "crc": {("u16le", "raw", L(22, P=1))}})
        ref2 = dict(common)
        ref2.update({"timestamp": {("u32le", "raw", L(15))}, "crc": {("u16le", "raw", L(21))}, "os_type": {("u8", "raw", L(23))}})
        for name, ref in (("decode_level0_header", ref0), ("decode_level2_header", ref2), ("decode_level3_header", ref2)):
            fn = rep.need(rid, mod.fn(name), "function " + name)
            if not fn:
                continue
            got = effects_with_helpers(fn)
            # the NUL terminator store goes to compress_method[5]: appears as const 0 on the field
            compare_effects(rep, rid, fn, got, ref)
        l0 = mod.fn("decode_level0_header")
        if l0:
            M = Matcher(l0)
            F = ctx.facts(l0)
            base_is, symf = mk_base(l0)
            # os_type: 0 under level 0, raw[24+P] otherwise
            for f, kind, base, off, st in field_effects(l0, base_is, symf):
                if f == "os_type":
                    lvl0, _ = M.find_fact(("eq", ("load", ("field", HDR, "header_level", ANY)), 0), F.at_inst(st))
                    rep.check(rid, (kind == "const") == (lvl0 is not None), "level 0 has no OS byte (os_type = 0), level 1 reads it at 24+P", st.where(), None,
                              function=l0.cname, obj="os_type-guard")
            # in-header name and level-0 extended area slices
            for c in l0.calls("process_level0_path"):
                pf = ptr_form(l0, c.ops[1], base_is, symf)
                ln = linform(l0, c.ops[2], symf)
                rep.check(rid, pf is not None and pf[1] == L(22) and ln == L(0, P=1), "in-header name = P bytes @22", c.where(),
                          "got @%s len %s" % (pf[1] if pf else None, ln), function=l0.cname, obj="name-slice")
            for c in l0.calls("process_level0_extended_area"):
                pf = ptr_form(l0, c.ops[1], base_is, symf)
                ln = linform(l0, c.ops[2], symf)
                if ln is None:
                    # the length narrowed to the width of the header-length byte it is derived from: the same number under the guard checked next
                    from ..lin import narrowed_difference
                    nd = narrowed_difference(l0, c.ops[2])
                    ln = linform(l0, nd, symf) if nd is not None else None
                rep.check(rid, pf is not None and pf[1] == L(24, P=1) and ln == L(-22, hlen=1, P=-1), "level-0 extended area = header_len-22-P bytes @24+P", c.where(),
                          "got @%s len %s" % (pf[1] if pf else None, ln), function=l0.cname, obj="ext-area-slice")
                guarded_site(rep, rid, ctx, c, [("header_level == 0", ("eq", ("load", ("field", HDR, "header_level", ANY)), 0)),
                                                ("header_len > 22 + P", ("ugt", ("load", ("gep", RAWP, [0])), ("bin", "add", 22, ("load", ("gep", RAWP, [21])))))])
        l3 = mod.fn("decode_level3_header")
        if l3:
            M = Matcher(l3)
            okl = any(M.match(("call", "lha_decode_uint32", [("gep", RAWP, [24])]), a, {}) is not None for c in l3.calls("extend_raw_data") for a in
                      [x for cc in [c] for x in ([l3.defn(M.strip(cc.ops[2])).ops[0]] if l3.defn(M.strip(cc.ops[2])) is not None and l3.defn(M.strip(cc.ops[2])).op == "sub" else [])])
            rep.check(rid, okl, "level 3: total header length is u32 @24", l3.file, None, function=l3.cname, obj="header_len")

        # the OS-9/68k quirk: a level-2 header of that tool declares a length two bytes short; two more bytes are read for it - at level 2
        # only (a level-3 or level-0/1 header that did the same would swallow the first bytes of the member's data)
        nq = 0
        for lname in ("decode_level0_header", "decode_level2_header", "decode_level3_header"):
            lf = mod.fn(lname)
            if not lf:
                continue
            Mq = Matcher(lf)
            for c in lf.calls("extend_raw_data"):
                if not (is_const(Mq.strip(c.ops[2])) and const_val(Mq.strip(c.ops[2])) == 2):
                    continue
                nq += 1
                if lname != "decode_level2_header":
                    rep.violation(rid, "%s: no fixed two-byte extension (the OS-9/68k quirk belongs to level 2 only)" % lname, c.where(),
                                  "extend_raw_data(header, stream, 2) is reachable in the level decoder of another header level", function=lname, obj="os9-quirk")
                else:
                    guarded_site(rep, rid, ctx, c, [("os_type == 'K' (OS-9/68k)", ("eq", ("load", ("field", HDR, "os_type", ANY)), 0x4b))])
        rep.check(rid, nq >= 1, "the OS-9/68k two-byte quirk is present at level 2", "lib/lha_file_header.c", None, function="decode_level2_header", obj="os9-quirk-present")

        # ---- R3 extended-header registry and effect signatures ----------------------------------------------------------
        rid = rep.rule("R3", "extended-header registry: ten types once each with their min_len; each decoder has the reference effect signature", 30)
        REG = {0x00: ("ext_header_common_decoder", 2), 0x01: ("ext_header_filename_decoder", 1), 0x02: ("ext_header_path_decoder", 1),
               0x41: ("ext_header_windows_timestamps", 24), 0x50: ("ext_header_unix_perms_decoder", 2), 0x51: ("ext_header_unix_uid_gid_decoder", 4),
               0x52: ("ext_header_unix_group_decoder", 1), 0x53: ("ext_header_unix_username_decoder", 1), 0x54: ("ext_header_unix_timestamp_decoder", 4),
               0xcc: ("ext_header_os9_decoder", 12)}
        EFFECTS = {
            "ext_header_common_decoder": {"extra_flags": {("or", None, 0x04)}, "common_crc": {("u16le", "data", L(0))}},
            "ext_header_filename_decoder": {"filename": {("other", None, None)}},
            "ext_header_path_decoder": {"path": {("other", None, None)}},
            "ext_header_windows_timestamps": {"extra_flags": {("or", None, 0x08)}, "win_creation_time": {("u64le", "data", L(0))},
                                              "win_modification_time": {("u64le", "data", L(8))}, "win_access_time": {("u64le", "data", L(16))}},
            "ext_header_unix_perms_decoder": {"extra_flags": {("or", None, 0x01)}, "unix_perms": {("u16le", "data", L(0))}},
            "ext_header_unix_uid_gid_decoder": {"extra_flags": {("or", None, 0x02)}, "unix_gid": {("u16le", "data", L(0))}, "unix_uid": {("u16le", "data", L(2))}},
            "ext_header_unix_group_decoder": {"unix_group": {("other", None, None)}},
            "ext_header_unix_username_decoder": {"unix_username": {("other", None, None)}},
            "ext_header_unix_timestamp_decoder": {"timestamp": {("u32le", "data", L(0))}},
            "ext_header_os9_decoder": {"extra_flags": {("or", None, 0x10)}, "os9_perms": {("u16le", "data", L(7))}},
        }
        from ..exthdr import registry_global
        reg = registry_global(mod)
        got = {}
        if rep.need(rid, reg, "the extended-header registry table (array of LHAExtHeaderType pointers)") and reg["init"]["k"] == "agg":
            for e in reg["init"]["elems"]:
                g = mod.globals.get(e["v"][1]) if e["k"] == "scalar" and e["v"][0] == "gv" else None
                if not g or g["init"]["k"] != "agg":
                    rep.violation(rid, "registry entry is a descriptor object", "ext_header.c", str(e), function="ext_header_types", obj="entry")
                    continue
                num, dec, ml = [x["v"] for x in g["init"]["elems"]]
                num_v = const_val(num) & 0xFF
                decn = mod.functions[dec[1]].cname if dec[0] == "fn" else str(dec)
                if num_v in got:
                    rep.violation(rid, "type 0x%02x registered once" % num_v, "ext_header.c", "duplicate", function="ext_header_types", obj="dup%02x" % num_v)
                got[num_v] = (decn, const_val(ml))
            for t in sorted(REG):
                rep.check(rid, got.get(t) == REG.get(t), "type 0x%02x -> %s" % (t, REG.get(t)), "ext_header.c", "registry has %s" % (got.get(t),), function="ext_header_types",
                          obj="type%02x" % t)
            # a type beyond the ten reference ones is compatible with the property as long as its decoder leaves every field of the
            # reference header alone (it may fill fields the reference header does not have, and set new bits in extra_flags)
            import json as _json, os as _os
            from ..callgraph import CallGraph
            ref_fields = {f_[0] for f_ in _json.load(open(_os.path.join(_os.path.dirname(_os.path.dirname(_os.path.abspath(__file__))), "known_types.json"))).get("%struct._LHAFileHeader", [])}
            cg3 = None
            for t in sorted(set(got) - set(REG)):
                decn, ml = got[t]
                dfn = mod.fn(decn)
                if dfn is None or not ref_fields:
                    rep.violation(rid, "type 0x%02x -> not a reference type" % t, "ext_header.c", "registry has %s, whose decoder cannot be examined" % (got[t],), function="ext_header_types", obj="type%02x" % t)
                    continue
                cg3 = cg3 or CallGraph(mod)
                touched = []
                for gname in sorted(cg3.reachable([dfn.name])):
                    g = mod.functions.get(gname)
                    if g is None or g.decl:
                        continue
                    Mg = Matcher(g)
                    for fld in sorted(ref_fields):
                        for st in stores_to_field(mod, "LHAFileHeader", fld, [g]):
                            if fld == "extra_flags":
                                e_ = Mg.match(("bin", "or", ("load", ("field", "LHAFileHeader", "extra_flags", ANY)), ("bind", "bit", ("const",))), st.ops[0], {})
                                if e_ is not None and is_const(e_["bit"]) and const_val(e_["bit"]) & 0x1f == 0:
                                    continue
                            touched.append("%s (in %s)" % (fld, g.cname))
                rep.check(rid, not touched, "additional type 0x%02x (%s, min_len %d) leaves every reference field alone" % (t, decn, ml), "%s:%s" % (dfn.file, dfn.line),
                          "its decoder writes %s: a header carrying this type is no longer returned with exactly its encoded reference fields" % sorted(set(touched)) if touched else None,
                          function=decn, obj="extra%02x" % t)
                if not touched:
                    REG = dict(REG)
                    REG[t] = (decn, ml)          # from here on a registered type like the others (dispatch below: reached iff data_len >= min_len)
        # dispatch: for every one of the 256 type bytes, which decoder lha_ext_header_decode hands the data to - decided by evaluating the
        # dispatcher over the (never written, R3/C15.R1) registry in the singleton domain, whatever shape the lookup has
        dsp = rep.need(rid, mod.fn("lha_ext_header_decode"), "function lha_ext_header_decode")
        if dsp:
            from ..exthdr import evaluate_dispatch
            wrong, incon = evaluate_dispatch(mod, dsp, REG)
            if incon:
                rep.broken(rid, "dispatcher not evaluable for type 0x%02x: %s" % incon[0])
            rep.check(rid, not wrong and not incon, "dispatch of all 256 type bytes: registered types reach their decoder iff data_len >= min_len, every other type is skipped",
                      "%s:%s" % (dsp.file, dsp.line), "; ".join(wrong[:4]) if wrong else None, function=dsp.cname, obj="dispatch")
        for dn, ref in EFFECTS.items():
            fn = rep.need(rid, mod.fn(dn), "function " + dn)
            if not fn:
                continue
            M = Matcher(fn)
            base_is = lambda o, fn=fn, M=M: "data" if M.strip(o, ("bitcast",)) == ("v", fn.params[1].id) else None
            symf = lambda o, fn=fn, M=M: "len" if M.strip(o) == ("v", fn.params[2].id) else None
            eff = field_effects(fn, base_is, symf)
            # string decoders: value is a fresh buffer: normalise to ("other", None, None)
            norm = []
            for f, kind, base, off, st in eff:
                if f in ("filename", "path", "unix_group", "unix_username"):
                    norm.append((f, "other", None, None, st))
                else:
                    norm.append((f, kind, base, off, st))
            compare_effects(rep, rid, fn, norm, ref)
            # string decoders copy exactly (data, data_len) into the fresh buffer and terminate it
            if any(f in ("filename", "path", "unix_group", "unix_username") for f in ref):
                cps = [c for c in fn.insts() if c.op == "call" and (c.callee or "").startswith("llvm.memcpy")]
                okc = len(cps) == 1 and M.strip(cps[0].ops[1], ("bitcast",)) == ("v", fn.params[1].id) and M.strip(cps[0].ops[2]) == ("v", fn.params[2].id) and \
                    root(fn, cps[0].ops[0])[0] == "call"
                rep.check(rid, okc, "%s copies (data, data_len) into a fresh buffer" % dn, fn.file, None, function=dn, obj="copy")
                # min_len covers the bytes touched at constant offsets; all decoders: offsets + width <= min_len
            ml = [v[1] for k, v in REG.items() if v[0] == dn][0]
            for f, kind, base, off, st in eff:
                if base == "data" and isinstance(off, Lin) and off.is_const():
                    w = {"u16le": 2, "u32le": 4, "u64le": 8, "u8": 1}.get(kind.split(">")[0], 1)
                    rep.check(rid, off.c + w <= ml, "%s reads %s@%d within min_len %d" % (dn, kind, off.c, ml), st.where(), None, function=dn, obj="minlen:%s" % f)

        # ---- R4 chain walker -----------------------------------------------------------------------------------------
        rid = rep.rule("R4", "chain walker: 4-byte size fields iff level 3; payload = (type at offset+fs, data at +1, ext_len - fs - 1); next offset += ext_len", 5)
        de = rep.need(rid, mod.fn("decode_extended_headers"), "function decode_extended_headers")
        if de:
            M = Matcher(de)
            F = ctx.facts(de)
            calls = list(de.calls("lha_ext_header_decode"))
            for c in calls:
                e = M.match(("bin", "sub", ("bin", "sub", ("bind", "len"), ("bind", "fs")), 1), c.ops[3], {})
                rep.check(rid, e is not None, "data length = ext_len - field_size - 1", c.where(), describe(de, c.ops[3]), function=de.cname, obj="datalen")
                if e is None:
                    continue
                fs, ln = e["fs"], e["len"]
                # field size: 4 under header_level == 3 else 2
                srcs = F.sources(fs)
                vals = {}
                for s, fs_ in srcs:
                    lv3, _ = M.find_fact(("eq", ("load", ("field", HDR, "header_level", ANY)), 3), fs_)
                    vals[const_val(s) if is_const(s) else describe(de, s)] = lv3 is not None
                rep.check(rid, vals == {4: True, 2: False}, "field size is 4 exactly when header_level == 3, else 2", c.where(), "recovered %s" % vals, function=de.cname, obj="field-size")
                # ext pointer = raw + offset + fs ; type byte = *ext ; data = ext + 1
                e2 = M.match(("gep", ("bind", "ext"), [1]), c.ops[2], {})
                e3 = M.match(("load", ("bind", "ext2")), c.ops[1], {})
                okp = e2 is not None and e3 is not None and e2["ext"] == e3["ext2"]
                if okp:
                    e4 = M.match(("gep", ("load", ("field", HDR, "raw_data", ANY)), [("bin", "add", ("bind", "off"), ("inst", fs[1]) if fs[0] == "v" else ANY)]), e2["ext"], {})
                    okp = e4 is not None
                rep.check(rid, okp, "type byte at raw[offset + fs], payload right after it", c.where(), None, function=de.cname, obj="slice")
                # ext_len decoded at raw[offset] with the width matching fs
                lsrc = F.sources(ln)
                widths = {}
                for s, fs_ in lsrc:
                    for nm, w in (("lha_decode_uint32", 4), ("lha_decode_uint16", 2)):
                        if M.match(("call", nm, [("gep", ("load", ("field", HDR, "raw_data", ANY)), [("bind", "o")])]), s, {}) is not None:
                            is4, _ = M.find_fact(("eq", ("inst", fs[1]) if fs[0] == "v" else ANY, 4), fs_)
                            if is4 is None and vals == {4: True, 2: False}:
                                # "field size == 4" was just shown to be the same statement as "header_level == 3" (the compiler may have
                                # rewritten the test that way when the size is a conditional expression)
                                is4, _ = M.find_fact(("eq", ("load", ("field", HDR, "header_level", ANY)), 3), fs_)
                            widths[w] = is4 is not None
                rep.check(rid, widths == {4: True, 2: False}, "ext_len is a u32 when fs == 4 and a u16 otherwise, read at raw[offset]", c.where(), "recovered %s" % widths,
                          function=de.cname, obj="len-width")
                # offset advance
                okadv = False
                for i in de.insts():
                    if i.op == "phi":
                        for v, b in i.incoming:
                            ea = M.match(("bin", "add", ("inst", i.id), ("inst", ln[1]) if ln[0] == "v" else ANY), v, {})
                            if ea is not None and M.strip(i.incoming[0][0]) in (("v", de.params[1].id),) or (ea is not None and any(M.strip(x) == ("v", de.params[1].id) for x, _ in i.incoming)):
                                okadv = True
                rep.check(rid, okadv, "offset starts at the parameter and advances by ext_len", c.where(), None, function=de.cname, obj="advance")

        # ---- R5 level 1 --------------------------------------------------------------------------------------------------
        rid = rep.rule("R5", "level 1: compressed_length is reduced by the length of each extended header read", 1)
        r1 = rep.need(rid, mod.fn("read_l1_extended_headers"), "function read_l1_extended_headers")
        if r1:
            M = Matcher(r1)
            sts = stores_to_field(mod, HDR, "compressed_length", [r1])
            F5 = ctx.facts(r1)
            NEXT = ("call", "lha_decode_uint16", [("gep", ("load", ("field", HDR, "raw_data", ANY)), [("bin", "sub", ("load", ("field", HDR, "raw_data_len", ANY)), 2)])])
            e = M.match(("bin", "sub", ("load", ("field", HDR, "compressed_length", ANY)), ("bind", "len")), sts[0].ops[0], {}) if len(sts) == 1 else None
            ok = e is not None
            rep.check(rid, ok, "compressed_length -= ext_header_len", sts[0].where() if sts else r1.file, None, function=r1.cname, obj="sub")
            if ok:
                srcs = [x for x, _ in F5.sources(e["len"])]
                okn = bool(srcs) and all(M.match(NEXT, x, {}) is not None for x in srcs)
                rep.check(rid, okn, "next extended header size = u16 @ raw_len - 2", r1.file, "sources: %s" % [describe(r1, x) for x in srcs] if not okn else None,
                          function=r1.cname, obj="next-size")

        # ---- R6 OS-9 permissions ---------------------------------------------------------------------------------------------
        rid = rep.rule("R6", "OS-9 -> Unix permission bits: in 0,1,2 -> out 8,7,6; in 3,4,5 -> out {5,2},{4,1},{3,0}; in 7 -> out 14; nothing else; applied only under the OS-9 flag", 3)
        # decided where the mapping is applied (lha_file_header_read), with the mapping helper - whatever its signature - folded in by
        # the normalised view: the one store to unix_perms whose value is computed from os9_perms
        o9 = rep.need(rid, mod.fn("lha_file_header_read"), "function lha_file_header_read")
        if o9:
            M = Matcher(o9)
            bind = {}
            for l in o9.insts():
                if l.op == "load" and M.match(("load", ("field", HDR, "os9_perms", ANY)), ("v", l.id), {}) is not None:
                    bind[l.id] = sym("p", mod.int_bits(l.ty))
            ev = BitEval(o9, bind)
            cands = []
            for st in stores_to_field(mod, HDR, "unix_perms", [o9]):
                bits = ev.val(st.ops[0])
                if bits is not None and any(b is not TOP and any(nm == "p" for nm, _ in b[1]) for b in bits):
                    cands.append((st, bits))
            ok, detail = False, "no single store to unix_perms computed from os9_perms (%d found)" % len(cands)
            if len(cands) == 1:
                st, bits = cands[0]
                want = {8: 0, 7: 1, 6: 2, 5: 3, 2: 3, 4: 4, 1: 4, 3: 5, 0: 5, 14: 7}
                ok = True
                for j, b in enumerate(bits):
                    exp = (0, frozenset([("p", want[j])])) if j in want else ZERO
                    if b != exp:
                        ok = False
                        detail = "unix_perms bit %d is %s, expected %s" % (j, "TOP" if b is TOP else sorted(b[1]), ("os9 bit %d" % want[j]) if j in want else "0")
                        break
                rep.check(rid, ok, "permission matrix", st.where(), detail, function=o9.cname, obj="matrix")
                fl = [x for x in stores_to_field(mod, HDR, "extra_flags", [o9]) if M.match(("bin", "or", ("load", ("field", HDR, "extra_flags", ANY)), 1), x.ops[0], {}) is not None
                      and (o9.dominates(x.block.id, st.block.id) or o9.dominates(st.block.id, x.block.id))]
                rep.check(rid, len(fl) >= 1, "sets LHA_FILE_UNIX_PERMS together with the mapped permissions", st.where(), None, function=o9.cname, obj="flag")
                guarded_site(rep, rid, ctx, st, [("extra_flags & LHA_FILE_OS9_PERMS", ("ne", ("bin", "and", ("load", ("field", HDR, "extra_flags", ANY)), 0x10), 0))])
            else:
                rep.check(rid, False, "permission matrix", "%s:%s" % (o9.file, o9.line), detail, function=o9.cname, obj="matrix")

        # ---- R7 DOS time fields ----------------------------------------------------------------------------------------------------
        rid = rep.rule("R7", "decode_ftime: sec = 2*bits0-4, min = bits5-10, hour = bits11-15, mday = bits16-20, mon = bits21-24 - 1, year = bits25-31 + 80, isdst = -1; 0 stays 0", 7)
        ft = rep.need(rid, mod.fn("decode_ftime"), "function decode_ftime")
        if ft:
            M = Matcher(ft)
            # the four bytes of the DOS timestamp are the symbols; the endian decoders (proved exact in R1) are
            # modelled as byte concatenation, so any way of assembling the value (one u32, two u16, ...) is accepted
            def bytes_model(d):
                cn = mod.callee_cname(d)
                if cn not in DECODE:
                    return None
                kind, nb = DECODE[cn]
                pf = ptr_form(ft, d.ops[0], lambda o: "buf" if M.strip(o, ("bitcast",)) == ("v", ft.params[0].id) else None, lambda o: None)
                if not pf or not pf[1].is_const():
                    return None
                out = []
                for k in range(nb):
                    src = pf[1].c + (k if kind.endswith("le") else nb - 1 - k)
                    out += sym("t%d" % src, 8)
                return out
            raws = [c for c in ft.insts() if c.op == "call" and mod.callee_cname(c) in DECODE]
            rep.check(rid, len(raws) >= 1, "the timestamp is read with the endian decoders from buf", ft.file, None, function=ft.cname, obj="raw")
            if len(raws) >= 1:
                bind = {}
                for l in ft.insts():
                    if l.op == "load" and l.size == 1:
                        pf = ptr_form(ft, l.ops[0], lambda o: "buf" if M.strip(o, ("bitcast",)) == ("v", ft.params[0].id) else None, lambda o: None)
                        if pf and pf[1].is_const():
                            bind[l.id] = sym("t%d" % pf[1].c, 8)
                ev = BitEval(ft, bind, call_model=bytes_model)
                R = lambda j: ("t%d" % (j // 8), j % 8)
                REF = {"tm_sec": (0, [(1 + k, k) for k in range(5)]), "tm_min": (0, [(k, 5 + k) for k in range(6)]), "tm_hour": (0, [(k, 11 + k) for k in range(5)]),
                       "tm_mday": (0, [(k, 16 + k) for k in range(5)]), "tm_mon": (-1, [(k, 21 + k) for k in range(4)]), "tm_year": (80, [(k, 25 + k) for k in range(7)])}
                seen = set()
                for st in ft.insts():
                    if st.op != "store":
                        continue
                    d = ft.defn(M.strip(st.ops[1], ("bitcast",)))
                    fo = field_of_gep(mod, d) if d is not None and not d.is_param and d.op == "getelementptr" else None
                    if not fo or fo[0] != "tm":
                        continue
                    f = fo[1]
                    seen.add(f)
                    if f in REF:
                        addc, mapping = REF[f]
                        v = st.ops[0]
                        dv = ft.defn(v)
                        c0 = 0
                        if dv is not None and not dv.is_param and dv.op in ("add", "sub"):
                            for a, b in ((dv.ops[0], dv.ops[1]), (dv.ops[1], dv.ops[0])):
                                if is_const(b):
                                    c0 = const_val(b) if dv.op == "add" else -const_val(b)
                                    v = a
                                    break
                        bits = ev.val(v)
                        ok = bits is not None and c0 == addc
                        detail = "additive constant %d, expected %d" % (c0, addc) if c0 != addc else None
                        if ok:
                            m = dict(mapping)
                            for j, b in enumerate(bits):
                                exp = (0, frozenset([R(m[j])])) if j in m else ZERO
                                if b != exp:
                                    ok = False
                                    detail = "%s bit %d is %s, expected %s" % (f, j, "TOP" if b is TOP else sorted(b[1]), ("raw bit %d" % m[j]) if j in m else "0")
                                    break
                        rep.check(rid, ok, "%s bit-field" % f, st.where(), detail, function=ft.cname, obj=f)
                    elif f == "tm_isdst":
                        rep.check(rid, is_const(st.ops[0]) and const_val(st.ops[0]) == -1, "tm_isdst = -1", st.where(), None, function=ft.cname, obj=f)
                    else:
                        rep.check(rid, is_const(st.ops[0]) and const_val(st.ops[0]) == 0, "%s = 0" % f, st.where(), None, function=ft.cname, obj=f)
                rep.check(rid, set(REF) <= seen, "all six fields are filled", ft.file, "filled %s" % sorted(seen), function=ft.cname, obj="fields")
                # result is mktime(&datetime), except raw == 0 -> 0
                F = ctx.facts(ft)
                for s, fs in F.sources(rets(ft)[0].ops[0]):
                    if is_const(s):
                        z = [f for f in fs if f[0] == "eq" and is_const(f[2]) and const_val(f[2]) == 0]
                        cover = set()
                        for f in z:
                            zb = ev.val(f[1])
                            if zb is not None and all(b is not TOP and b[0] == 0 and len(b[1]) <= 1 for b in zb):
                                for b in zb:
                                    cover |= set(b[1])
                        okz = cover >= {R(j) for j in range(32)}
                        rep.check(rid, const_val(s) == 0 and okz, "constant 0 only when all 32 timestamp bits are 0", ft.file, None, function=ft.cname, obj="zero")
                    else:
                        rep.check(rid, M.match(("call", "mktime", [ANY]), s, {}) is not None, "result is mktime(&datetime)", ft.file, describe(ft, s), function=ft.cname, obj="mktime")

        # ---- R8 level-0 extended areas ------------------------------------------------------------------------------------------------
        rid = rep.rule("R8", "level-0 Unix / OS-9 extended areas: guards and field offsets", 10)
        # decided on the dispatcher, with the per-kind helpers (if any) folded in by the normalised view: the stores are grouped by the
        # switch case on data[0] that leads to them
        ea = rep.need(rid, mod.fn("process_level0_extended_area"), "function process_level0_extended_area")
        if ea:
            M = Matcher(ea)
            F = ctx.facts(ea)
            base_is = lambda o: "data" if M.strip(o, ("bitcast",)) == ("v", ea.params[1].id) else None
            symf = lambda o: "len" if M.strip(o) == ("v", ea.params[2].id) else None
            sw = [i for i in ea.insts() if i.op == "switch" and M.match(("load", ("gep", ("param", 1), [0])), i.ops[0], {}) is not None]
            rep.check(rid, len(sw) == 1, "the extended area is dispatched on its first byte", ea.file, None, function=ea.cname, obj="switch")
            eff_all = field_effects(ea, base_is, symf)
            D1 = ("load", ("gep", ("param", 1), [1]))
            GROUPS = [
                ("Unix", {0x55, 0x4b},
                 {"os_type": {("u8", "data", L(0))}, "timestamp": {("u32le", "data", L(2))}, "unix_perms": {("u16le", "data", L(-6, len=1))},
                  "unix_uid": {("u16le", "data", L(-4, len=1))}, "unix_gid": {("u16le", "data", L(-2, len=1))}, "extra_flags": {("or", None, 0x03)}},
                 [("data_len >= 12", ("uge", ("param", 2), 12)), ("data[1] == 0", ("eq", D1, 0))]),
                ("OS-9", {0x39},
                 {"os_type": {("const", None, 0x39)}, "os9_perms": {("u16le", "data", L(1))}, "extra_flags": {("or", None, 0x10)}},
                 [("data_len >= 22", ("uge", ("param", 2), 22)), ("data[9] == 0xcc", ("eq", ("load", ("gep", ("param", 1), [9])), 0xcc)),
                  ("data[1] == data[17]", ("eq", D1, ("load", ("gep", ("param", 1), [17])))),
                  ("data[2] == data[18]", ("eq", ("load", ("gep", ("param", 1), [2])), ("load", ("gep", ("param", 1), [18]))))]),
            ]
            claimed = set()
            for gname, vals, ref, guards in GROUPS:
                targets = {bb for i in sw for v, bb in i.d["cases"] if (v & 0xFF) in vals}
                others = {v & 0xFF for i in sw for v, bb in i.d["cases"] if bb in targets} - vals
                rep.check(rid, bool(targets) and not others and {v & 0xFF for i in sw for v, bb in i.d["cases"] if bb in targets} == vals,
                          "%s area is dispatched on data[0] in %s" % (gname, sorted(hex(v) for v in vals)), ea.file, "also reached for %s" % sorted(hex(v) for v in others) if others else None,
                          function=ea.cname, obj="dispatch-" + gname)
                eff = [e_ for e_ in eff_all if any(ea.dominates(t, e_[4].block.id) for t in targets)]
                claimed |= {id(e_[4]) for e_ in eff}

                class _FnView:          # compare_effects only needs a name and a location
                    cname, file, line = "%s (%s area)" % (ea.cname, gname), ea.file, ea.line
                compare_effects(rep, rid, _FnView, eff, ref)
                for f_, kind, base, off, st in eff[:1]:
                    guarded_site(rep, rid, ctx, st, guards)
            stray = [e_ for e_ in eff_all if id(e_[4]) not in claimed]
            rep.check(rid, not stray, "no header field is written outside the two recognised areas", ea.file, "%s" % [(e_[0], e_[4].where()) for e_ in stray][:3] if stray else None,
                      function=ea.cname, obj="stray")

        # ---- R10 symlink entries: link name and target cut at the first '|' of the joined string ---------------------------------------
        rid = rep.rule("R10", "symlink entries ('name|target' possibly split between the path and filename fields): the target is the tail after the first '|' of the "
                              "*joined* path+filename string (lha_file_header_full_path), that byte is replaced by NUL and the joined string becomes the file name", 3)
        JOIN = ("call", "lha_file_header_full_path", [ANY])
        SEP = ("call", "strchr", [JOIN, 0x7c])
        rep.need(rid, mod.fn("lha_file_header_full_path"), "function lha_file_header_full_path")
        nst = 0
        for fn_ in mod.defined():
            sts = [st for st in stores_to_field(mod, "LHAFileHeader", "symlink_target", [fn_]) if not (st.ops[0][0] == "null" or (is_const(st.ops[0]) and const_val(st.ops[0]) == 0))]
            if not sts:
                continue
            Mf = Matcher(fn_)
            Ff = ctx.facts(fn_)
            for st in sts:
                nst += 1
                srcs = [x for x, _ in Ff.sources(st.ops[0])]
                okv = bool(srcs) and all(Mf.match(("call", "strdup", [("gep", SEP, [1])]), x, {}) is not None for x in srcs)
                rep.check(rid, okv, "%s: symlink_target = strdup(strchr(lha_file_header_full_path(header), '|') + 1)" % fn_.cname, st.where(),
                          None if okv else "the target is not cut from the joined path+filename string: a '|' in the path part would be missed (value: %s)" % [describe(fn_, x) for x in srcs][:2],
                          function=fn_.cname, obj="target")
                # the separator byte is cut and the joined string becomes the filename, on every path from this store to a successful return
                cuts = [c for c in fn_.insts() if c.op == "store" and c.size == 1 and is_const(c.ops[0]) and const_val(c.ops[0]) == 0 and Mf.match(SEP, c.ops[1], {}) is not None]
                names = [c for c in stores_to_field(mod, "LHAFileHeader", "filename", [fn_]) if Mf.match(JOIN, c.ops[0], {}) is not None]
                cut = set()
                for c in cuts:
                    cut |= {(c.block.id, x) for x in c.block.succs} | ({(c.block.id, "ret")} if not c.block.succs else set())
                cut2 = set()
                for c in names:
                    cut2 |= {(c.block.id, x) for x in c.block.succs} | ({(c.block.id, "ret")} if not c.block.succs else set())
                bad = []
                for v, pb, b in success_edges(Ff, fn_):
                    tgt = pb if pb is not None else b
                    for cs, what in ((cut, "'|' replaced by NUL"), (cut2, "joined string stored as filename")):
                        if not any(c.block.id in (tgt, st.block.id) for c in (cuts if cs is cut else names)) and (tgt == st.block.id or Ff.reaches_avoiding(st.block.id, tgt, cs)):
                            bad.append(what)
                rep.check(rid, bool(cuts) and bool(names) and not bad, "%s: after the target is taken, the '|' is cut and the joined string becomes the filename on every successful path" % fn_.cname,
                          st.where(), "missing on some successful path: %s" % sorted(set(bad)) if bad else None, function=fn_.cname, obj="cut-and-name")
        rep.check(rid, nst >= 1, "symlink_target stores found", "lib/", "%d" % nst, function="symlink_target", obj="count")

        # ---- R9 all-caps folding -------------------------------------------------------------------------------------------------------
        rid = rep.rule("R9", "all-caps folding: a byte of path/filename is replaced by tolower() only for DOS-like OS types and only after *both* strings were "
                             "scanned to their terminator (or are NULL) without meeting a lower-case letter; when enabled, both strings are folded to the end", 8)
        from ..paths import PathStates, holds, refuted, show
        imod = ctx.inlined("header")
        hf = rep.need(rid, imod.fn("lha_file_header_read"), "function lha_file_header_read (inlined header unit)")
        if hf:
            F = ctx.facts(hf)
            M = Matcher(hf)
            HD = "LHAFileHeader"
            def strbyte(fld):
                return ("load", ("gep", ("load", ("field", HD, fld, ANY)), [ANY]))
            folds = {}
            for st in hf.insts():
                if st.op != "store":
                    continue
                for fld in ("path", "filename"):
                    if M.match(("gep", ("load", ("field", HD, fld, ANY)), [ANY]), st.ops[1], {}) is None:
                        continue
                    srcs = [x for x, _ in F.sources(st.ops[0])]
                    if srcs and all(M.match(("load", ("gep", ("load", ("call", "__ctype_tolower_loc", [])), [ANY])), x, {}) is not None for x in srcs):
                        folds.setdefault(fld, []).append(st)
            rep.check(rid, set(folds) == {"path", "filename"}, "fold stores found for path and filename", hf.file, "found for %s" % sorted(folds), function=hf.cname, obj="fold-sites")
            lower_pat = ("ne", ("bin", "and", ("load", ("gep", ("load", ("call", "__ctype_b_loc", [])), [ANY])), 512), 0)
            tracked = {"path_null": ("eq", ("load", ("field", HD, "path", ANY)), 0), "name_null": ("eq", ("load", ("field", HD, "filename", ANY)), 0),
                       "path_end": ("eq", strbyte("path"), 0), "name_end": ("eq", strbyte("filename"), 0), "lower": lower_pat}
            # region: from the nearest common dominator of all scan tests and fold stores
            lab_blocks = {st.block.id for v in folds.values() for st in v}
            ps0 = PathStates(hf, F, {"lower": lower_pat}, within=set())
            scan_edges = ps0.labelled_edges({"lower"})
            lab_blocks |= {b for b, _ in scan_edges}
            rep.check(rid, len(scan_edges) >= 4, "lower-case tests (islower) found in the scans", hf.file, "%d labelled edges" % len(scan_edges), function=hf.cname, obj="scan-sites")
            if len(folds) == 2 and scan_edges:
                dom = None
                for b in hf.blocks:
                    if all(hf.dominates(b.id, x) for x in lab_blocks) and (dom is None or hf.dominates(dom, b.id)):
                        dom = b.id
                region = {b.id for b in hf.blocks if hf.dominates(dom, b.id)}
                ps = PathStates(hf, F, tracked, correlate=True, start=dom, within=region, cap=4096)
                loops = hf.loops()
                fold_blocks = {st.block.id for v in folds.values() for st in v}
                scan_loops = [lp for lp in loops if any(b in lp["body"] for b, _ in scan_edges) and not (set(lp["body"]) & fold_blocks)]
                fold_loops = [lp for lp in loops if set(lp["body"]) & fold_blocks]
                def inst_in(iid, lps):
                    d = hf.defn(("v", iid))
                    return d is not None and not d.is_param and any(d.block.id in lp["body"] for lp in lps)
                def done(state, nul, end, lps):
                    return holds(state, nul) or any(n == end and pol and inst_in(i, lps) for n, pol, i in state)
                def found_lower(state):
                    return any(n == "lower" and pol for n, pol, _ in state)
                rep.check(rid, not ps.overflow, "path-state enumeration complete", hf.file, None, function=hf.cname, obj="states")
                for fld, sts in sorted(folds.items()):
                    for st in sts:
                        bad = [x for x in ps.at_block(st.block.id) if found_lower(x) or not done(x, "path_null", "path_end", scan_loops) or not done(x, "name_null", "name_end", scan_loops)]
                        rep.check(rid, not bad and bool(ps.at_block(st.block.id)), "%s byte folded only after both scans completed without a lower-case letter" % fld, st.where(),
                                  "states: %s" % show(ps.at_block(st.block.id))[:3] if not bad else "reachable in state %s" % show(bad)[:2], function="fix_msdos_allcaps", obj="fold-" + fld)
                # completeness: leaving the region after clean complete scans implies both folds ran to the end
                exits = [(b, t) for b in region for t in hf.blocks[b].succs if t not in region]
                nbad = []
                for b, t in exits:
                    for x in ps.on_edge(b, t):
                        clean = not found_lower(x) and done(x, "path_null", "path_end", scan_loops) and done(x, "name_null", "name_end", scan_loops)
                        if clean and not (done(x, "path_null", "path_end", fold_loops) and done(x, "name_null", "name_end", fold_loops)):
                            nbad.append(x)
                rep.check(rid, not nbad and bool(exits), "after clean scans both strings are folded up to their terminator", hf.file, "state %s" % show(nbad)[:2] if nbad else None,
                          function="fix_msdos_allcaps", obj="fold-complete")
                # the scans read every byte: the scan loops step by one from index 0
                for lp in scan_loops + fold_loops:
                    hdr = hf.blocks[lp["header"]]
                    phis = [i for i in hdr.insts if i.op == "phi"]
                    ok = any(all((is_const(v) and const_val(v) == 0) if pb not in lp["body"] else M.match(("bin", "add", ("inst", ph.id), 1), v, {}) is not None for v, pb in ph.incoming)
                             for ph in phis)
                    rep.check(rid, ok, "string loop runs over indices 0, 1, 2, ...", "%s:%s" % (hf.file, hdr.term.line()), None, function="fix_msdos_allcaps", obj="index-%d" % lp["header"])
                # DOS-like OS types only: for each of the 256 values of the OS type byte, is the folding region reachable at all?  (Asked of the
                # branch conditions themselves - an if-chain, a switch, or the bit-mask test a switch is lowered to - not of their spelling.)
                from ..exprval import reachable_under
                DOSLIKE = {0: "unknown", 0x4d: "MS-DOS", 0x61: "Atari", 0x20: "LHARK", 0x32: "OS/2"}
                os_loads = [i.id for i in hf.insts() if i.op == "load" and M.match(("load", ("field", HD, "os_type", ANY)), ("v", i.id), {}) is not None]
                rep.check(rid, bool(os_loads), "the OS type is read in lha_file_header_read", hf.file, None, function=hf.cname, obj="os-type-read")
                enabled = set()
                for c in range(256):
                    if reachable_under(hf, {i: c for i in os_loads}, dom):
                        enabled.add(c)
                rep.check(rid, enabled == set(DOSLIKE), "folding is entered exactly for os_type in %s (all 256 values evaluated)" % sorted(DOSLIKE.values()),
                          "%s:%s" % (hf.file, hf.blocks[dom].term.line()),
                          None if enabled == set(DOSLIKE) else "enabled for %s, not enabled for %s" % (sorted("0x%02x" % x for x in enabled - set(DOSLIKE))[:8],
                                                                                                     sorted("0x%02x" % x for x in set(DOSLIKE) - enabled)),
                          function=hf.cname, obj="os-types")
        from .c13 import header_loops_terminate
        from ..callgraph import CallGraph as _CG13
        header_loops_terminate(rep, ctx, mod, _CG13(mod))
    return rep.finish(seed)
