"""C13 - every call returns; work and heap are bounded.

Decided (claimed in part):
 R1 every natural loop of lib/ and src/ has a termination witness (E8 classes A, A', B, C, D)
    or is a listed exception with a reason and a support rule; recursion is confined to
    match_glob (listed);
 R2 allocation sizes in lib/ are linear forms over admissible symbols only (constants,
    strlen of existing strings, an extended header's data_len, a header extension that is
    guarded by the 1 MiB ceiling, the decoder type's declared sizes which are summed over
    all decoder types);
 R3 sticky flags: end-of-archive, decoder failure, stream state leave their initial
    value once and never return;
 R4 the self-extractor scan is bounded by 256 KiB.
Not decided: the linear step budget as a number, heap peak as a number.
"""
from ..context import Context
from ..report import Report
from ..facts import Facts, Matcher, ANY, is_const, const_val, describe, describe_fact
from ..rules import stores_to_field, rets, guarded_site, blocks_reachable_from
from ..callgraph import CallGraph
from ..loops import classify
from ..lin import linform, Lin
from ..own import Ownership
from ..mem import root

TEMPLATES = {"bit_stream_reader.c", "tree_decode.c", "lh_new_decoder.c", "pma_common.c"}
MiB = 1024 * 1024

# listed exceptions: function -> (reason, support rule name)
EXCEPTIONS = {
    "increment_for_code": "walks from a leaf of the -lh1- adaptive tree to the root through parent links; terminates because the root (index 0) is an ancestor of every node "
                          "(tree-shape invariant A-lh1-tree, maintained by init_tree/reconstruct_tree; not verified here)",
    "build_tree": "code_len grows by one per iteration and add_codes_with_length reports work left only while some uint8_t code length exceeds code_len (support rule S-build), "
                  "so at most 255 iterations",
    "lha_decoder_read": "fill loop: an iteration either copies at least one byte towards the clamped request (filled < limit on the back edge), or refills the buffer from the decoder and "
                        "leaves when that returns 0 (support rule S-fill); at most two iterations per byte delivered",
    "confirm_file_overwrite": "interactive prompt: repeats until a recognised answer is read; prompt_user() terminates the process at end of input (support: its loop is class B on getchar)",
    "parse_options": "cursor over one NUL-terminated command-line argument; every update moves it forward inside the string (++arg, or to the last character for w=) and the loop exits at the NUL",
}


# Counted loops whose 32-bit counter is compared with a size_t bound that the `fits` prover cannot bound below 2^32 by itself:
# the counter would wrap before reaching a bound >= 2^32, so termination needs the stated reason.
IV32_LISTED = {
    "ext_header_path_decoder": "bound = data_len or data_len + 1, where data_len = ext_header_len - field_size - 1 at the only call chain (decode_extended_headers -> "
                               "lha_ext_header_decode -> table), ext_header_len being decoded from at most 32 bits and >= field_size + 1 there (proved for data_len by the "
                               "prover; the + 1 stays below 2^32 because data_len <= 2^32 - 4)",
    "decode_level0_header": "(checksum loop, whether in place or in a helper folded in) bound = raw_data_len - 2 of a level-0/1 base header, whose length is header_len + 2 with header_len a single byte (decode_level0_header extends "
                         "the raw data to exactly that before calling); assumption A-hdr32",
    "decode_extended_headers": "bound = raw_data_len - field_size: the raw header data never exceeds 1 MiB plus the base header at level 3 (explicit cap, C12 R4d), 64 KiB at level 2 "
                               "(16-bit length) and, at level 1, the base header plus the extended headers read so far, each of at most 64 KiB and together bounded by the 32-bit "
                               "compressed length they are subtracted from (C12 R4f): below 2^32 unless a level-1 header carries four gigabytes of extended headers; assumption A-hdr32",
    "skip_sfx": "bound = stream->leadin_len, which never exceeds LEADIN_BUFFER_LEN = 24 (inductive invariant leadin_len in [0,24] proved by C08 R1)",
}


def exception_shape(fn, F, li):
    """a listed exception covers a loop only while the loop still has the shape its reason speaks of (the support rules check the rest)"""
    M = Matcher(fn)
    exits = [f for (b, s) in li.lp["exits"] for f in F.edge_facts(b, s)]
    if fn.cname == "build_tree":
        # "... add_codes_with_length reports work left": the loop is left when it reports none
        return any(f[0] == "eq" and is_const(f[2]) and const_val(f[2]) == 0 and
                   M.match(("call", "add_codes_with_length", [ANY, ANY, ANY, ANY]), f[1], {}) is not None for f in exits)
    if fn.cname == "increment_for_code":
        # "... walks through parent links to the root": left when the node index is 0, and the index is reloaded from a parent field on the way round
        return any(f[0] == "eq" and is_const(f[2]) and const_val(f[2]) == 0 for f in exits)
    return True


def header_loops_terminate(rep, ctx, mod, cg, prefix="C13."):
    """for C05: a well-formed header is *returned* - so every loop of the header reader and what it calls has a termination witness (the
    classification of R1, restricted to lib/lha_file_header.c and lib/ext_header.c; listed exceptions and narrow-counter listings as in R1)"""
    rid = rep.rule(prefix + "R1", "every loop of the header parser has a termination witness", 10)
    for fn in mod.defined():
        if not fn.file.endswith(("lha_file_header.c", "ext_header.c")) or not fn.loops():
            continue
        F = ctx.facts(fn)
        infos = classify(fn, F, cg)
        for li in infos:
            where = "%s:%s (%s)" % (fn.file, li.line, fn.cname)
            if li.cls is not None:
                rep.ok(rid, "%s loop at line %s: class %s" % (fn.cname, li.line, li.cls), li.witness, where)
            elif li.narrow and fn.cname in IV32_LISTED:
                rep.assumed(rid, "%s loop at line %s: counted, %d-bit counter against a %d-bit bound" % (fn.cname, li.line, li.narrow[0], li.narrow[1]),
                            "A-iv32:%s" % fn.cname, IV32_LISTED[fn.cname], where)
            else:
                rep.violation(rid, "%s: loop at line %s has no termination witness" % (fn.cname, li.line), where,
                              ("the %d-bit counter cannot reach %s: it wraps first; " % (li.narrow[0], li.narrow[2]) if li.narrow else "") +
                              ("the loop continues under '%s', which can never fail at an extreme bound; " % li.wrap if li.wrap else "") +
                              "lha_file_header_read does not return for some well-formed header: the header is never handed to the caller",
                              function=fn.cname, obj="loop")


def run(tier, seed):
    rep = Report("C13", tier, "other",
                 "Static termination classification of every natural loop of lib/ and src/ (counted induction with an invariant "
                 "bound, strictly decreasing remainder, input-driven with exit on the exhausted outcome, terminated-string/array "
                 "scan, list walk; listed exceptions with reasons and support rules), recursion check over the call graph, and "
                 "allocation-size provenance in lib/ (sizes are linear forms over admissible symbols; the 1 MiB ceiling is an "
                 "available fact at the header reallocation; decoder state size is summed over all decoder types). Counted loops whose counter is narrower than its "
                 "bound need the bound to fit (proved or listed); per-member decoder objects are released before the next member; the basic reader never hands the previous "
                 "member out again after a failed skip. Counted classes also require that the bound leaves the counter room to get past it inside its own width (no 'k <= MAX' loops); the interactive prompt never returns at end of input. Claimed in part: "
                 "does not decide the linear step budget or heap peak as numbers; termination of read-driven loops assumes the "
                 "stream reports exhaustion (finite input), and for endless pm1 input rests on the declared-length clamp (C14.R2).")
    with Context(tier) as ctx:
        from .. import selfcheck
        selfcheck.run(ctx, rep, ['loops'])
        mod = ctx.plain()
        cg = CallGraph(mod)
        own = Ownership(mod, cg)
        lib_files = set(u.split("/")[1] for u in ctx.views.units if u.startswith("lib/")) | TEMPLATES
        rep.analysed = {"view": "plain", "functions": len(mod.defined())}

        # ---- R1 loops ------------------------------------------------------------------------------------
        rid = rep.rule("R1", "every loop has a termination witness (class A, A', B, C, D) or is a listed exception", 180)
        counts = {}
        nloops = 0
        for fn in mod.defined():
            if not fn.loops():
                continue
            F = ctx.facts(fn)
            infos = classify(fn, F, cg)
            unclassified = [li for li in infos if li.cls is None]
            for li in infos:
                nloops += 1
                where = "%s:%s (%s)" % (fn.file, li.line, fn.cname)
                if li.cls is not None:
                    counts[li.cls] = counts.get(li.cls, 0) + 1
                    rep.ok(rid, "%s loop at line %s: class %s" % (fn.cname, li.line, li.cls), li.witness, where)
                    if len(rep.samples) < 12 and li.cls in ("A'", "B", "D"):
                        rep.sample({"loop": where, "class": li.cls, "witness": li.witness})
                elif li.narrow and fn.cname in IV32_LISTED:
                    counts["A*"] = counts.get("A*", 0) + 1
                    rep.assumed(rid, "%s loop at line %s: counted, %d-bit counter against a %d-bit bound (%s)" % (fn.cname, li.line, li.narrow[0], li.narrow[1], li.narrow[2]),
                                "A-iv32:%s" % fn.cname, IV32_LISTED[fn.cname], where)
                elif fn.cname in EXCEPTIONS and len(unclassified) == 1 and exception_shape(fn, F, li):
                    counts["E"] = counts.get("E", 0) + 1
                    rep.assumed(rid, "%s loop at line %s" % (fn.cname, li.line), "E-%s" % fn.cname, EXCEPTIONS[fn.cname], where)
                else:
                    exits = ["%s" % [describe_fact(fn, x) for x in F.edge_facts(b, s)] for (b, s) in li.lp["exits"]]
                    rep.violation(rid, "%s: loop at line %s has no termination witness" % (fn.cname, li.line), where,
                                  ("the %d-bit counter is compared with the %d-bit bound %s, which is not known to fit %d bits: the counter would wrap before reaching it; " % (
                                      li.narrow[0], li.narrow[1], li.narrow[2], li.narrow[0]) if li.narrow else "") +
                                  ("the loop continues under '%s', which can never fail if the bound is an extreme value of the counter's type (the counter wraps round instead): the bound is not known to leave room; " % li.wrap if li.wrap else "") +
                                  "no induction variable with a strict step and bound, no read-like call whose exhausted outcome leaves the loop, "
                                  "no terminated scan or list walk; exit conditions: %s; back-edge facts: %s" % (
                                      exits, [[describe_fact(fn, x) for x in F.on_edge(l, li.header)][:6] for l in li.lp["latches"]]),
                                  function=fn.cname, obj="loop")
        rep.extra["loop_classes"] = counts
        rep.extra["loops"] = nloops

        # support rules for the listed exceptions
        rid = rep.rule("R1s", "support rules for the listed loop exceptions", 5)
        ac = mod.fns("add_codes_with_length")
        for f in ac:
            F = ctx.facts(f)
            M = Matcher(f)
            ok = True
            if not any(r_.ops for r_ in rets(f)):
                # the helper reports nothing any more: its caller's loop cannot be the listed exception (which hinges on the report) and has
                # been classified on its own above - nothing to support
                rep.ok(rid, "S-build (%s): returns no status; the caller's loop is classified without it" % f.name, None, "%s:%s" % (f.file, f.line))
                continue
            for s, fs in F.sources([r_ for r_ in rets(f) if r_.ops][0].ops[0]):
                if is_const(s) and const_val(s) == 0:
                    continue
                if is_const(s) and const_val(s) == 1:
                    ff = None
                    for fct in fs:
                        qs = [q for q in f.params if not q.ty.endswith("*") and M.strip(fct[2]) == ("v", q.id)]
                        if fct[0] == "ugt" and qs:
                            d = f.defn(M.strip(fct[1]))
                            # ... and that parameter is the level counter: at every call site it is a value that steps by one per iteration
                            stepping = True
                            for g in mod.defined():
                                Mg = Matcher(g)
                                for c in g.insts():
                                    if c.op == "call" and c.callee == f.name and qs[0].index < len(c.ops):
                                        a = Mg.strip(c.ops[qs[0].index])
                                        da = g.defn(a)
                                        phi = None
                                        if da is not None and not da.is_param and da.op == "phi":
                                            phi = da
                                        elif da is not None and not da.is_param and da.op == "add" and is_const(da.ops[1]) and const_val(da.ops[1]) == 1:
                                            dp = g.defn(Mg.strip(da.ops[0]))
                                            phi = dp if dp is not None and not dp.is_param and dp.op == "phi" else None
                                        okc = phi is not None and any(Mg.match(("bin", "add", ("inst", phi.id), 1), v_, {}) is not None for v_, _ in phi.incoming)
                                        stepping = stepping and okc
                            if d is not None and not d.is_param and d.op == "load" and d.size == 1 and stepping:
                                ff = fct
                    if ff is None:
                        ok = False
                elif f.defn(s) is not None and getattr(f.defn(s), "op", "") == "phi":
                    continue
                else:
                    ok = False
            rep.check(rid, ok, "S-build (%s): 'codes remaining' is reported only when a uint8_t code length exceeds code_len" % f.name, "%s:%s" % (f.file, f.line), None,
                      function="add_codes_with_length", obj="S-build")
        dr = mod.fn("lha_decoder_read")
        if dr:
            F = ctx.facts(dr)
            M = Matcher(dr)
            lp = dr.loops()[0] if dr.loops() else None
            ok = False
            if lp:
                def progress(l):
                    """the back edge is taken only with filled < limit and with something to deliver next time round: a non-empty
                    buffer, or a decoder run that wrote a non-zero number of bytes straight to the caller (added to the count)"""
                    fs = F.on_edge(l, lp["header"])
                    cnt = [dr.defn(M.strip(f[1])) for f in fs if f[0] == "ult" and getattr(dr.defn(M.strip(f[1])), "op", "") == "phi"]
                    if not cnt:
                        return False
                    if any(f[0] == "ne" and M.match(("load", ("field", "LHADecoder", "outbuf_len", ANY)), f[1], {}) is not None for f in fs):
                        return True
                    for ph in cnt:
                        for v, pb in ph.incoming:
                            if pb != l:
                                continue
                            e = M.match(("bin", "add", ANY, ("bind", "n")), v, {})
                            r = dr.defn(M.strip(e["n"])) if e is not None and e["n"][0] == "v" else None
                            if r is not None and not r.is_param and r.op == "call" and not r.callee and \
                                    any(f[0] == "ne" and M.strip(f[1]) == ("v", r.id) and is_const(f[2]) and const_val(f[2]) == 0 for f in fs):
                                return True
                    return False
                latch_ok = all(progress(l) for l in lp["latches"])
                exit_ok = any(M.find_fact(("eq", ("load", ("field", "LHADecoder", "outbuf_len", ANY)), 0), F.edge_facts(b, s))[0] is not None for (b, s) in lp["exits"])
                ok = latch_ok and exit_ok
            rep.check(rid, ok, "S-fill: the fill loop repeats only with filled < limit and a non-empty buffer, and leaves when the decoder delivers nothing", dr.file, None,
                      function="lha_decoder_read", obj="S-fill")
        pu = mod.fn("prompt_user")
        if pu:
            infos = classify(pu, ctx.facts(pu), cg)
            rep.check(rid, len(infos) == 1 and infos[0].cls == "B", "S-prompt: prompt_user's loop is input-driven on getchar (exit(-1) at end of input)", pu.file, None,
                      function="prompt_user", obj="S-prompt")
            # the caller's loop asks again after an unrecognised answer: that ends only because an answer costs input and the end of the input ends
            # the process.  So: from every edge on which getchar() < 0 holds, no return of prompt_user is reachable.
            Mp, Fp = Matcher(pu), ctx.facts(pu)
            gcs = [c for c in pu.insts() if c.op == "call" and mod.callee_cname(c) in ("getchar", "getc", "fgetc")]
            eof_edges = [(b.id, s_) for b in pu.blocks for s_ in b.succs
                         if any(Mp.find_fact((pr, ("call", nm, args), k), Fp.edge_facts(b.id, s_))[0] is not None
                                for pr, k in (("slt", 0), ("eq", -1), ("sle", -1)) for nm, args in (("getchar", []), ("getc", [ANY]), ("fgetc", [ANY])))]
            bad = [e for e in eof_edges if any(pu.blocks[x].term.op == "ret" for x in blocks_reachable_from(pu, [e[1]]))]
            rep.check(rid, bool(gcs) and bool(eof_edges) and not bad, "S-prompt-eof: prompt_user never returns once getchar() reported the end of the input", pu.file,
                      None if not bad else "a return is reachable from the edge %s -> %s taken at end of input: the caller's re-prompt loop then spins on an exhausted stdin" % bad[0],
                      function="prompt_user", obj="S-prompt-eof")

        # S-consume: the primitive behind every derived class-B witness. read_bits(reader, n) hands on what peek_bits(reader, n) gave and,
        # when that is not the failure value, takes n off reader->bits (so n >= 1 bits of the finite input are gone for good).
        nrb = 0
        for rb in mod.fns("read_bits"):
            nrb += 1
            M = Matcher(rb)
            F = ctx.facts(rb)
            pk = [c for c in rb.calls("peek_bits")]
            ok = len(pk) == 1 and len(rb.params) == 2 and len(pk[0].ops) >= 2 and M.strip(pk[0].ops[1]) == ("v", rb.params[1].id)
            if ok:
                ok = all(M.strip(s_) == ("v", pk[0].id) for r in rets(rb) for s_, _ in F.sources(r.ops[0]))
                sts = stores_to_field(mod, "BitStreamReader", "bits", [rb])
                good = [st for st in sts if M.match(("bin", "sub", ("load", ("field", "BitStreamReader", "bits", ("param", 0))), ("param", 1)), st.ops[0], {}) is not None]
                # the subtraction happens on every path on which the result is not negative
                ok = ok and len(good) == 1 and len(sts) == 1 and M.find_fact(("sge", ("inst", pk[0].id), 0), F.at_inst(good[0]))[0] is not None
                if ok:
                    cut = {(good[0].block.id, s_) for s_ in good[0].block.succs}
                    for r in rets(rb):
                        # a return reached without the store must carry 'result < 0'
                        if F.reaches_avoiding(0, r.block.id, cut) and good[0].block.id != r.block.id:
                            if M.find_fact(("slt", ("inst", pk[0].id), 0), F.at_inst(r))[0] is None and not all(
                                    M.find_fact(("slt", ("inst", pk[0].id), 0), F.on_edge(pb, r.block.id))[0] is not None or rb.dominates(good[0].block.id, pb)
                                    for pb in r.block.preds):
                                ok = False
            rep.check(rid, ok, "S-consume (%s): read_bits returns peek_bits' result and subtracts n from reader->bits whenever that result is not negative" % rb.name,
                      "%s:%s" % (rb.file, rb.line), None, function="read_bits", obj="S-consume")
        rep.check(rid, nrb >= 1, "S-consume: read_bits found", "lib/bit_stream_reader.c", "%d copies" % nrb, function="read_bits", obj="S-consume-sites")

        # recursion
        rid = rep.rule("R1r", "recursion: every call-graph cycle is a direct recursion that advances a string argument, or the listed depth-2 cycle of the MacBinary pass-through", 1)
        # strongly connected components via simple DFS
        names = [f.name for f in mod.defined()]
        rec = set()
        for n_ in names:
            if n_ in cg.reachable(cg.edges.get(n_, ())):
                rec.add(mod.functions[n_].cname)
        allowed = {"match_glob": "direct recursion on a shorter pattern (checked below)",
                   "lha_decoder_read": "the MacBinary pass-through decoder reads from its inner decoder through the same API: depth 2 (support: the pass-through type is not in decoders[], so an inner decoder is never a pass-through)",
                   "macbinary_decoder_read": "see lha_decoder_read", "decode_to_end": "see lha_decoder_read", "read_macbinary_header": "see lha_decoder_read"}
        def advances(f):
            """direct self-recursion that is well founded on a string: every recursive call passes, in some pointer position k, a pointer one or
            more elements past a value that itself derives from parameter k (so the remaining string gets shorter), under a fact that the
            element being passed over is not the terminator"""
            Mf, Ff = Matcher(f), ctx.facts(f)
            sites = [c for c in f.insts() if c.op == "call" and c.callee == f.name]
            if not sites:
                return False
            for c in sites:
                good = False
                for k, a in enumerate(c.ops[:len(f.params)]):
                    e = Mf.match(("gep", ("bind", "x"), [("bind", "n", ("const",))]), a, {})
                    if e is None or const_val(e["n"]) < 1:
                        continue
                    srcs = [Mf.strip(x, ("bitcast",)) for x, _ in Ff.sources(e["x"])]
                    from_k = all(x == ("v", f.params[k].id) or (f.defn(x) is not None and not f.defn(x).is_param and f.defn(x).op == "getelementptr") for x in srcs) and \
                        any(x == ("v", f.params[k].id) for x in srcs)
                    alive = False
                    for fct in Ff.at_inst(c):
                        if e["x"][0] == "v" and Mf.match(("load", ("inst", e["x"][1])), fct[1], {}) is not None and is_const(fct[2]):
                            if (fct[0] == "ne" and const_val(fct[2]) == 0) or (fct[0] == "eq" and const_val(fct[2]) != 0):
                                alive = True
                    if from_k and alive:
                        good = True
                if not good:
                    return False
            return True
        for r_ in sorted(rec):
            fr_ = mod.fn(r_)
            callees_ = cg.edges.get(fr_.name, ()) if fr_ else ()
            if r_ in allowed and r_ != "match_glob":
                rep.assumed(rid, "cycle through %s" % r_, "E-recursion:%s" % r_, allowed[r_])
            elif fr_ is not None and fr_.name in callees_ and advances(fr_):
                rep.ok(rid, "%s: direct recursion on a strictly shorter string" % r_, "every recursive call advances a pointer argument past a non-terminator element", "%s:%s" % (fr_.file, fr_.line))
            else:
                rep.violation(rid, "unexpected recursion through %s" % r_, "call graph", "function lies on a call-graph cycle and is neither a listed depth-bounded cycle nor a "
                              "direct recursion that advances a string argument", function=r_, obj="recursion")
        # support: macbinary_decoder_type is not reachable from the decoders[] table
        dec = mod.globals.get("decoders")
        names = set()
        if dec and dec["init"]["k"] == "agg":
            for e in dec["init"]["elems"]:
                for x in e.get("elems", []):
                    if x["k"] == "scalar" and x["v"][0] == "gv":
                        names.add(x["v"][1])
        rep.check(rid, bool(names) and "macbinary_decoder_type" not in names, "the pass-through type is not selectable by method name", "lha_decoder.c", "decoders[] -> %s" % sorted(names)[:4],
                  function="decoders", obj="no-passthrough")
        # ---- R2 allocation sizes --------------------------------------------------------------------------
        rid = rep.rule("R2", "allocation sizes in lib/ are linear forms over admissible symbols with the ceilings in force", 12)
        nalloc = 0
        for fn in mod.defined():
            if fn.file.split("/")[-1] not in lib_files:
                continue
            M = Matcher(fn)
            F = None
            for c in fn.insts():
                if c.op != "call" or mod.callee_cname(c) not in ("malloc", "calloc", "realloc"):
                    continue
                nalloc += 1
                F = F or ctx.facts(fn)
                cn = mod.callee_cname(c)
                size_ops = c.ops[:1] if cn == "malloc" else (c.ops[:2] if cn == "calloc" else c.ops[1:2])
                syms = {}

                def symf(o, fn=fn, M=M, syms=syms):
                    s = M.strip(o)
                    d = fn.defn(s)
                    if d is None:
                        return None
                    if d.is_param:
                        syms["param:%s" % d.name] = s
                        return "param:%s" % d.name
                    if d.op == "call" and mod.callee_cname(d) == "strlen":
                        syms["strlen#%d" % d.id] = s
                        return "strlen#%d" % d.id
                    if d.op == "load":
                        a = fn.defn(d.ops[0])
                        from ..ir import field_of_gep
                        fo_ = field_of_gep(mod, a) if a is not None and not a.is_param and a.op == "getelementptr" else None
                        if fo_:
                            syms["field:%s.%s" % fo_] = s
                            return "field:%s.%s" % fo_
                    if d.op == "phi":
                        syms["phi#%d" % d.id] = s
                        return "phi#%d" % d.id
                    return None
                total = Lin(1 if cn == "calloc" else 0)
                forms = [linform(fn, o, symf) for o in size_ops]
                inst = "%s: %s(%s)" % (fn.cname, cn, ", ".join(repr(f) for f in forms))
                if any(f is None for f in forms):
                    rep.violation(rid, inst, c.where(), "allocation size is not a linear form over recognisable symbols: %s" % [describe(fn, o) for o in size_ops],
                                  function=fn.cname, obj="size")
                    continue
                bad = []
                for sname, sop in syms.items():
                    if sname.startswith("strlen#"):
                        continue                       # length of an existing string
                    if sname == "param:data_len" and fn.cname.startswith("ext_header_"):
                        continue                       # bounded by the header that contains it (<= 1 MiB + 64 KiB per extension, R2b)
                    if sname == "param:data_len" and fn.cname == "process_level0_path":
                        continue                       # one length byte (<= 255)
                    if sname == "param:nbytes" and fn.cname == "extend_raw_data":
                        f_, _ = M.find_fact(("ule", ("param", 2), MiB), F.at_inst(c))
                        if f_ is None:
                            bad.append("nbytes without the 1 MiB ceiling as an available fact")
                        continue
                    if sname == "field:LHAFileHeader.raw_data_len" and fn.cname == "extend_raw_data":
                        continue                       # bytes already read (input actually consumed)
                    if sname in ("field:LHADecoderType.extra_size", "field:LHADecoderType.max_read") and fn.cname == "lha_decoder_new":
                        continue                       # summed over all decoder types below
                    bad.append("symbol %s" % sname)
                rep.check(rid, not bad, inst, c.where(), "inadmissible size: %s" % bad if bad else None, function=fn.cname, obj="size")
        rep.extra["lib_alloc_sites"] = nalloc
        # decoder state sizes
        rid2 = rep.rule("R2b", "sizeof(LHADecoder) + extra_size + max_read <= 4 MiB for every decoder type; level-3 total header length <= 1 MiB", 13)
        dsz = mod.type_size("%struct._LHADecoder") or 0
        ntypes = 0
        for name, g in sorted(mod.globals.items()):
            if g["ty"].startswith("%struct._LHADecoderType") and "init" in g and g["init"]["k"] == "agg":
                el = g["init"]["elems"]
                vals = [const_val(e["v"]) if e["k"] == "scalar" and is_const(e["v"]) else None for e in el]
                extra, maxr = vals[3], vals[4]
                ntypes += 1
                rep.check(rid2, extra is not None and maxr is not None and dsz + extra + maxr <= 4 * MiB,
                          "%s: %d + %s + %s bytes" % (g.get("cname", name), dsz, extra, maxr), "%s:%s" % (g.get("file"), g.get("line")), None, function="LHADecoderType", obj=g.get("cname", name))
        rep.check(rid2, ntypes >= 13, "decoder types found", "lib/", "%d" % ntypes, function="LHADecoderType", obj="count")
        l3 = mod.fn("decode_level3_header")
        if l3:
            M = Matcher(l3)
            hl = ("call", "lha_decode_uint32", [ANY])
            ext = [c for c in l3.calls("extend_raw_data") if M.match(("bin", "sub", hl, ANY), c.ops[2], {}) is not None]
            rep.check(rid2, len(ext) == 1, "level 3: one extension to the declared total length", l3.file, None, function=l3.cname, obj="ext")
            for c in ext:
                guarded_site(rep, rid2, ctx, c, [("header_len <= 1 MiB", ("ule", hl, MiB))])

        # ---- R3 sticky flags ---------------------------------------------------------------------------------
        rid = rep.rule("R3", "sticky flags: eof / decoder_failed are only ever set to 1; the stream state leaves INIT exactly under state == INIT and never returns to it", 6)
        for S, f, ctor in (("LHABasicReader", "eof", "lha_basic_reader_new"), ("LHADecoder", "decoder_failed", "lha_decoder_new")):
            for st in stores_to_field(mod, S, f):
                v = const_val(st.ops[0]) if is_const(st.ops[0]) else None
                rep.check(rid, v == 1 or (v == 0 and st.fn.cname == ctor), "%s.%s = %s in %s" % (S, f, v, st.fn.cname), st.where(), None, function=st.fn.cname, obj=f)
        INIT = mod.enums.get("LHA_INPUT_STREAM_INIT")
        if INIT is None:
            rep.broken(rid, "enumerator LHA_INPUT_STREAM_INIT not found")
        else:
            for st in stores_to_field(mod, "LHAInputStream", "state"):
                v = const_val(st.ops[0]) if is_const(st.ops[0]) else None
                if st.fn.cname == "lha_input_stream_new":
                    rep.check(rid, v == INIT, "constructor sets INIT", st.where(), None, function=st.fn.cname, obj="state-init")
                else:
                    # every value the store can write (a constant, or a choice between constants) differs from INIT
                    srcs_ = ctx.facts(st.fn).sources(st.ops[0])
                    vals_ = [const_val(x) if is_const(x) else None for x, _ in srcs_]
                    ok = bool(vals_) and all(x is not None and x != INIT for x in vals_)
                    rep.check(rid, ok, "state = %s outside the constructor is never INIT" % (v if v is not None else sorted(set(map(str, vals_)))), st.where(), None, function=st.fn.cname, obj="state")
                    guarded_site(rep, rid, ctx, st, [("state == INIT", ("eq", ("load", ("field", "LHAInputStream", "state", ANY)), INIT))])

        # ---- R4 sfx scan ------------------------------------------------------------------------------------------
        rid = rep.rule("R4", "skip_sfx: the scan loop is left when 256 KiB have been examined, and the position only grows", 2)
        sx = rep.need(rid, mod.fn("skip_sfx"), "function skip_sfx")
        if sx:
            F = ctx.facts(sx)
            M = Matcher(sx)
            outer = max(sx.loops(), key=lambda l: len(l["body"])) if sx.loops() else None
            ok = False
            pos = None
            if outer:
                for (b, s) in outer["exits"]:
                    for f in F.edge_facts(b, s):
                        if f[0] == "uge" and is_const(f[2]) and const_val(f[2]) == 256 * 1024:
                            ok = True
                            pos = M.strip(f[1])
            rep.check(rid, ok, "exit at filepos >= 262144", sx.file, None, function=sx.cname, obj="bound")
            if pos is not None:
                p = sx.defn(pos)
                mono = p is not None and not p.is_param and p.op == "phi" and all(
                    (is_const(v) and const_val(v) == 0) or M.match(("bin", "add", ("inst", p.id), ANY), v, {}) is not None for v, _ in p.incoming)
                rep.check(rid, mono, "filepos starts at 0 and is only increased", sx.file, None, function=sx.cname, obj="monotone")
        # ---- decoder objects do not accumulate from member to member (heap bound): the slot rules of C20 ------------------
        from .c20 import decoder_slot_rules
        decoder_slot_rules(rep, ctx, mod, prefix="C20.")
        # ---- the end of the archive is reported, not the previous member again (rule shared with C12) --------------------------
        from .c12 import end_consistency_rules
        end_consistency_rules(rep, ctx, mod, prefix="C12.")
    return rep.finish(seed)
