"""C18 - archive-derived text printed by the tool is printable ASCII only.

R1 taint: no value derived from the header's string fields reaches a stdio output call
   except through the sanitising wrappers;
R2 the sanitiser: inside safe_printf / safe_fprintf (private helpers of src/safe.c are folded in by the
   normalised view) every output call prints, with "%s", a buffer that was filled by a formatting call from
   the wrapper's own format and arguments and then walked to its NUL by a loop that maps every byte into
   0x20..0x7e (byte-map loop evaluated over all 256 byte values), with nothing writing it in between;
R3 every format string at an output call is a literal made of printable ASCII, LF, CR, TAB.
"""
from ..context import Context
from ..report import Report
from ..facts import Facts, Matcher, ANY, is_const, const_val, describe
from ..callgraph import CallGraph
from ..taint import Taint
from ..bytemap import find_byte_loops, _ranges
from ..mem import root

HDR = "LHAFileHeader"
SOURCE_FIELDS = [(HDR, f) for f in ("path", "filename", "symlink_target", "unix_username", "unix_group")]
SOURCE_ARRAYS = [(HDR, "compress_method")]
SINKS = {"printf": 0, "fprintf": 1, "puts": None, "fputs": None, "putchar": None, "fputc": None, "putc": None, "fwrite": None,
         "vprintf": 0, "vfprintf": 1, "perror": None, "dprintf": 1, "write": None, "putchar_unlocked": None, "fputs_unlocked": None,
         "fwrite_unlocked": None, "_IO_putc": None}
SANITISERS = {"safe_printf", "safe_fprintf"}
ALLOWED = set(range(0x20, 0x7f)) | {0x0a, 0x0d, 0x09}
import re as _re
_CONVS = _re.compile(r"%[-+ #0]*(?:\*|\d+)?(?:\.(?:\*|\d+))?(?:hh|h|ll|l|j|z|t|L)?([diouxXeEfFgGaAcspn%])")


def char_positions(fmt, first_arg):
    """operand indices of the arguments a printf format turns into raw bytes: %c (the byte itself) and %s (the bytes of a string)"""
    out, k = [], first_arg
    for m in _CONVS.finditer(fmt):
        whole, conv = m.group(0), m.group(1)
        if conv == "%":
            continue
        k += whole.count("*")
        if conv in "cs":
            out.append(k)
        k += 1
    return out


class ByteTaint(Taint):
    """second instance of E5 for the header's NUMBERS: a number is harmless printed as a number, and is an archive-chosen byte when it is
    printed with %c, handed to putchar, or stored into a character buffer that is later printed.  Formatting calls therefore pass taint on
    only from the arguments their (literal) format turns into raw bytes."""

    def _call(self, fn, i):
        t = i.callee
        if t in ("sprintf", "snprintf") :
            fi = 1 if t == "sprintf" else 2
            fmt = self.mod.const_string(i.ops[fi]) if len(i.ops) > fi else None
            if fmt is not None:
                pos = char_positions(fmt.split(b"\0")[0].decode("latin-1"), fi + 1)
                if any(k < len(i.ops) and self.is_tainted(fn, i.ops[k]) for k in pos):
                    fo, g = self._addr_field(fn, self._strip_zero_gep(fn, i.ops[0]))
                    if fo:
                        return self._mark(fo, ("copied-into", fn.name, i.ops[0], i.where()), "f")
                    return self._taint_object(fn, i.ops[0], ("copied", fn.name, i.where()))
                return False
        return Taint._call(self, fn, i)



def run(tier, seed):
    rep = Report("C18", tier, "other",
                 "Static taint analysis (sources: the header's path, filename, symlink_target, compress_method, unix_username, "
                 "unix_group; propagation through SSA, struct fields, locals, libc copy functions, calls and returns over the "
                 "resolved call graph; sinks: every stdio output call of the program) shows that header-derived text reaches "
                 "output only through safe_printf/safe_fprintf; the sanitiser loop is evaluated abstractly over all 256 byte "
                 "values and leaves only 0x20-0x7e in the string it then prints; format strings are printable literals. "
                 "File data written by 'p' and by extraction is not header text and is outside the rule by construction.")
    with Context(tier) as ctx:
        from .. import selfcheck
        selfcheck.run(ctx, rep, ['taint'])
        mod = ctx.plain()
        cg = CallGraph(mod)
        T = Taint(mod, cg, SOURCE_FIELDS, SOURCE_ARRAYS, SANITISERS)
        rep.analysed = {"view": "plain", "functions": len(mod.defined()), "tainted_values": len(T.vals), "tainted_fields": sorted("%s.%s" % f for f in T.fields),
                        "tainted_objects": len(T.objs), "fixpoint_rounds": T.rounds}

        # ---- R1 ----------------------------------------------------------------------------------------------
        rid = rep.rule("R1", "no header-derived value reaches a stdio output call outside the sanitiser", 60)
        nsinks = 0
        san_calls = 0
        for fn in mod.defined():
            for c in fn.insts():
                if c.op != "call":
                    continue
                cn = mod.callee_cname(c)
                if cn in ("safe_printf", "safe_fprintf"):
                    if any(T.is_tainted(fn, a) for a in c.ops):
                        san_calls += 1
                    # the format itself must not be header-derived
                    fi = 0 if cn == "safe_printf" else 1
                    if T.is_tainted(fn, c.ops[fi]):
                        rep.violation(rid, "header-derived format string for %s" % cn, c.where(), T.explain(fn, c.ops[fi]), function=fn.cname, obj="format")
                    continue
                if cn not in SINKS:
                    continue
                if fn.cname in SANITISERS:
                    continue
                nsinks += 1
                bad = [a for a in c.ops if T.is_tainted(fn, a)]
                rep.check(rid, not bad, "%s in %s prints no header-derived value" % (cn, c.src_fn()), c.where(),
                          "tainted argument %s: %s" % (describe(fn, bad[0]), T.explain(fn, bad[0])) if bad else None,
                          function=fn.cname, obj="%s:%s" % (cn, describe(fn, bad[0], 1) if bad else ""))
        rep.extra["sink_sites"] = nsinks
        rep.extra["sanitised_sites_with_header_text"] = san_calls
        rid1b = rep.rule("R1b", "positive control: header text does flow into the sanitising wrappers (the taint engine sees the flows)", 1)
        rep.check(rid1b, san_calls >= 8, "header-derived arguments reach safe_printf/safe_fprintf at %d sites" % san_calls, "src/", None,
                  function="taint", obj="control")
        if san_calls < 8:
            rep.broken(rid1b, "taint engine sees only %d tainted wrapper calls (expected >= 8): sources or propagation broken" % san_calls)

        # ---- R2 ----------------------------------------------------------------------------------------------------
        rid = rep.rule("R2", "inside the sanitising wrappers every output call prints, with \"%s\", the buffer that was formatted from the wrapper's own format and then "
                             "rewritten byte by byte into 0x20-0x7e up to its NUL, with nothing writing it in between", 6)
        FORMATTERS = {"lha_arch_vasprintf": (0, 1, "slot"), "vasprintf": (0, 1, "slot"), "vsnprintf": (0, 2, "buf"), "vsprintf": (0, 1, "buf")}
        nw = 0
        for w, fi in (("safe_printf", 0), ("safe_fprintf", 1)):
            fn = rep.need(rid, mod.fn(w), "function " + w)
            if not fn:
                continue
            F, M = ctx.facts(fn), Matcher(fn)
            loops = find_byte_loops(fn, F)
            sinks = [c for c in fn.insts() if c.op == "call" and mod.callee_cname(c) in SINKS]
            rep.check(rid, len(sinks) >= 1, "%s prints through at least one output call" % w, fn.file, None, function=w, obj="sinks")
            for c in sinks:
                nw += 1
                cn = mod.callee_cname(c)
                sfi = SINKS[cn]
                fmt = mod.const_string(M.strip(c.ops[sfi], ("bitcast",))) if sfi is not None else None
                args = [a for k, a in enumerate(c.ops) if k > (sfi if sfi is not None else -1)]
                if cn in ("fputs", "puts", "fputs_unlocked") and c.ops:
                    fmt, args = b"%s", [c.ops[0]]           # prints the string up to its NUL, exactly as "%s" does
                if fmt != b"%s" or len(args) != 1:
                    rep.violation(rid, "%s: output call %s prints one string with format \"%%s\"" % (w, cn), c.where(), "format %r, %d arguments" % (fmt, len(args)), function=w, obj="format")
                    continue
                P = M.strip(args[0], ("bitcast",))
                # (a) a scrub loop over exactly this string
                good = None
                why = "no byte loop walks the printed string"
                for bl in loops:
                    b0 = M.strip(bl.init, ("bitcast",))
                    same = b0 == P or M.equiv(b0, P) or (M.match(("gep", ("bind", "x"), [0, 0]), bl.init, {}) or {}).get("x") == (M.match(("gep", ("bind", "x"), [0, 0]), args[0], {}) or {"x": None}).get("x")
                    if bl.kind == "index":
                        # index walk over the string: s[0], s[1], ... from the start
                        bb = M.strip(bl.base, ("bitcast",)) if bl.base is not None else None
                        same = bl.start_ok and bb is not None and (bb == P or M.equiv(bb, P))
                    if not same:
                        continue
                    if not (bl.step_ok and bl.exit == "nul" and bl.unvisited_ok):
                        why = "the loop over the printed string does not run byte by byte up to the terminating NUL (exit=%s)" % bl.exit
                        continue
                    if not (bl.final_values <= set(range(0x20, 0x7f)) and bl.covered >= set(range(1, 256))):
                        why = "the loop leaves bytes outside 0x20-0x7e: %s" % _ranges(bl.final_values - set(range(0x20, 0x7f)))
                        continue
                    hdr = bl.loop["header"]
                    if not (fn.dominates(hdr, c.block.id) and c.block.id not in bl.loop["body"]):
                        why = "the output call is not after the loop"
                        continue
                    # (b) nothing between the loop and the call writes memory
                    between = set()
                    work = [t for (b_, t) in bl.loop["exits"]]
                    while work:
                        x = work.pop()
                        if x in between or x in bl.loop["body"]:
                            continue
                        between.add(x)
                        if x != c.block.id:
                            work.extend(fn.blocks[x].succs)
                    dirty = [i for x in between for i in fn.blocks[x].insts if (i.op == "store" or (i.op == "call" and not (i.callee or "").startswith("llvm.") and i is not c))
                             and (x != c.block.id or i.idx < c.idx) and fn.dominates(x, c.block.id)]
                    if dirty:
                        why = "something may write the string between the loop and the output call: %s" % dirty[0].where()
                        continue
                    good = bl
                    break
                rep.check(rid, good is not None, "%s: %s prints the string that was sanitised" % (w, cn), c.where(), why if good is None else "byte loop at bb%d: %s" % (good.loop["header"], good.path_detail),
                          function=w, obj="printed")
                if good is not None:
                    rep.sample({"wrapper": w, "paths": good.path_detail, "final_values": _ranges(good.final_values)})
                # (c) the string is what a formatting call produced from the wrapper's own format
                src_ok, swhy = False, "the printed string is not the output of a formatting call on this wrapper's format"
                for fc in fn.insts():
                    if fc.op != "call" or mod.callee_cname(fc) not in FORMATTERS:
                        continue
                    di, ffi, kind = FORMATTERS[mod.callee_cname(fc)]
                    if M.strip(fc.ops[ffi], ("bitcast",)) != ("v", fn.params[fi].id):
                        continue
                    dst = M.strip(fc.ops[di], ("bitcast",))
                    if kind == "slot":
                        dd = fn.defn(P)
                        hit = dd is not None and not dd.is_param and dd.op == "load" and M.strip(dd.ops[0], ("bitcast",)) == dst
                    else:
                        hit = dst == P or root(fn, fc.ops[di])[:2] == root(fn, args[0])[:2]
                    if hit and fn.dominates(fc.block.id, c.block.id):
                        src_ok = True
                rep.check(rid, src_ok, "%s: the string printed is the text formatted from the wrapper's format argument" % w, c.where(), None if src_ok else swhy, function=w, obj="formatted")
        if nw == 0:
            rep.broken(rid, "no output call found inside safe_printf / safe_fprintf")
        # no other function of src/safe.c prints
        for fn in mod.defined():
            if fn.file.endswith("safe.c") and fn.cname not in ("safe_printf", "safe_fprintf"):
                for c in fn.insts():
                    if c.op == "call" and mod.callee_cname(c) in SINKS:
                        rep.violation(rid, "output call in safe.c outside the wrappers (after folding private helpers)", c.where(), mod.callee_cname(c), function=fn.cname, obj="sink")

        # ---- R3 ---------------------------------------------------------------------------------------------------------
        rid = rep.rule("R3", "format strings at output calls are literals of printable ASCII / LF / CR / TAB", 60)
        for fn in mod.defined():
            M = Matcher(fn)
            for c in fn.insts():
                if c.op != "call":
                    continue
                cn = mod.callee_cname(c)
                fi = SINKS.get(cn, "x") if cn in SINKS else None
                if cn in ("safe_printf", "safe_fprintf"):
                    fi = 0 if cn == "safe_printf" else 1
                elif cn not in SINKS or fi is None:
                    continue
                if fn.cname in ("safe_printf", "safe_fprintf"):
                    continue
                fmt = mod.const_string(M.strip(c.ops[fi], ("bitcast",)))
                if fmt is None:
                    # a non-literal format: admissible only if it is a parameter that is itself always a literal at call sites
                    # (prompt_user(message)); resolve one level
                    d = fn.defn(M.strip(c.ops[fi], ("bitcast",)))
                    ok = False
                    detail = "non-literal format %s" % describe(fn, c.ops[fi])
                    rep.check(rid, ok, "%s format in %s is a literal" % (cn, fn.cname), c.where(), detail, function=fn.cname, obj="format:%s" % cn)
                    continue
                bad = [b for b in fmt if b not in ALLOWED]
                rep.check(rid, not bad, "%s format %r" % (cn, fmt[:40]), c.where(), "bytes %s" % bad if bad else None, function=fn.cname, obj="format-bytes")
        # ---- R4: numbers printed as characters -------------------------------------------------------------------------------------
        rid = rep.rule("R4", "no number taken from the header is printed as a raw byte outside the sanitiser: not through %c or putchar, and not through a "
                             "character buffer it was formatted or stored into (numeric conversions are printable whatever the value)", 40)
        hdr_ty = [t for t in mod.types if mod.struct_cname(t) == HDR]
        scal = []
        for t in hdr_ty:
            for k, fdesc in enumerate(mod.types[t].get("fields", [])):
                fty = fdesc.get("ty", "")
                nm = mod.field_name(t, k)
                if nm and not fty.endswith("*") and not fty.startswith("[") and not fty.startswith("%"):
                    scal.append((HDR, nm))
        scal = sorted(set(scal))
        rep.check(rid, len(scal) >= 8, "numeric header fields found (%d)" % len(scal), "lib/public/lha_file_header.h", None, function="LHAFileHeader", obj="fields")
        B = ByteTaint(mod, cg, scal, [], SANITISERS)
        nb = 0
        for fn in mod.defined():
            if fn.cname in SANITISERS:
                continue
            F = None
            for c in fn.insts():
                if c.op != "call":
                    continue
                cn = mod.callee_cname(c)
                if cn not in SINKS:
                    continue
                fi = SINKS[cn]
                if fi is not None:
                    fmt = mod.const_string(Matcher(fn).strip(c.ops[fi], ("bitcast",))) if len(c.ops) > fi else None
                    if fmt is None:
                        continue            # R3 reports non-literal formats
                    pos = char_positions(fmt.split(b"\0")[0].decode("latin-1"), fi + 1)
                elif cn in ("putchar", "fputc", "putc", "putchar_unlocked", "_IO_putc", "puts", "fputs", "fputs_unlocked", "fwrite", "fwrite_unlocked", "write"):
                    pos = [1] if cn == "write" else [0]
                else:
                    continue
                nb += 1
                bad = []
                for k in pos:
                    if k < len(c.ops) and B.is_tainted(fn, c.ops[k]):
                        # a byte shown to be printable by the branch facts at the call is as good as sanitised
                        F = F or ctx.facts(fn)
                        fs = F.at_inst(c)
                        Mx = Matcher(fn)
                        lo = any(f[0] in ("sge", "uge", "sgt", "ugt") and Mx.strip(f[1]) == Mx.strip(c.ops[k]) and is_const(f[2]) and
                                 (const_val(f[2]) or 0) + (1 if f[0] in ("sgt", "ugt") else 0) >= 0x20 for f in fs)
                        hi = any(f[0] in ("sle", "ule", "slt", "ult") and Mx.strip(f[1]) == Mx.strip(c.ops[k]) and is_const(f[2]) and
                                 (const_val(f[2]) or 0) - (1 if f[0] in ("slt", "ult") else 0) <= 0x7e for f in fs)
                        if not (lo and hi):
                            bad.append(k)
                rep.check(rid, not bad, "%s in %s prints no header number as a raw byte" % (cn, c.src_fn()), c.where(),
                          "argument %s: %s" % (describe(fn, c.ops[bad[0]]), B.explain(fn, c.ops[bad[0]])) if bad else None,
                          function=fn.cname, obj="%s:byte" % cn)
        rep.extra["byte_sink_sites"] = nb
    return rep.finish(seed)
