"""C18 - archive-derived text printed by the tool is printable ASCII only.

R1 taint: no value derived from the header's string fields reaches a stdio output call
   except through the sanitising wrappers;
R2 the sanitiser: safe_output maps every byte of the string it prints into 0x20..0x7e
   (byte-map loop evaluated over all 256 byte values), prints the pointer it sanitised,
   and the wrappers hand it exactly the vasprintf result;
R3 every format string at an output call is a literal made of printable ASCII, LF, CR, TAB.
"""
from ..context import Context
from ..report import Report
from ..facts import Facts, Matcher, ANY, is_const, const_val, describe
from ..callgraph import CallGraph
from ..taint import Taint
from ..bytemap import find_byte_loops, _ranges
from ..mem import root

HDR = "LHAFileHeader"
SOURCE_FIELDS = [(HDR, f) for f in ("path", "filename", "symlink_target", "unix_username", "unix_group")]
SOURCE_ARRAYS = [(HDR, "compress_method")]
SINKS = {"printf": 0, "fprintf": 1, "puts": None, "fputs": None, "putchar": None, "fputc": None, "putc": None, "fwrite": None,
         "vprintf": 0, "vfprintf": 1, "perror": None, "dprintf": 1, "write": None, "putchar_unlocked": None, "fputs_unlocked": None,
         "fwrite_unlocked": None, "_IO_putc": None}
SANITISERS = {"safe_printf", "safe_fprintf", "safe_output"}
ALLOWED = set(range(0x20, 0x7f)) | {0x0a, 0x0d, 0x09}


def run(tier, seed):
    rep = Report("C18", tier, "other",
                 "Static taint analysis (sources: the header's path, filename, symlink_target, compress_method, unix_username, "
                 "unix_group; propagation through SSA, struct fields, locals, libc copy functions, calls and returns over the "
                 "resolved call graph; sinks: every stdio output call of the program) shows that header-derived text reaches "
                 "output only through safe_printf/safe_fprintf; the sanitiser loop is evaluated abstractly over all 256 byte "
                 "values and leaves only 0x20-0x7e in the string it then prints; format strings are printable literals. "
                 "File data written by 'p' and by extraction is not header text and is outside the rule by construction.")
    with Context(tier) as ctx:
        from .. import selfcheck
        selfcheck.run(ctx, rep, ['taint'])
        mod = ctx.plain()
        cg = CallGraph(mod)
        T = Taint(mod, cg, SOURCE_FIELDS, SOURCE_ARRAYS, SANITISERS)
        rep.analysed = {"view": "plain", "functions": len(mod.defined()), "tainted_values": len(T.vals), "tainted_fields": sorted("%s.%s" % f for f in T.fields),
                        "tainted_objects": len(T.objs), "fixpoint_rounds": T.rounds}

        # ---- R1 ----------------------------------------------------------------------------------------------
        rid = rep.rule("R1", "no header-derived value reaches a stdio output call outside the sanitiser", 60)
        nsinks = 0
        san_calls = 0
        for fn in mod.defined():
            for c in fn.insts():
                if c.op != "call":
                    continue
                cn = mod.callee_cname(c)
                if cn in ("safe_printf", "safe_fprintf"):
                    if any(T.is_tainted(fn, a) for a in c.ops):
                        san_calls += 1
                    # the format itself must not be header-derived
                    fi = 0 if cn == "safe_printf" else 1
                    if T.is_tainted(fn, c.ops[fi]):
                        rep.violation(rid, "header-derived format string for %s" % cn, c.where(), T.explain(fn, c.ops[fi]), function=fn.cname, obj="format")
                    continue
                if cn not in SINKS:
                    continue
                if fn.cname in SANITISERS:
                    continue
                nsinks += 1
                bad = [a for a in c.ops if T.is_tainted(fn, a)]
                rep.check(rid, not bad, "%s in %s prints no header-derived value" % (cn, c.src_fn()), c.where(),
                          "tainted argument %s: %s" % (describe(fn, bad[0]), T.explain(fn, bad[0])) if bad else None,
                          function=fn.cname, obj="%s:%s" % (cn, describe(fn, bad[0], 1) if bad else ""))
        rep.extra["sink_sites"] = nsinks
        rep.extra["sanitised_sites_with_header_text"] = san_calls
        rid1b = rep.rule("R1b", "positive control: header text does flow into the sanitising wrappers (the taint engine sees the flows)", 1)
        rep.check(rid1b, san_calls >= 8, "header-derived arguments reach safe_printf/safe_fprintf at %d sites" % san_calls, "src/", None,
                  function="taint", obj="control")
        if san_calls < 8:
            rep.broken(rid1b, "taint engine sees only %d tainted wrapper calls (expected >= 8): sources or propagation broken" % san_calls)

        # ---- R2 ----------------------------------------------------------------------------------------------------
        rid = rep.rule("R2", "safe_output rewrites every byte of its string into 0x20-0x7e before printing that same string", 5)
        so = rep.need(rid, mod.fn("safe_output"), "function safe_output")
        if so:
            F = ctx.facts(so)
            M = Matcher(so)
            loops = find_byte_loops(so, F)
            sinks = [c for c in so.insts() if c.op == "call" and mod.callee_cname(c) in SINKS]
            rep.check(rid, len(loops) == 1, "one byte loop in safe_output", so.file, "%d" % len(loops), function=so.cname, obj="loops")
            rep.check(rid, len(sinks) == 1, "one output call in safe_output", so.file, "%d" % len(sinks), function=so.cname, obj="sinks")
            for bl in loops:
                rep.check(rid, bl.kind == "ptr" and M.strip(bl.init, ("bitcast",)) == ("v", so.params[1].id) and bl.step_ok,
                          "the loop walks the string parameter from its first byte, one byte at a time", so.file, None, function=so.cname, obj="walk")
                rep.check(rid, bl.exit == "nul" and bl.unvisited_ok, "the loop stops only at the terminating NUL", so.file, "exit=%s" % bl.exit, function=so.cname, obj="exit")
                good = bl.final_values <= set(range(0x20, 0x7f)) and bl.covered >= set(range(1, 256))
                rep.check(rid, good, "every visited byte ends in 0x20-0x7e", so.file,
                          "paths: %s" % bl.path_detail, function=so.cname, obj="range")
                rep.sample({"loop": "safe_output", "paths": bl.path_detail, "final_values": _ranges(bl.final_values)})
                for c in sinks:
                    fi = SINKS[mod.callee_cname(c)]
                    fmt = mod.const_string(M.strip(c.ops[fi], ("bitcast",))) if fi is not None else None
                    args = [a for k, a in enumerate(c.ops) if k > (fi if fi is not None else -1)]
                    okp = fmt == b"%s" and len(args) == 1 and M.strip(args[0], ("bitcast",)) == ("v", so.params[1].id)
                    rep.check(rid, okp, "the string printed is the pointer that was sanitised, with format \"%s\"", c.where(), "format %r" % fmt, function=so.cname, obj="printed")
                    hdr = bl.loop["header"]
                    rep.check(rid, so.dominates(hdr, c.block.id) and c.block.id not in bl.loop["body"], "printing happens after the loop", c.where(), None,
                              function=so.cname, obj="order")
        rid = rep.rule("R2b", "safe_printf / safe_fprintf pass exactly the vasprintf result to safe_output and print nothing themselves", 4)
        for w in ("safe_printf", "safe_fprintf"):
            fn = rep.need(rid, mod.fn(w), "function " + w)
            if not fn:
                continue
            M = Matcher(fn)
            va = list(fn.calls("lha_arch_vasprintf"))
            outs = list(fn.calls("safe_output"))
            direct = [c for c in fn.insts() if c.op == "call" and mod.callee_cname(c) in SINKS]
            rep.check(rid, not direct, "%s has no direct output call" % w, fn.file, None, function=w, obj="direct")
            ok = len(va) == 1 and len(outs) == 1
            if ok:
                r = root(fn, va[0].ops[0])
                ok = r[0] == "alloca" and M.match(("load", ("inst", r[1])), outs[0].ops[1], {}) is not None
                # the format handed to vasprintf is this wrapper's format parameter
                fi = 0 if w == "safe_printf" else 1
                ok = ok and M.strip(va[0].ops[1], ("bitcast",)) == ("v", fn.params[fi].id)
                ok = ok and (fn.dominates(va[0].block.id, outs[0].block.id))
            rep.check(rid, ok, "%s: safe_output(stream, str) with str the buffer produced by lha_arch_vasprintf(&str, format, args)" % w, fn.file, None, function=w, obj="wiring")
        av = mod.fn("lha_arch_vasprintf")
        if av:
            M = Matcher(av)
            c = list(av.calls("vasprintf"))
            rep.check(rid, len(c) == 1 and all(M.match(("param", k), c[0].ops[k], {}) is not None for k in range(3)), "lha_arch_vasprintf forwards to vasprintf", av.file, None,
                      function=av.cname, obj="forward")
        # every other stdio sink of src/safe.c: none
        for fn in mod.defined():
            if fn.file.endswith("safe.c") and fn.cname != "safe_output":
                for c in fn.insts():
                    if c.op == "call" and mod.callee_cname(c) in SINKS:
                        rep.violation(rid, "output call in safe.c outside safe_output", c.where(), mod.callee_cname(c), function=fn.cname, obj="sink")

        # ---- R3 ---------------------------------------------------------------------------------------------------------
        rid = rep.rule("R3", "format strings at output calls are literals of printable ASCII / LF / CR / TAB", 60)
        for fn in mod.defined():
            M = Matcher(fn)
            for c in fn.insts():
                if c.op != "call":
                    continue
                cn = mod.callee_cname(c)
                fi = SINKS.get(cn, "x") if cn in SINKS else None
                if cn in ("safe_printf", "safe_fprintf"):
                    fi = 0 if cn == "safe_printf" else 1
                elif cn not in SINKS or fi is None:
                    continue
                if fn.cname in ("safe_printf", "safe_fprintf"):
                    continue
                fmt = mod.const_string(M.strip(c.ops[fi], ("bitcast",)))
                if fmt is None:
                    # a non-literal format: admissible only if it is a parameter that is itself always a literal at call sites
                    # (prompt_user(message)); resolve one level
                    d = fn.defn(M.strip(c.ops[fi], ("bitcast",)))
                    ok = False
                    detail = "non-literal format %s" % describe(fn, c.ops[fi])
                    rep.check(rid, ok, "%s format in %s is a literal" % (cn, fn.cname), c.where(), detail, function=fn.cname, obj="format:%s" % cn)
                    continue
                bad = [b for b in fmt if b not in ALLOWED]
                rep.check(rid, not bad, "%s format %r" % (cn, fmt[:40]), c.where(), "bytes %s" % bad if bad else None, function=fn.cname, obj="format-bytes")
    return rep.finish(seed)
