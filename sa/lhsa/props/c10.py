"""C10 - extraction never touches anything outside the extraction directory.

Decided (claimed in part): the structural clauses -
 R1 read-only commands cannot reach a filesystem mutator (call graph);
 R2 libc mutators are confined to lib/lha_arch_unix.c, every other fopen is "rb";
 R3 unlink-then-O_CREAT|O_EXCL discipline in lha_arch_fopen, unlink before symlink;
 R4 dangerous symlinks are deferred (placeholder) and only re-presented at end of archive,
    ordered by decreasing path length;
 R5 leading '/' stripped from path and name at the strcat sites of file_full_path;
 R6 directory metadata only for directories this run created.
Not decided: kernel path resolution, crash-point interleavings, collapse_path's internals (C11).
"""
from ..context import Context
from ..report import Report
from ..facts import Facts, Matcher, ANY, is_const, const_val, describe, describe_fact
from ..paths import PathStates, holds, refuted, show
from ..rules import (require_on_success, guarded_site, success_edges, facts_for_success, stores_to_field, rets,
                     blocks_reachable_from)
from ..callgraph import CallGraph, UNKNOWN

RD, HDR = "LHAReader", "LHAFileHeader"

LIBC_MUTATORS = {"open", "open64", "openat", "creat", "creat64", "mkdir", "mkdirat", "unlink", "unlinkat", "remove", "rename",
                 "renameat", "symlink", "symlinkat", "link", "linkat", "chmod", "fchmod", "fchmodat", "chown", "fchown",
                 "lchown", "fchownat", "utime", "utimes", "utimensat", "futimens", "futimes", "lutimes", "truncate",
                 "ftruncate", "rmdir", "mkfifo", "mknod", "mkstemp", "mkdtemp", "tmpfile", "freopen", "fdopen",
                 "system", "popen", "execl", "execv", "execve", "execvp", "fork"}
ARCH_MUTATORS = {"lha_arch_mkdir", "lha_arch_chown", "lha_arch_chmod", "lha_arch_utime", "lha_arch_fopen", "lha_arch_symlink"}
READ_ONLY_ENTRIES = ["list_file_basic", "list_file_verbose", "test_file_crc", "extract_archive_dry_run"]
O_WRONLY, O_CREAT, O_EXCL, O_TRUNC = 0o1, 0o100, 0o200, 0o1000


FD_BASED = {"fchmod", "fchown", "futimens", "futimes", "ftruncate", "fdopen"}
NEVER_FOLLOW = {"unlink", "unlinkat", "remove", "rename", "renameat", "symlink", "symlinkat", "mkdir", "mkdirat", "rmdir", "lchown", "lutimes", "mkfifo", "mknod",
                "mkstemp", "mkdtemp", "tmpfile", "link", "linkat"}
AT_SYMLINK_NOFOLLOW, O_NOFOLLOW = 0x100, 0o400000


def _path_arg(what):
    return 1 if what in ("utimensat", "fchmodat", "fchownat", "openat", "mkdirat", "unlinkat") else 0


def _may_follow_link(c, what):
    """can this libc call act on the target of a symbolic link found at the final component of its path argument?"""
    if what in FD_BASED or what in NEVER_FOLLOW:
        return False
    if what in ("utimensat", "fchmodat", "fchownat"):
        fl = c.ops[{"utimensat": 3, "fchmodat": 3, "fchownat": 4}[what]] if len(c.ops) > 3 else None
        return not (fl is not None and is_const(fl) and const_val(fl) is not None and const_val(fl) & AT_SYMLINK_NOFOLLOW)
    if what in ("open", "open64", "openat"):
        fl = c.ops[2 if what == "openat" else 1] if len(c.ops) > 1 else None
        if fl is not None and is_const(fl) and const_val(fl) is not None:
            v = const_val(fl)
            return not ((v & O_NOFOLLOW) or (v & O_CREAT and v & O_EXCL))
        return True
    return True


def fopen_mode(mod, fn, call):
    M = Matcher(fn)
    if len(call.ops) < 2:
        return None
    return mod.const_string(M.strip(call.ops[1], ("bitcast",)))


def fn_is_call_result(fn, o):
    d = fn.defn(o)
    return d is not None and not d.is_param and d.op == "call"


def run(tier, seed):
    rep = Report("C10", tier, "other",
                 "Static call-graph, path and provenance analysis of the extraction code: (R1) no call path from the list, test, "
                 "and dry-run commands to any filesystem-mutating function, and the mutating calls of the extract/print commands lie "
                 "behind 'dry_run == 0'; (R2) libc mutators are called only in lib/lha_arch_unix.c and every other fopen uses mode "
                 "\"rb\"; (R3) lha_arch_fopen unlinks the name and opens it with O_CREAT|O_EXCL (no O_TRUNC), lha_arch_symlink "
                 "unlinks first; (R4) a dangerous symlink of a normal entry becomes a placeholder and real symlink creation of "
                 "deferred entries happens only after input and directory stack are exhausted, list kept in decreasing path length; "
                 "(R5) the strings appended to the output path start at a byte != '/'; (R6) directory metadata is applied only to "
                 "directories whose mkdir succeeded in this run; (R6c) the link-following metadata setters (utime/chmod/chown) only ever receive a path the same call created with O_EXCL or mkdir, or a re-presented directory. Decides these necessary conditions, not the filesystem behaviour "
                 "(kernel path resolution, crash points); (R7) is_dangerous_symlink is checked against the component scanner: a zero result only for a missing target or at the "
                 "end of a target not starting with '/', every component boundary crossed under facts excluding '..' (E9 SCAN). collapse_path's internals: C11 R5. (R1c) the option-word parser examines every character - the cursor steps by one, or past bytes the path's branch facts show to differ from 'n', or leaves the word at 'w' - "
                 "and sets dry_run on every path on which the current byte is 'n'; (R3b) lha_arch_mkdir reports success only under mkdir(...) == 0; (R4d) one genuine defect is a recorded known finding.")
    with Context(tier) as ctx:
        from .. import selfcheck
        selfcheck.run(ctx, rep, ['facts'])
        mod = ctx.plain()
        cg = CallGraph(mod)
        rep.analysed = {"view": "plain", "functions": len(mod.defined()), "units": len(ctx.views.units),
                        "call_edges": sum(len(v) for v in cg.edges.values()), "indirect_sites": len(cg.indirect)}

        # which functions are mutators: libc deny-list + fopen with a non-read mode
        def direct_mutations(fn):
            out = []
            for c in fn.insts():
                if c.op != "call" or not c.callee:
                    continue
                if c.callee in LIBC_MUTATORS:
                    out.append((c, c.callee))
                elif c.callee in ("fopen", "fopen64"):
                    m = fopen_mode(mod, fn, c)
                    if m is None or not m.startswith(b"r") or b"+" in m:
                        out.append((c, "fopen(mode %r)" % m))
            return out

        mutating_fns = {}
        for fn in mod.defined():
            dm = direct_mutations(fn)
            if dm:
                mutating_fns[fn.name] = dm

        # ---- R2: confinement -------------------------------------------------------------------------
        rid = rep.rule("R2", "libc filesystem mutators are called only inside lib/lha_arch_unix.c; fopen elsewhere uses a read-only mode", 8)
        nsite = 0
        for fname, dm in sorted(mutating_fns.items()):
            fn = mod.functions[fname]
            for c, what in dm:
                nsite += 1
                inside = fn.file.endswith("lha_arch_unix.c")
                # outside the arch layer only calls that cannot act through a symbolic link at the final path component are tolerated
                # (remove/unlink/rmdir/mkdir/rename..., creators that fail on an existing name): what they touch is the named entry itself,
                # and R1/R1b keep every mutator away from the read-only commands.  Anything that can follow a link (chmod, utime, chown,
                # truncating opens, fopen for writing) or starts a process stays confined to the wrappers, whose discipline R3/R6c decide.
                tolerated = (not inside) and what in NEVER_FOLLOW and what not in ("symlink", "symlinkat", "link", "linkat", "rename", "renameat")
                rep.check(rid, inside or tolerated, "%s called in %s%s" % (what, fn.cname, " (cannot follow a link at the final component)" if tolerated else ""), c.where(),
                          "filesystem mutator outside the arch layer", function=fn.cname, obj=what)
        for fn in mod.defined():
            for c in fn.calls("fopen"):
                m = fopen_mode(mod, fn, c)
                rep.check(rid, m is not None and m.startswith(b"r") and b"+" not in m, "fopen mode in %s is read-only" % fn.cname, c.where(), repr(m),
                          function=fn.cname, obj="fopen")
        # the arch mutators are exactly the functions of lha_arch_unix.c that contain mutators
        arch_found = {mod.functions[f].cname for f in mutating_fns if mod.functions[f].file.endswith("lha_arch_unix.c")}
        rep.check(rid, ARCH_MUTATORS <= arch_found, "the six known arch-layer wrappers are where the mutators are", "lha_arch_unix.c",
                  "found %s" % sorted(arch_found), function="lha_arch_unix.c", obj="wrappers")
        # a further wrapper in the arch layer is not by itself a violation (R1/R1b cover whatever reaches a mutator): classify what it
        # calls.  Calls that cannot follow a symbolic link in the final path component (fd-based, l*/AT_SYMLINK_NOFOLLOW variants,
        # creators that fail on an existing name) need nothing more; one that can makes the wrapper a link-following setter whose call
        # sites are then held to R6c like utime/chmod/chown.
        extra_following = {}
        for f in sorted(mutating_fns):
            fn = mod.functions[f]
            if not fn.file.endswith("lha_arch_unix.c") or fn.cname in ARCH_MUTATORS:
                continue
            Mx = Matcher(fn)
            for c, what in mutating_fns[f]:
                fol = _may_follow_link(c, what)
                if fol:
                    a = fn.defn(Mx.strip(c.ops[_path_arg(what)], ("bitcast",))) if len(c.ops) > _path_arg(what) else None
                    extra_following[fn.cname] = a.index if a is not None and a.is_param else 0
                rep.ok(rid, "additional arch wrapper %s calls %s: %s" % (fn.cname, what, "may follow a symbolic link at the final component -> call sites held to R6c" if fol
                       else "cannot follow a symbolic link at the final component"), None, c.where())

        # ---- R1: read-only commands ----------------------------------------------------------------------
        rid = rep.rule("R1", "no call path from a read-only command (l, v, t, dry run) to a filesystem mutator", 4)
        targets = set(mutating_fns)
        for e in READ_ONLY_ENTRIES:
            fn = rep.need(rid, mod.fn(e), "function " + e)
            if not fn:
                continue
            reach = cg.reachable([fn.name])
            hit = reach & targets
            p = cg.path(fn.name, hit) if hit else None
            rep.check(rid, not hit, "%s reaches no mutator (%d functions reachable)" % (e, len(reach)), "%s:%s" % (fn.file, fn.line),
                      "call path: %s" % " -> ".join(p) if p else None, function=e, obj="reach")
        rid = rep.rule("R1b", "in extract_archive / print_archive every call that can reach a mutator (or dump data) lies behind options->dry_run == 0", 2)
        for e in ("extract_archive", "print_archive"):
            fn = rep.need(rid, mod.fn(e), "function " + e)
            if not fn:
                continue
            for c in fn.insts():
                if c.op == "call" and c.callee and not c.callee.startswith("llvm."):
                    reach = cg.reachable([c.callee])
                    if reach & targets or mod.callee_cname(c) in ("print_archived_file", "extract_archived_file"):
                        guarded_site(rep, rid, ctx, c, [("options->dry_run == 0", ("eq", ("load", ("field", "LHAOptions", "dry_run", ("param", 1))), 0))])
        # print (non dry-run) writes only to stdout: print_archive reaches no mutator at all
        pa = mod.fn("print_archive")
        if pa:
            hit = cg.reachable([pa.name]) & targets
            rep.check(rid, not hit, "print_archive reaches no mutator", pa.file, "reaches %s" % sorted(hit) if hit else None, function="print_archive", obj="reach")

        # ---- R1c: the dry-run letter is never lost -----------------------------------------------------------------------------
        rid = rep.rule("R1c", "parse_options examines every character of the option word (the cursor advances by one; by two only past a digit; or takes the rest as w's directory) "
                              "and sets options->dry_run for every 'n' it meets", 2)
        po = rep.need(rid, mod.fn("parse_options"), "function parse_options")
        if po:
            from ..scan import check_option_word
            ok, problems, stats = check_option_word(po, ctx.facts(po), "LHAOptions", "dry_run", "n")
            rep.extra["parse_options_paths"] = stats
            for w_, text in problems:
                rep.violation(rid, "parse_options: %s" % text, w_, "an 'n' in the option word can fail to make the command a dry run: files would be written by a command that promises not to",
                              function="parse_options", obj="option-word")
            for k in ("step1", "step2-digit", "rest", "letter"):
                for _ in range(min(stats.get(k, 0), 3)):
                    rep.ok(rid, "parse_options: %s path conforms" % k, None, "%s:%s" % (po.file, po.line))

        # ---- R3: O_EXCL discipline --------------------------------------------------------------------------
        rid = rep.rule("R3", "lha_arch_fopen: unlink(filename) then open(filename, O_CREAT|O_EXCL, no O_TRUNC); lha_arch_symlink: unlink(path) then symlink(target, path)", 6)
        fo = rep.need(rid, mod.fn("lha_arch_fopen"), "function lha_arch_fopen")
        if fo:
            M = Matcher(fo)
            opens = list(fo.calls("open"))
            unl = list(fo.calls("unlink"))
            rep.check(rid, len(opens) == 1, "one open() in lha_arch_fopen", fo.file, "%d" % len(opens), function=fo.cname, obj="opens")
            for o in opens:
                fl = const_val(o.ops[1]) if is_const(o.ops[1]) else None
                rep.check(rid, fl is not None and (fl & O_CREAT) and (fl & O_EXCL) and not (fl & O_TRUNC),
                          "open flags contain O_CREAT|O_EXCL and not O_TRUNC", o.where(), "flags=%s" % (oct(fl) if fl is not None else "non-constant"),
                          function=fo.cname, obj="flags")
                rep.check(rid, M.match(("param", 0), o.ops[0], {}) is not None, "open() path is the filename parameter", o.where(), None, function=fo.cname, obj="open-path")
                mode = const_val(o.ops[2]) if len(o.ops) > 2 and is_const(o.ops[2]) else None
                rep.check(rid, mode is not None and (mode & 0o077) == 0, "file is created without group/other access", o.where(), "mode=%s" % (oct(mode) if mode is not None else None),
                          function=fo.cname, obj="mode")
                pre = [u for u in unl if M.match(("param", 0), u.ops[0], {}) is not None and
                       (u.block.id == o.block.id and u.idx < o.idx or (u.block.id != o.block.id and fo.dominates(u.block.id, o.block.id)))]
                rep.check(rid, len(pre) >= 1, "unlink(filename) precedes open() on every path", o.where(), None, function=fo.cname, obj="unlink-first")
            # the FILE* is made from the descriptor of that open, never by name
            for c in fo.calls("fdopen"):
                rep.check(rid, any(M.strip(c.ops[0]) == ("v", o.id) for o in opens), "fdopen() wraps the descriptor returned by that open()", c.where(), None,
                          function=fo.cname, obj="fdopen")
            rep.check(rid, not list(fo.calls("fopen")), "no by-name fopen in lha_arch_fopen", fo.file, None, function=fo.cname, obj="fopen")
        sy = rep.need(rid, mod.fn("lha_arch_symlink"), "function lha_arch_symlink")
        if sy:
            M = Matcher(sy)
            sl = list(sy.calls("symlink"))
            rep.check(rid, len(sl) == 1, "one symlink() call", sy.file, None, function=sy.cname, obj="symlinks")
            for s in sl:
                rep.check(rid, M.match(("param", 1), s.ops[0], {}) is not None and M.match(("param", 0), s.ops[1], {}) is not None,
                          "symlink(target, path)", s.where(), None, function=sy.cname, obj="args")
                pre = [u for u in sy.calls("unlink") if M.match(("param", 0), u.ops[0], {}) is not None and
                       (u.block.id == s.block.id and u.idx < s.idx or (u.block.id != s.block.id and sy.dominates(u.block.id, s.block.id)))]
                rep.check(rid, len(pre) >= 1, "unlink(path) precedes symlink()", s.where(), None, function=sy.cname, obj="unlink-first")

        # "mkdir succeeded" is what extract_directory takes as "this run created the directory" (R6): the wrapper may say so only when
        # mkdir() itself returned 0 - not for EEXIST, where the name may be a link or a file that was there before
        rid3b = rep.rule("R3b", "lha_arch_mkdir reports success only when mkdir(path, mode) returned 0, on its own parameters", 2)
        mk_ = rep.need(rid3b, mod.fn("lha_arch_mkdir"), "function lha_arch_mkdir")
        if mk_:
            Mk, Fk = Matcher(mk_), ctx.facts(mk_)
            mks = [c for c in mk_.insts() if c.op == "call" and mod.callee_cname(c) in ("mkdir", "mkdirat")]
            okc = len(mks) == 1 and mod.callee_cname(mks[0]) == "mkdir" and Mk.match(("param", 0), mks[0].ops[0], {}) is not None and Mk.match(("param", 1), mks[0].ops[1], {}) is not None
            rep.check(rid3b, okc, "one mkdir(path, mode) on the wrapper's parameters", mk_.file, None, function=mk_.cname, obj="call")
            if okc:
                from ..rules import success_edges, facts_for_success
                bad = []
                for v, pb, b in success_edges(Fk, mk_):
                    fs = facts_for_success(Fk, mk_, v, pb, b)
                    if Mk.find_fact(("eq", ("inst", mks[0].id), 0), fs)[0] is None:
                        bad.append(pb if pb is not None else b)
                rep.check(rid3b, not bad, "every non-zero return carries mkdir(...) == 0", mk_.file,
                          None if not bad else "success is reported on a path where mkdir did not return 0 (an existing name counts as created: its metadata would be set through whatever is there)",
                          function=mk_.cname, obj="success")

        # ---- R4: deferral -----------------------------------------------------------------------------------------
        rid = rep.rule("R4", "a symlink is created for real only if the entry is not NORMAL or is_dangerous_symlink() == 0; dangerous ones become placeholders", 3)
        es = rep.need(rid, mod.fn("extract_symlink"), "function extract_symlink")
        NORMAL = mod.enums.get("CURR_FILE_NORMAL")
        DEFERRED = mod.enums.get("CURR_FILE_DEFERRED_SYMLINK")
        if NORMAL is None or DEFERRED is None:
            rep.broken(rid, "CurrFileType enumerators not found")
        if es and NORMAL is not None:
            F = ctx.facts(es)
            ctype = ("load", ("field", RD, "curr_file_type", ("param", 0)))
            curr = ("load", ("field", RD, "curr_file", ("param", 0)))
            tracked = {"normal": ("eq", ctype, NORMAL), "dangerous": ("ne", ("call", "is_dangerous_symlink", [("or", curr, ("load", ("field", HDR, "symlink_target", curr)))]), 0)}   # judged on the current entry (the header, or its link target)
            ps = PathStates(es, F, tracked)
            calls = list(es.calls("lha_arch_symlink"))
            rep.check(rid, len(calls) == 1, "one real symlink site in extract_symlink", es.file, None, function=es.cname, obj="sites")
            for c in calls:
                sts = ps.at_block(c.block.id)
                bad = [s for s in sts if not (refuted(s, "normal") or refuted(s, "dangerous"))]
                rep.check(rid, bool(sts) and not bad, "lha_arch_symlink only when not (NORMAL and dangerous)", c.where(),
                          "states %s" % show(sts) if not bad else "reachable in state %s" % show(bad), function=es.cname, obj="guard")
                M = Matcher(es)
                rep.check(rid, M.match(("load", ("field", HDR, "symlink_target", curr)), c.ops[1], {}) is not None, "link target is curr_file->symlink_target", c.where(), None,
                          function=es.cname, obj="target")
            for c in es.calls("extract_placeholder_symlink"):
                sts = ps.at_block(c.block.id)
                rep.check(rid, all(holds(s, "normal") and holds(s, "dangerous") for s in sts) and bool(sts), "placeholder exactly for NORMAL and dangerous", c.where(), None,
                          function=es.cname, obj="placeholder")
            # lha_arch_symlink has no other caller
            callers = {mod.functions[f].cname for f in cg.callers("lha_arch_symlink")}
            rep.check(rid, callers == {"extract_symlink"}, "extract_symlink is the only caller of lha_arch_symlink", es.file, "callers %s" % sorted(callers),
                      function="lha_arch_symlink", obj="callers")
        rid = rep.rule("R4b", "placeholder: an empty file is created (0600, no owner) and the header is queued in the deferred list, which stays ordered by decreasing path length", 4)
        ep = rep.need(rid, mod.fn("extract_placeholder_symlink"), "function extract_placeholder_symlink")
        if ep:
            M = Matcher(ep)
            F = ctx.facts(ep)
            fo_calls = list(ep.calls("lha_arch_fopen"))
            rep.check(rid, len(fo_calls) == 1 and all(M.match(("param", 1), c.ops[0], {}) is not None and const_val(c.ops[3]) == 0o600 for c in fo_calls),
                      "placeholder file via lha_arch_fopen(filename, -1, -1, 0600)", ep.file, None, function=ep.cname, obj="fopen")
            # the insertion loop: advance while len(*rover) > len(curr_file)
            curr = ("load", ("field", RD, "curr_file", ("param", 0)))
            okloop = False
            for lp in ep.loops():
                for latch in lp["latches"]:
                    fs = F.on_edge(latch, lp["header"])
                    f, e = M.find_fact(("ugt", ("call", "file_header_path_len", [("bind", "rov")]), ("call", "file_header_path_len", [curr])), fs)
                    f2, _ = M.find_fact(("ne", ("load", ("phi",)), 0), fs)
                    if f is not None and f2 is not None:
                        okloop = True
            rep.check(rid, okloop, "insertion point advances while *rover != NULL and len(*rover) > len(current)", ep.file, None, function=ep.cname, obj="order")
            # linking: curr_file->_next = *rover; *rover = curr_file; add_ref(curr_file)
            sts = stores_to_field(mod, HDR, "_next", [ep])
            rep.check(rid, len(sts) == 1 and M.match(("field", HDR, "_next", curr), sts[0].ops[1], {}) is not None and M.match(("load", ("phi",)), sts[0].ops[0], {}) is not None,
                      "curr_file->_next = *rover", ep.file, None, function=ep.cname, obj="link")
            rep.check(rid, len(list(ep.calls("lha_file_header_add_ref"))) == 1, "header reference taken", ep.file, None, function=ep.cname, obj="ref")
            fl = rep.need(rid, mod.fn("file_header_path_len"), "function file_header_path_len")
            if fl:
                Ml = Matcher(fl)
                lens = set()
                other = []

                def walk(o, seen):
                    o = Ml.strip(o)
                    d = fl.defn(o)
                    if is_const(o):
                        if const_val(o) != 0:
                            other.append(o)
                        return
                    if d is None or d.is_param:
                        other.append(o)
                        return
                    if d.id in seen:
                        return
                    seen = seen | {d.id}
                    if d.op == "phi":
                        for v, _ in d.incoming:
                            walk(v, seen)
                    elif d.op == "add":
                        walk(d.ops[0], seen)
                        walk(d.ops[1], seen)
                    elif d.op == "call" and fl.mod.callee_cname(d) == "strlen":
                        for fld in ("path", "filename"):
                            if Ml.match(("load", ("field", HDR, fld, ("param", 0))), d.ops[0], {}) is not None:
                                lens.add(fld)
                                return
                        other.append(o)
                    else:
                        other.append(o)

                walk(rets(fl)[0].ops[0], frozenset())
                if other:
                    lens.add("other:%s" % [describe(fl, x) for x in other])
                rep.check(rid, lens == {"path", "filename"}, "path length = strlen(path) + strlen(filename)", fl.file, "terms %s" % sorted(lens), function=fl.cname, obj="len")
        rid = rep.rule("R4c", "a deferred symlink becomes current only when input and directory stack are exhausted (curr_file == NULL); it is unlinked from the list", 3)
        nf = rep.need(rid, mod.fn("lha_reader_next_file"), "function lha_reader_next_file")
        if nf and DEFERRED is not None:
            M = Matcher(nf)
            sts = [s for s in stores_to_field(mod, RD, "curr_file_type", [nf]) if is_const(s.ops[0]) and const_val(s.ops[0]) == DEFERRED]
            rep.check(rid, len(sts) == 1, "one store of DEFERRED_SYMLINK", nf.file, "%d" % len(sts), function=nf.cname, obj="stores")
            for s in sts:
                guarded_site(rep, rid, ctx, s, [
                    ("reader->curr_file == NULL (nothing from input, no directory to pop)", ("eq", ("load", ("field", RD, "curr_file", ("param", 0))), 0)),
                    ("deferred_symlinks != NULL", ("ne", ("load", ("field", RD, "deferred_symlinks", ("param", 0))), 0))])
            others = [s for f in mod.defined() for s in stores_to_field(mod, RD, "curr_file_type", [f]) if is_const(s.ops[0]) and const_val(s.ops[0]) == DEFERRED and f is not nf]
            rep.check(rid, not others, "no other function makes a deferred symlink current", nf.file, None, function="curr_file_type", obj="others")
            # the curr_file==NULL test happens after the else-branch assigned curr_file from input/dir stack: the loaded value that is
            # tested must be loaded after those stores (no store to curr_file between the load and the DEFERRED store except the deferred one)
        # ---- R4d: what a deferred link is created through ------------------------------------------------------------------------
        # "Longest path first" orders deferred links among themselves, but the path of a deferred link is resolved when it is created:
        # if one of its directory components is a link made by this run (a harmless link at first, re-declared later in the archive
        # with a dangerous target and, being longer, created first), the unlink + symlink of the shorter one land wherever that points.
        # Creating a deferred link is safe only behind a test of its directory components (lstat / readlink / O_NOFOLLOW walk).
        rid = rep.rule("R4d", "a deferred symlink is created only after its directory components were examined for links made by this run "
                              "(a test whose callee reaches lstat / readlink / fstatat / openat), since the dangerous links created before it may lie on its path", 1)
        if es and NORMAL is not None:
            PROBES = {"lstat", "lstat64", "__lxstat", "__lxstat64", "readlink", "readlinkat", "fstatat", "fstatat64", "__fxstatat", "openat", "openat64", "realpath"}
            probe_fns = {f.name for f in mod.defined() if any(c.op == "call" and c.callee in PROBES for c in f.insts())}
            F = ctx.facts(es)
            for c in es.calls("lha_arch_symlink"):
                guarded = False
                for fact in F.at_inst(c):
                    if fact[0] == "in":
                        continue
                    dx = es.defn(Matcher(es).strip(fact[1]))
                    if dx is not None and not dx.is_param and dx.op == "call" and dx.callee and (cg.reachable([dx.callee]) | {dx.callee}) & (probe_fns | PROBES):
                        guarded = True
                rep.check(rid, guarded, "extract_symlink: lha_arch_symlink for a deferred entry runs behind a test of the link path's directory components", c.where(),
                          None if guarded else "no such test: with entries  real/ ; dddddddd -> real ; s -> dddddddd ; s/x -> ABS ; dddddddd -> OUTSIDE  the link dddddddd (longer, so first) "
                          "is re-created pointing outside, and creating s/x then unlinks and replaces OUTSIDE/x", function="extract_symlink", obj="deferred-parent-components")

        # ---- R5b: the CLI names every extraction itself ------------------------------------------------------------------
        rid = rep.rule("R5b", "every lha_reader_extract call of the CLI passes a name it built (w= prefix applied, leading '/' stripped: R5) - never NULL, for which "
                              "the library falls back to the header's own path", 1)
        from ..callgraph import CallGraph as _CG
        _cg = _CG(mod)

        def name_sources(fn_, o_, depth=0):
            """leaves of the name argument; a parameter is followed into the callers (two levels)"""
            out_ = []
            for s_, _f in ctx.facts(fn_).sources(o_):
                d_ = fn_.defn(s_)
                if d_ is not None and d_.is_param and depth < 2:
                    callers = [(g_, c_) for g_ in mod.defined() for c_ in g_.calls(fn_.cname) if mod.functions.get(c_.callee) is fn_]
                    if callers:
                        for g_, c_ in callers:
                            out_ += name_sources(g_, c_.ops[d_.index], depth + 1)
                        continue
                out_.append((fn_, s_))
            return out_
        for f in mod.defined():
            if not f.file.startswith("src/") and "/src/" not in f.file and not f.file.endswith(("extract.c", "main.c", "list.c", "filter.c")):
                continue
            for c in f.calls("lha_reader_extract"):
                srcs = name_sources(f, c.ops[1])
                nulls = [(g_, s_) for g_, s_ in srcs if s_[0] == "null" or (is_const(s_) and const_val(s_) == 0)]
                built = [(g_, s_) for g_, s_ in srcs if fn_is_call_result(g_, s_)]
                rep.check(rid, bool(srcs) and not nulls and len(built) == len(srcs), "%s: the name handed to lha_reader_extract is one the CLI built" % f.cname, c.where(),
                          None if (srcs and not nulls and len(built) == len(srcs)) else
                          ("a NULL name reaches the call: the library then extracts to the header's own path, which has neither the w= directory in front nor its leading '/' removed"
                           if nulls else "the name is not the result of a name-building call: %s" % [describe(g_, s_) for g_, s_ in srcs if not fn_is_call_result(g_, s_)][:2]),
                          function=f.cname, obj="extract-name")
        # ---- R5: leading '/' stripping ---------------------------------------------------------------------------------
        rid = rep.rule("R5", "file_full_path appends header->path / header->filename only from a position whose first byte is not '/'", 2)
        # decided on the inlined view of src/extract.c, so that the skip loop may live in file_full_path itself or in a helper it calls
        xmod = ctx.inlined("src_extract")
        COPIES = {"strcat", "strcpy", "strncat", "strncpy", "stpcpy", "sprintf", "snprintf", "memcpy", "memmove", "llvm.memcpy.p0i8.p0i8.i64", "llvm.memmove.p0i8.p0i8.i64"}
        n = 0
        hosts = set()
        for fn in xmod.defined():
            # every copy in src/extract.c whose source is one of the header's two name strings builds an output name, whatever the function
            # that does it is called today
            sites = [c for c in fn.insts() if c.op == "call" and xmod.callee_cname(c) in COPIES and fn.file.endswith("extract.c")]
            if not sites:
                continue
            hosts.add(fn.cname)
            M = Matcher(fn)
            F = ctx.facts(fn)
            for c in sites:
                for k, src in enumerate(c.ops[1:], 1):
                    from_hdr = None
                    # the string the copy starts in: the pointer itself (a cursor walked over the slashes) or the base of `s + i`
                    roots = [src]
                    x_ = src
                    for _ in range(4):
                        dx = fn.defn(M.strip(x_, ("bitcast",)))
                        if dx is not None and not dx.is_param and dx.op == "getelementptr":
                            x_ = dx.ops[0]
                            roots.append(x_)
                            continue
                        break
                    for rt in roots:
                        for sv, fs in F.sources(rt):
                            for fld in ("path", "filename"):
                                if M.match(("load", ("field", HDR, fld, ANY)), sv, {}) is not None:
                                    from_hdr = fld
                    if from_hdr is None:
                        continue        # extract_path, "/" and the like
                    n += 1
                    sp = M.strip(src, ("bitcast",))
                    f = None
                    if xmod.callee_cname(c) in ("strcat", "strcpy", "stpcpy") and sp[0] == "v":
                        f, _ = M.find_fact(("ne", ("load", ("inst", sp[1])), ord("/")), F.at_inst(c))
                        if f is None:
                            # the pointer arrives through a merge (`p = s != NULL ? skip(s) : NULL; ... if (p != NULL) strcat(r, p)`): every way it can
                            # arrive non-NULL brings the fact about its own first byte along
                            dsp = fn.defn(sp)
                            if dsp is not None and not dsp.is_param and dsp.op in ("phi", "select"):
                                okall, nn = True, 0
                                one_level = [(v_, F.on_edge(pb_, dsp.block.id)) for v_, pb_ in dsp.incoming] if dsp.op == "phi" else [(v_, F.at_inst(dsp)) for v_ in dsp.ops[1:]]
                                for s2, fs2 in one_level:
                                    s2s = M.strip(s2, ("bitcast",))
                                    if s2s[0] == "null" or (is_const(s2s) and const_val(s2s) == 0):
                                        continue
                                    nn += 1
                                    if s2s[0] != "v" or M.find_fact(("ne", ("load", ("inst", s2s[1])), ord("/")), set(fs2) | set(F.at_inst(c)))[0] is None:
                                        okall = False
                                if okall and nn:
                                    f = ("ne", "*p on every way p arrives", ord("/"))
                        if f is None:
                            # s + i after `while (i < strlen(s) && s[i] == '/') ++i;`: the scan is left over one of two edges - the byte at i is
                            # not a '/', or i has reached strlen(s) of this very string (counting up by one from 0), where the terminator stands
                            dg0 = fn.defn(sp)
                            if dg0 is not None and not dg0.is_param and dg0.op == "getelementptr":
                                idx0 = [st_["idx"] for st_ in dg0.steps if "idx" in st_]
                                base0 = M.strip(dg0.ops[0], ("bitcast",))
                                if len(idx0) == 1 and idx0[0][0] == "v":
                                    iv = fn.defn(M.strip(idx0[0]))
                                    counted = iv is not None and not iv.is_param and iv.op == "phi" and \
                                        all((is_const(v_) and const_val(v_) == 0) or M.match(("bin", "add", ("inst", iv.id), 1), v_, {}) is not None for v_, _ in iv.incoming)
                                    blk = c.block.id
                                    for _ in range(4):
                                        if len(fn.blocks[blk].preds) == 1 and len(fn.blocks[fn.blocks[blk].preds[0]].succs) == 1:
                                            blk = fn.blocks[blk].preds[0]
                                        else:
                                            break
                                    edges_in = [(pb_, blk) for pb_ in fn.blocks[blk].preds]
                                    def edge_ok(pb_, b_):
                                        fs_ = F.on_edge(pb_, b_)
                                        if M.find_fact(("ne", ("load", ("inst", sp[1])), ord("/")), fs_)[0] is not None:
                                            return True
                                        def is_strlen_of_base(o_):
                                            dl_ = fn.defn(M.strip(o_)) if not is_const(o_) else None
                                            return dl_ is not None and not dl_.is_param and dl_.op == "call" and xmod.callee_cname(dl_) == "strlen" and \
                                                (M.strip(dl_.ops[0], ("bitcast",)) == base0 or same_field_load(M.strip(dl_.ops[0], ("bitcast",)), base0))

                                        def same_field_load(a_, b_):
                                            da_, db_ = fn.defn(a_), fn.defn(b_)
                                            if not (da_ is not None and db_ is not None and not da_.is_param and not db_.is_param and da_.op == "load" and db_.op == "load"):
                                                return False
                                            pa_, pb2_ = M.strip(da_.ops[0], ("bitcast",)), M.strip(db_.ops[0], ("bitcast",))
                                            if pa_ == pb2_:
                                                return True
                                            ga_, gb_ = fn.defn(pa_), fn.defn(pb2_)
                                            from ..ir import field_of_gep as _fog
                                            # two address computations of one member of one object
                                            return ga_ is not None and gb_ is not None and not ga_.is_param and not gb_.is_param and ga_.op == gb_.op == "getelementptr" and \
                                                _fog(xmod, ga_) is not None and _fog(xmod, ga_) == _fog(xmod, gb_) and M.strip(ga_.ops[0], ("bitcast",)) == M.strip(gb_.ops[0], ("bitcast",))

                                        def contradicts(src_facts, site_facts):
                                            """the edge that delivered this source carries `X == 0` while the site is only reached under `X' != 0` for a re-load X' of
                                            the same (never written here) field - or the other way round"""
                                            for a_ in src_facts:
                                                for b_ in site_facts:
                                                    if {a_[0], b_[0]} == {"eq", "ne"} and is_const(a_[2]) and is_const(b_[2]) and const_val(a_[2]) == const_val(b_[2]) == 0 and \
                                                            (M.strip(a_[1]) == M.strip(b_[1]) or same_field_load(M.strip(a_[1]), M.strip(b_[1]))):
                                                        return True
                                            return False
                                        for q in fs_:
                                            # s[i] != '/' read through another load of the same string pointer
                                            if q[0] == "ne" and is_const(q[2]) and const_val(q[2]) == ord("/"):
                                                dq = fn.defn(M.strip(q[1]))
                                                if dq is not None and not dq.is_param and dq.op == "load":
                                                    gq = fn.defn(M.strip(dq.ops[0], ("bitcast",)))
                                                    if gq is not None and not gq.is_param and gq.op == "getelementptr":
                                                        iq = [st_["idx"] for st_ in gq.steps if "idx" in st_]
                                                        bq = M.strip(gq.ops[0], ("bitcast",))
                                                        if len(iq) == 1 and M.strip(iq[0]) == M.strip(idx0[0]) and (bq == base0 or same_field_load(bq, base0)):
                                                            return True
                                        for q in fs_:
                                            if q[0] in ("uge", "eq") and M.strip(q[1]) == M.strip(idx0[0]):
                                                # the bound may be a variable that holds strlen(s) on every way it can arrive here (a length computed earlier
                                                # under the same condition; the arm that leaves it 0 belongs to the branch this site is not on)
                                                if not is_const(q[2]):
                                                    dphi = fn.defn(M.strip(q[2]))
                                                    if dphi is not None and not dphi.is_param and dphi.op == "phi":
                                                        srcs__ = [(v__, F.on_edge(pb__, dphi.block.id)) for v__, pb__ in dphi.incoming]     # edge by edge
                                                    else:
                                                        srcs__ = F.sources(q[2])
                                                    live = [(s__, f__) for s__, f__ in srcs__ if not contradicts(f__, fs_ | set(F.at_inst(c)))]
                                                    if live and all(is_strlen_of_base(s__) for s__, _ in live):
                                                        return True
                                                dl = fn.defn(M.strip(q[2])) if not is_const(q[2]) else None
                                                if dl is not None and not dl.is_param and dl.op == "call" and xmod.callee_cname(dl) == "strlen" and \
                                                        M.strip(dl.ops[0], ("bitcast",)) == base0 or (dl is not None and not dl.is_param and dl.op == "call" and xmod.callee_cname(dl) == "strlen" and M.equiv(M.strip(dl.ops[0], ("bitcast",)), base0)):
                                                    return True
                                        return False
                                    if counted and edges_in and all(edge_ok(pb_, b_) for pb_, b_ in edges_in):
                                        f = ("ne", "s[i] after the bounded slash scan", ord("/"))
                        if f is None:
                            # s + strspn(s, "/"): by the meaning of strspn the byte there is not a '/'
                            dg = fn.defn(sp)
                            if dg is not None and not dg.is_param and dg.op == "getelementptr":
                                idx = [st_["idx"] for st_ in dg.steps if "idx" in st_]
                                dc = fn.defn(M.strip(idx[0])) if len(idx) == 1 and idx[0][0] == "v" else None
                                if dc is not None and not dc.is_param and dc.op == "call" and xmod.callee_cname(dc) == "strspn" and len(dc.ops) >= 2 and \
                                        M.strip(dc.ops[0], ("bitcast",)) == M.strip(dg.ops[0], ("bitcast",)) and (xmod.const_string(dc.ops[1]) or b"").split(b"\0")[0] == b"/":
                                    f = ("ne", "s[strspn(s, \"/\")]", ord("/"))
                    rep.check(rid, f is not None, "%s: %s(result, p) with *p != '/' (header->%s)" % (fn.cname, xmod.callee_cname(c), from_hdr), c.where(),
                              "facts: %s" % sorted(describe_fact(fn, x) for x in F.at_inst(c))[:8] if f is None else (describe_fact(fn, f) if not isinstance(f[1], str) else "%s != '/'" % f[1]), function="file_full_path", obj="copy-%s" % from_hdr)
        rep.check(rid, n >= 2, "the header's path and name are copied into output names (sites found)", "src/extract.c",
                  "%d header-derived copy sites in %s" % (n, sorted(hosts)), function="file_full_path", obj="sites")

        # ---- R6: directory metadata -----------------------------------------------------------------------------------------
        rid = rep.rule("R6", "a directory is queued for (or given) metadata only after lha_arch_mkdir succeeded for it in this run", 2)
        ed = rep.need(rid, mod.fn("extract_directory"), "function extract_directory")
        if ed:
            mk = ("ne", ("call", "lha_arch_mkdir", [ANY, ANY]), 0)
            sts = stores_to_field(mod, RD, "dir_stack", [ed])
            rep.check(rid, len(sts) == 1, "one push onto dir_stack", ed.file, "%d" % len(sts), function=ed.cname, obj="pushes")
            for s in sts:
                guarded_site(rep, rid, ctx, s, [("lha_arch_mkdir(path, mode) != 0", mk)])
            for c in ed.calls("set_directory_metadata"):
                guarded_site(rep, rid, ctx, c, [("lha_arch_mkdir(path, mode) != 0", mk)])
            pushers = {s.fn.cname for f in mod.defined() for s in stores_to_field(mod, RD, "dir_stack", [f])
                       if not (is_const(s.ops[0]) and const_val(s.ops[0]) == 0)}
            # pops (dir_stack = dir_stack->_next) happen in next_file/free; pushes of a header only in extract_directory
            Mx = None
            bad = []
            for f in mod.defined():
                for s in stores_to_field(mod, RD, "dir_stack", [f]):
                    Mf = Matcher(f)
                    if is_const(s.ops[0]):
                        continue
                    if Mf.match(("load", ("field", HDR, "_next", ANY)), s.ops[0], {}) is not None:
                        continue
                    if f is ed:
                        continue
                    bad.append(s)
            rep.check(rid, not bad, "only extract_directory pushes onto dir_stack", ed.file, "%s" % [b.where() for b in bad], function="dir_stack", obj="pushers")
        rid = rep.rule("R6b", "directory metadata for a re-presented entry: set_directory_metadata in lha_reader_extract runs under curr_file_type == FAKE_DIR, and a FAKE_DIR entry is always one popped from dir_stack (the call sites of the setters themselves: R6c)", 3)
        sm = rep.need(rid, mod.fn("set_directory_metadata"), "function set_directory_metadata")
        if sm:
            # who calls the setters is recorded, not frozen: what every call site must satisfy is decided by R6c (the path was created by
            # the same call, or belongs to a re-presented directory), whichever function the site lives in
            for wr in ("lha_arch_chmod", "lha_arch_chown", "lha_arch_utime", sm.name):
                callers = {mod.functions[f].cname for f in cg.callers(wr if wr != sm.name else sm.name)}
                rep.ok(rid, "callers of %s: %s (each call site decided by R6c)" % (mod.functions[wr].cname if wr in mod.functions else wr, sorted(callers)), None, sm.file)
            ex = mod.fn("lha_reader_extract")
            FAKE = mod.enums.get("CURR_FILE_FAKE_DIR")
            if ex and FAKE is not None:
                for c in ex.calls("set_directory_metadata"):
                    guarded_site(rep, rid, ctx, c, [("curr_file_type == CURR_FILE_FAKE_DIR", ("eq", ("load", ("field", RD, "curr_file_type", ("param", 0))), FAKE))])
            # a FAKE_DIR current entry always comes from the dir_stack (which only holds directories created in this run, R6)
            if nf and FAKE is not None:
                M = Matcher(nf)
                for s in stores_to_field(mod, RD, "curr_file_type", [nf]):
                    if is_const(s.ops[0]) and const_val(s.ops[0]) == FAKE:
                        # the curr_file store this type belongs to: the nearest one that dominates the type store
                        cs = [x for x in stores_to_field(mod, RD, "curr_file", [nf]) if (x.block.id == s.block.id and x.idx < s.idx) or
                              (x.block.id != s.block.id and nf.dominates(x.block.id, s.block.id))]
                        cs = [x for x in cs if not any(y is not x and ((y.block.id == x.block.id and y.idx > x.idx) or (y.block.id != x.block.id and nf.dominates(x.block.id, y.block.id))) for y in cs)]
                        rep.check(rid, len(cs) == 1 and M.match(("load", ("field", RD, "dir_stack", ("param", 0))), cs[0].ops[0], {}) is not None,
                                  "FAKE_DIR entry is popped from dir_stack", s.where(), None, function=nf.cname, obj="fake-source")
        # ---- R6c: link-following metadata setters only on objects created by this very call ---------------------------------------
        rid = rep.rule("R6c", "utime/chmod/chown follow symbolic links: every path handed (directly or through a path-forwarding helper) to lha_arch_utime/chmod/chown "
                              "is one the same function created with lha_arch_fopen (O_EXCL, R3) or lha_arch_mkdir and saw succeed, or belongs to a re-presented directory", 3)
        META = {"lha_arch_utime": 0, "lha_arch_chmod": 0, "lha_arch_chown": 0}
        for w in sorted(META):
            rep.need(rid, mod.fn(w), "function %s" % w)
        META.update(extra_following)
        fwd = dict(META)                     # cname -> index of the forwarded path parameter
        changed = True
        while changed:
            changed = False
            for f in mod.defined():
                if f.cname in fwd or f.file.endswith("lha_arch_unix.c"):
                    continue
                Mf = Matcher(f)
                for c in f.insts():
                    if c.op == "call" and mod.callee_cname(c) in fwd and len(c.ops) > fwd[mod.callee_cname(c)]:
                        a = Mf.strip(c.ops[fwd[mod.callee_cname(c)]], ("bitcast",))
                        d = f.defn(a)
                        if d is not None and d.is_param:
                            fwd[f.cname] = d.index
                            changed = True
                            break
        FAKE = mod.enums.get("CURR_FILE_FAKE_DIR")
        nsites = 0
        for f in mod.defined():                      # every unit, library and tool alike: a setter called from src/ follows links just the same
            if f.file.endswith("lha_arch_unix.c"):
                continue
            Mf = Matcher(f)
            Ff = None
            for c in f.insts():
                cn = mod.callee_cname(c) if c.op == "call" else None
                if cn not in fwd or len(c.ops) <= fwd[cn]:
                    continue
                a = Mf.strip(c.ops[fwd[cn]], ("bitcast",))
                d = f.defn(a)
                if f.cname in fwd and d is not None and d.is_param and d.index == fwd[f.cname]:
                    continue                 # the helper only forwards its own path parameter: decided at its call sites
                nsites += 1
                Ff = Ff or ctx.facts(f)
                why = None
                for fact in Ff.at_inst(c):
                    if fact[0] == "in":
                        continue
                    x = Mf.strip(fact[1], ("bitcast",))
                    dx = f.defn(x)
                    zero = fact[2][0] == "null" or (is_const(fact[2]) and const_val(fact[2]) == 0)
                    if fact[0] == "ne" and zero and dx is not None and not dx.is_param and dx.op == "call" and mod.callee_cname(dx) in ("lha_arch_fopen", "lha_arch_mkdir") \
                            and dx.ops and Mf.strip(dx.ops[0], ("bitcast",)) == a:
                        why = "%s(path, ...) succeeded for the same path value" % mod.callee_cname(dx)
                        break
                    if FAKE is not None and fact[0] == "eq" and is_const(fact[2]) and const_val(fact[2]) == FAKE and \
                            Mf.match(("load", ("field", RD, "curr_file_type", ANY)), fact[1], {}) is not None:
                        why = "curr_file_type == CURR_FILE_FAKE_DIR (a directory created earlier in this run, R6/R6b)"
                        break
                rep.check(rid, why is not None, "%s: path given to %s was created by this call" % (f.cname, cn), c.where(),
                          why or "no fact that lha_arch_fopen/lha_arch_mkdir succeeded for this path value (the setter would follow a symbolic link at that name)",
                          function=f.cname, obj="meta-%s-%d" % (cn, nsites))
        rep.check(rid, nsites >= 3, "metadata sites found", "lib/lha_reader.c", "%d sites, forwarding helpers %s" % (nsites, sorted(set(fwd) - set(META))), function="lha_reader.c", obj="sites")
        # ---- R7: the detector itself ---------------------------------------------------------------------------------------------
        rid = rep.rule("R7", "is_dangerous_symlink conforms to the component scanner: 'not dangerous' is returned only for a missing target, or at the end of a target "
                             "that does not start with '/' after every '/'-terminated component and the last one were shown not to be '..'", 6)
        ids = rep.need(rid, mod.fn("is_dangerous_symlink"), "function is_dangerous_symlink")
        if ids:
            from ..scan import check_detector
            ok, problems, stats = check_detector(ids, ctx.facts(ids))
            rep.extra["is_dangerous_symlink_paths"] = stats
            for w_, text in problems:
                rep.violation(rid, "is_dangerous_symlink: %s" % text, w_, "a link target that starts with '/' or has a '..' component can be reported as harmless (or the analysis cannot show otherwise): "
                              "it would then be created at once instead of being deferred", function="is_dangerous_symlink", obj="scan")
            if ok:
                for k in ("copy", "accept", "report", "end-clean"):
                    for _ in range(stats.get(k, 0)):
                        rep.ok(rid, "is_dangerous_symlink: %s path conforms" % k, None, "%s:%s" % (ids.file, ids.line))
        # ---- C11.*: what the confinement argument rests on -----------------------------------------------------------------------
        # file_full_path joins header->path and header->filename to the extraction directory as they stand (only a leading '/' is
        # skipped, R5): that stays inside only if the name has no separator and the path no '.', '..' or empty component - C11's rules.
        from .c11 import name_path_rules
        name_path_rules(rep, ctx, mod, cg, prefix="C11.")
    return rep.finish(seed)
