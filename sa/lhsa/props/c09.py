"""C09 - no compressed data can make any decompressor touch invalid memory.

E3 RANGE (abstract interpretation, intervals + regions + unit-wide memory invariants) over the
fully inlined decoder units.  Every load, store, memcpy/memset and input-callback write of
every `init` / `read` entry point is an obligation `0 <= offset, offset + width <= extent`
under the contracts
  K1  read(extra, buf): `extra` has the type's extra_size bytes, `buf` its max_read bytes
      (both read from that decoder's own LHADecoderType initialiser);
  K2  an input callback writes at most, and returns at most, the requested length.
An obligation is machine-discharged, or matches a NAMED assumption (assumptions.py) whose
support rules are checked here, or is a violation.
"""
import os, re, json, collections
from concurrent.futures import ProcessPoolExecutor
from ..context import Context
from ..report import Report
from ..facts import Facts, Matcher, ANY, is_const, const_val, describe
from ..ir import Module
from ..rules import stores_to_field
from .. import assumptions as A

DECODER_UNITS = ["lh1", "lh5", "lh6", "lh7", "lhx", "lk7", "lz5", "lzs", "pm1", "pm2", "null"]


def _worker(args):
    unit_name, path = args
    from ..ir import Module
    from ..rangedrv import analyse_decoder_unit, classify_obligation, all_obligations, decoder_types
    mod = Module(path)
    unit, entries, contracts, res = analyse_decoder_unit(mod)
    out = {"unit": unit_name, "entries": [f.cname for f in entries], "contracts": {k: v for k, v in contracts.items()}, "rounds": unit.round + 1,
           "obligations": [], "types": decoder_types(mod), "struct_sizes": {}, "counts": {}}
    cnt = collections.Counter()
    seen_ident = set()
    for o in all_obligations(unit, res, entries):
        cls = classify_obligation(o, unit_name)
        cnt[cls] += 1
        rec = {"class": cls, "fn": o.inst.fn.cname, "src_fn": o.inst.src_fn(), "object": o.desc, "kind": o.kind, "where": o.inst.where(),
               "off": repr(o.off), "width": repr(o.width), "size": o.size}
        if cls != "ok" or len(out["obligations"]) < 6:
            out["obligations"].append(rec)
    out["counts"] = dict(cnt)
    # the struct the extra area is cast to
    for f in entries:
        for i in f.insts():
            if i.op == "bitcast" and i.ops[0] == ("v", f.params[0].id) and i.ty.startswith("%struct"):
                out["struct_sizes"][f.cname] = (i.ty.rstrip("*"), mod.type_size(i.ty.rstrip("*")))
    out["elem_invariants"] = {"%s.%s" % (mod.struct_cname(k[0]), mod.field_name(k[0], k[1])): repr(v) for k, v in unit.elem.items()}
    out["field_invariants"] = {"%s.%s" % (mod.struct_cname(k[0]), mod.field_name(k[0], k[1])): repr(v) for k, v in unit.field.items()}
    out["used_assumptions"] = {k: sorted(map(list, v))[:4] for k, v in unit.used_assumptions.items()}
    return out


def pm1_table_walk(rep, rid, mod):
    """R4: every bit path from each root of byte_decode_trees stays inside its row and ends in a leaf nibble"""
    g = mod.globals.get("byte_decode_trees")
    if not rep.need(rid, g, "global byte_decode_trees") or g["init"]["k"] != "agg":
        return
    rows = []
    for e in g["init"]["elems"]:
        if e["k"] == "data":
            rows.append([x & 0xFF for x in e["elts"]])
        elif e["k"] == "zero":
            rows.append([0] * 5)
    rep.check(rid, len(rows) == 32 and all(len(r) == 5 for r in rows), "table has 32 rows of 5 bytes", "pm1_decoder.c", "%d rows" % len(rows), function="byte_decode_trees", obj="shape")
    npaths = 0
    for ri, row in enumerate(rows):
        ok, detail = True, None
        if row[0] == 0:
            rep.ok(rid, "row %d: special 'no tree' entry (first byte 0 is tested before any walk)" % ri, None, "pm1_decoder.c")
            continue
        work = [(0, 0)]
        leaves = 0
        while work:
            pos, depth = work.pop()
            if pos >= len(row) or depth > 16:
                ok, detail = False, "walk leaves the row at offset %d" % pos
                break
            b = row[pos]
            for child in ((b >> 4) & 0xF, b & 0xF):
                if child >= 10:
                    leaves += 1
                    npaths += 1
                    if child - 10 > 5:
                        ok, detail = False, "leaf value %d beyond byte_ranges" % (child - 10)
                elif child == 0:
                    ok, detail = False, "zero offset: the walk would not advance"
                else:
                    work.append((pos + child, depth + 1))
        rep.check(rid, ok, "row %d (%s): all %d bit paths stay inside the row and end in a leaf a-f" % (ri, " ".join("%02x" % x for x in row), leaves), "pm1_decoder.c", detail,
                  function="byte_decode_trees", obj="row%d" % ri)
    rep.extra["pm1_tree_paths"] = npaths
    # the index selecting a row is 5 bits (0..31) and the row pointer is only ever set from that table
    fn = mod.fn("lha_pm1_read") or mod.fn("read_start_header")
    return rows


def _same_field_reload(mod, fn, M, a, b):
    """two loads of one struct field through the same base pointer, the first dominating the second, with nothing in between that
    could change it: no call, and only stores to *other* fields of that same base"""
    from ..mem import _between
    from ..ir import field_of_gep
    la, lb = fn.defn(a), fn.defn(b)
    if la is None or lb is None or la.is_param or lb.is_param or la.op != "load" or lb.op != "load":
        return False
    ga, gb = fn.defn(M.strip(la.ops[0], ("bitcast",))), fn.defn(M.strip(lb.ops[0], ("bitcast",)))
    if ga is None or gb is None or ga.is_param or gb.is_param or ga.op != "getelementptr" or gb.op != "getelementptr":
        return False
    if M.strip(ga.ops[0]) != M.strip(gb.ops[0]) or field_of_gep(mod, ga) is None or field_of_gep(mod, ga) != field_of_gep(mod, gb):
        return False
    if not fn.dominates(la.block.id, lb.block.id):
        return False
    for i in _between(fn, la, lb):
        if i.op == "call" and not (i.callee or "").startswith("llvm.dbg"):
            return False
        if i.op == "store":
            g = fn.defn(M.strip(i.ops[1], ("bitcast",)))
            if g is None or g.is_param or g.op != "getelementptr" or M.strip(g.ops[0]) != M.strip(ga.ops[0]):
                return False
            fo = field_of_gep(mod, g)
            if fo is None or fo == field_of_gep(mod, ga):
                return False
    return True



# ---- S-lh1-types: index typing of the -lh1- tables ---------------------------------------------------------------------------------
LH1 = "LHALH1Decoder"
LH1_TABLE_INDEX = {"nodes": "node", "leaf_nodes": "code", "groups": "pool", "group_leader": "group"}       # what indexes each table
LH1_ELEM_TYPE = {"leaf_nodes": "node", "groups": "group", "group_leader": "node"}                           # what each table's elements are
LH1_NODE_FIELD_TYPE = {"parent": "node", "group": "group"}                                                  # index-valued members of a node


def _lh1_access(mod, fn, addr):
    """(table, index operand or None, node member or None) for an address inside one of the -lh1- tables, else None"""
    steps, o = [], addr
    for _ in range(8):
        d = fn.defn(o)
        if d is None or d.is_param:
            break
        if d.op == "bitcast":
            o = d.ops[0]
            continue
        if d.op != "getelementptr":
            break
        steps = list(d.steps) + steps
        o = d.ops[0]
    for k, st in enumerate(steps):
        if st["k"] == "field" and mod.struct_cname(st["struct"]) == LH1 and mod.field_name(st["struct"], st["field"]) in LH1_TABLE_INDEX:
            tab = mod.field_name(st["struct"], st["field"])
            rest = steps[k + 1:]
            idx = None
            member = None
            for r in rest:
                if r["k"] in ("arr", "ptr") and member is None:
                    if r["idx"][0] != "ci":              # (the array-decay step `[0]` and constant offsets carry no index kind)
                        idx = r["idx"] if idx is None else ("mixed",)
                elif r["k"] == "field" and mod.struct_cname(r["struct"]) == "Node":
                    member = mod.field_name(r["struct"], r["field"])
            return tab, idx, member
    return None


def lh1_index_types(mod):
    """index-type discipline of the four -lh1- tables: a value loaded from a holder of node indices is used to index nodes[] (and only that), etc.
    Returns (consistent uses, [(where, text)] confusions).  Values whose type cannot be told (counters, constants, arithmetic) are not judged."""
    fns = [f for f in mod.defined() if f.file.endswith("lh1_decoder.c")]
    ptype, rtype = {}, {}

    def vtype(fn, o, seen=()):
        if o is None or o[0] != "v":
            return None
        d = fn.defn(o)
        if d is None or d.id in seen:
            return None
        if d.is_param:
            return ptype.get((fn.name, d.index))
        seen = seen + (d.id,)
        if d.op in ("zext", "sext", "trunc", "bitcast"):
            return vtype(fn, d.ops[0], seen)
        if d.op in ("add", "sub") and any(o2[0] == "ci" for o2 in d.ops):
            return vtype(fn, [x for x in d.ops if x[0] != "ci"][0], seen) if any(x[0] != "ci" for x in d.ops) else None
        if d.op in ("phi", "select"):
            vals = [v for v, _ in d.incoming] if d.op == "phi" else d.ops[1:]
            ts = {vtype(fn, v, seen) for v in vals} - {None}
            return ts.pop() if len(ts) == 1 else None
        if d.op == "load":
            a = _lh1_access(mod, fn, d.ops[0])
            if a is None:
                return None
            tab, idx, member = a
            if tab == "nodes":
                return LH1_NODE_FIELD_TYPE.get(member)
            return LH1_ELEM_TYPE.get(tab)
        if d.op == "call" and d.callee:
            return rtype.get(d.callee)
        return None

    for _ in range(4):          # parameters and results of the helpers: what every call site passes / every return hands back
        for f in fns:
            for c in f.insts():
                if c.op == "call" and c.callee and any(g.name == c.callee for g in fns):
                    for k, a in enumerate(c.ops):
                        t = vtype(f, a)
                        if t is not None:
                            ptype.setdefault((c.callee, k), t)
            ts = {vtype(f, r.ops[0]) for r in f.insts() if r.op == "ret" and r.ops} - {None}
            if len(ts) == 1:
                rtype[f.name] = ts.pop()
    good, bad = 0, []
    for f in fns:
        for i in f.insts():
            if i.op not in ("load", "store"):
                continue
            a = _lh1_access(mod, f, i.ops[0] if i.op == "load" else i.ops[1])
            if a is None:
                continue
            tab, idx, member = a
            t = vtype(f, idx) if idx is not None else None
            if t is not None:
                if t == LH1_TABLE_INDEX[tab]:
                    good += 1
                else:
                    bad.append((i.where(), "%s[] is indexed with a %s index (it takes a %s index)" % (tab, t, LH1_TABLE_INDEX[tab])))
            if i.op == "store":
                want = LH1_NODE_FIELD_TYPE.get(member) if tab == "nodes" else LH1_ELEM_TYPE.get(tab)
                tv = vtype(f, i.ops[0])
                if want is not None and tv is not None:
                    if tv == want:
                        good += 1
                    else:
                        bad.append((i.where(), "a %s index is stored where %s%s holds %s indices" % (tv, tab, ("[]." + member) if member else "[]", want)))
    return good, bad


def run(tier, seed):
    rep = Report("C09", tier, "other",
                 "Abstract interpretation (intervals with sign-split memory invariants, pointer regions with sub-object bounds, "
                 "branch refinement, threshold widening, trip-count and lock-step bounds for counted loops) of the fully inlined "
                 "init/read entry points of all decoder units under contracts K1 (extra area and output buffer sizes taken from each "
                 "decoder type's own initialiser) and K2 (input callbacks write/return at most what was requested). Every memory "
                 "access is an enumerated obligation: machine-discharged, or covered by a named assumption with checked support "
                 "rules (Huffman tree build invariant A-tree, bit reader A-bits, the -lh1- adaptive tree A-lh1-tree / A-lh1-offset which "
                 "are NOT verified), or reported. Output per read <= max_read is part of the obligations (the output buffer is a "
                 "K1-sized region). Found the -pm2- copy_decode overrun (fixed in the repo). Support rules under the assumptions: tree-array writers and growth guard (S-tree), builder lengths equal to the arrays passed "
                 "(S-treelen, 57 sites), bit-count writers (S-bits), -lh1- table writers (S-lh1) and the -lh1- group pool: count only set to 0 or moved by one, every counted regrouping pass starts "
                 "from a reset (S-lh1-pool); an assumption never absorbs an access whose own guard overshoots the array by a constant (near-miss).")
    with Context(tier) as ctx:
        from .. import selfcheck
        selfcheck.run(ctx, rep, ['range'])
        paths = ctx.views.inlined_many(DECODER_UNITS)
        plain = ctx.plain()
        with ProcessPoolExecutor(max_workers=min(12, os.cpu_count() or 4)) as ex:
            results = list(ex.map(_worker, [(u, paths[u]) for u in DECODER_UNITS]))
        rid = rep.rule("R1", "every memory access of every decoder init/read entry is in bounds under K1/K2 (machine-discharged or named assumption)", 3500)
        rid2 = rep.rule("R2", "K1 premises: extra_size >= sizeof(decoder state struct); each decoder type's entry points were analysed", 22)
        total = collections.Counter()
        used_assumptions = collections.Counter()
        names_seen = set()
        for r in results:
            u = r["unit"]
            for cls, n in r["counts"].items():
                total[cls] += n
            for o in r["obligations"]:
                inst = "%s/%s: %s %s of %s" % (u, o["fn"], o["src_fn"], o["kind"], o["object"])
                if o["class"] == "ok":
                    rep.sample({"unit": u, "obligation": inst, "offset": o["off"], "width": o["width"], "extent": o["size"], "status": "discharged"})
                elif o["class"].startswith("assumed:"):
                    nm = o["class"].split(":", 1)[1]
                    used_assumptions[nm] += 1
                    rep.assumed(rid, inst, nm, A.REASONS.get(nm, "?"), o["where"])
                else:
                    rep.violation(rid, inst, o["where"],
                                  "not provable in bounds: offset %s, access %s, extent %s%s" % (
                                      o["off"], o["width"], o["size"], " (object of unknown extent)" if o["class"] == "unknown-extent" else ""),
                                  function=o["src_fn"], obj="%s:%s" % (u, o["object"]))
            # discharged ones are counted in bulk
            for _ in range(r["counts"].get("ok", 0)):
                rep.rules[rid]["ok"] += 1
            # K1 premises
            for t in r["types"]:
                names_seen.add(t["name"])
                for role in ("init", "read"):
                    fnm = t[role]
                    if not fnm:
                        continue
                    cn = re.sub(r"\.\d+$", "", fnm)
                    ss = r["struct_sizes"].get(cn)
                    if ss is None:
                        if role == "read":
                            rep.violation(rid2, "%s: %s casts its extra area to a state struct" % (t["name"], cn), u, "no cast found", function=cn, obj="struct")
                        continue
                    rep.check(rid2, ss[1] is not None and t["extra_size"] >= ss[1], "%s: extra_size %d >= sizeof(%s) = %s (%s)" % (t["name"], t["extra_size"], ss[0], ss[1], role),
                              u, None, function=t["name"], obj="extra_size:%s" % role)
        rep.extra["obligation_classes"] = dict(total)
        rep.extra["assumption_use"] = dict(used_assumptions)
        rep.extra["units"] = {r["unit"]: {"counts": r["counts"], "rounds": r["rounds"], "contracts": r["contracts"], "elem_invariants": r["elem_invariants"]} for r in results}
        rep.analysed = {"view": "inlined units", "units": DECODER_UNITS, "entries": sum(len(r["entries"]) for r in results)}
        # every decoder type registered in decoders[] was analysed
        dec = plain.globals.get("decoders")
        reg = set()
        if dec and dec["init"]["k"] == "agg":
            for e in dec["init"]["elems"]:
                for x in e.get("elems", []):
                    if x["k"] == "scalar" and x["v"][0] == "gv":
                        reg.add(plain.globals[x["v"][1]].get("cname", x["v"][1]))
        rep.check(rid2, bool(reg) and reg <= names_seen, "every decoder type in decoders[] was analysed", "lha_decoder.c", "registered %s, analysed %s" % (sorted(reg), sorted(names_seen)),
                  function="decoders", obj="coverage")

        # ---- support rules ------------------------------------------------------------------------
        rid = rep.rule("S-tree", "support of A-tree: only init_tree / set_tree_single / expand_queue / add_codes_with_length store into tree arrays; the growth guard is a fact at expand_queue's stores", 4)
        writers = collections.Counter()
        for f in plain.defined():
            M = Matcher(f)
            for st in f.insts():
                if st.op == "store":
                    d = f.defn(M.strip(st.ops[1], ("bitcast",)))
                    if d is not None and not d.is_param and d.op == "getelementptr":
                        b = f.defn(d.ops[0])
                        # stores through the `tree` parameter / TreeBuildData.tree
                        if (b is not None and b.is_param and b.name == "tree") or M.match(("load", ("field", "TreeBuildData", "tree", ANY)), d.ops[0], {}) is not None:
                            writers[f.cname] += 1
        rep.check(rid, set(writers) <= {"init_tree", "set_tree_single", "expand_queue", "add_codes_with_length"} and len(writers) >= 3, "functions storing through a tree pointer", "tree_decode.c",
                  "%s" % dict(writers), function="tree", obj="writers")
        for f in plain.fns("expand_queue")[:1]:
            from ..rules import guarded_site
            M = Matcher(f)
            sts = [st for st in f.insts() if st.op == "store" and M.match(("gep", ("load", ("field", "TreeBuildData", "tree", ANY)), [ANY]), st.ops[1], {}) is not None]
            rep.check(rid, len(sts) == 1, "one tree store in expand_queue", f.file, None, function="expand_queue", obj="stores")
            ta = ("load", ("field", "TreeBuildData", "tree_allocated", ("param", 0)))
            ne = ("load", ("field", "TreeBuildData", "next_entry", ("param", 0)))
            for st in sts:
                guarded_site(rep, rid, ctx, st, [
                    ("tree_allocated + 2*(tree_allocated - next_entry) <= tree_len",
                     ("ule", ("bin", "add", ta, ("bin", "mul", ("bin", "sub", ta, ne), 2)), ("load", ("field", "TreeBuildData", "tree_len", ("param", 0))))),
                    ("next_entry < end_offset", ("ult", ANY, ta))])
        for f in plain.fns("read_next_entry")[:1]:
            from ..rules import require_on_success
            F = ctx.facts(f)
            M = Matcher(f)
            ne = ("load", ("field", "TreeBuildData", "next_entry", ("param", 0)))
            ta = ("load", ("field", "TreeBuildData", "tree_allocated", ("param", 0)))
            sts = stores_to_field(plain, "TreeBuildData", "next_entry", [f])
            for st in sts:
                from ..rules import guarded_site as gs
                gs(rep, rid, ctx, st, [("next_entry < tree_allocated", ("ult", ne, ta))])
        # A-tree bounds every index by tree_len; the link to memory is that tree_len does not exceed the array handed over with it
        rid = rep.rule("S-treelen", "support of A-tree: at every call of build_tree / init_tree the length argument is a constant not larger than the number of "
                                    "elements of the array whose first element is passed", 8)
        ncalls = 0
        for f in plain.defined():
            M = Matcher(f)
            for c in f.insts():
                if c.op != "call" or plain.callee_cname(c) not in ("build_tree", "init_tree") or len(c.ops) < 2:
                    continue
                ncalls += 1
                g = f.defn(M.strip(c.ops[0], ("bitcast",)))
                nelem = None
                what = "not the first element of an array of known size"
                # &obj->array[0]: a gep whose last steps are [.. field/array step][0] into [N x T]
                if g is not None and not g.is_param and g.op == "getelementptr":
                    base = f.defn(g.ops[0])
                    bty = base.ty if base is not None else None
                    steps = g.steps or []
                    zero_idx = [s_ for s_ in steps if "idx" in s_ and is_const(s_["idx"]) and const_val(s_["idx"]) == 0]
                    if bty and len(steps) == len(zero_idx):
                        m = re.match(r"^\[(\d+) x ", bty)
                        if m:
                            nelem = int(m.group(1))
                            what = "array of %d elements" % nelem
                tl = c.ops[1]
                ok = nelem is not None and is_const(tl) and const_val(tl) is not None and 0 <= const_val(tl) <= nelem
                rep.check(rid, ok, "%s: %s(tree, %s) over an %s" % (f.cname, plain.callee_cname(c), const_val(tl) if is_const(tl) else "non-constant length", what), c.where(),
                          None if ok else "the builder trusts tree_len: every index it writes is only known to be below that length, which here is not shown to fit the array",
                          function=f.cname, obj="treelen-%s" % plain.callee_cname(c))
        rep.check(rid, ncalls >= 8, "call sites of build_tree / init_tree found", "lib/", "%d" % ncalls, function="build_tree", obj="sites")
        rid = rep.rule("S-bits", "support of A-bits: BitStreamReader.bits is stored only by bit_stream_reader_init (0), peek_bits (+8 inside the byte loop) and read_bits (-n after a successful peek)", 3)
        bw = collections.Counter()
        for st in stores_to_field(plain, "BitStreamReader", "bits"):
            bw[st.fn.cname] += 1
        rep.check(rid, {"bit_stream_reader_init", "peek_bits", "read_bits"} <= set(bw), "writers of BitStreamReader.bits include init / peek_bits / read_bits", "bit_stream_reader.c", "%s" % dict(bw),
                  function="BitStreamReader.bits", obj="writers")
        # any further store keeps 0 <= bits <= 32 only if it is a constant in range or takes away a constant number of bits that a
        # dominating fact shows to be there (`if (bits != 0) --bits`)
        for st in stores_to_field(plain, "BitStreamReader", "bits"):
            if st.fn.cname in ("bit_stream_reader_init", "peek_bits", "read_bits"):
                continue
            f_ = st.fn
            Mx = Matcher(f_)
            Fx = ctx.facts(f_)
            okb, why = False, None
            if is_const(st.ops[0]) and const_val(st.ops[0]) is not None and 0 <= const_val(st.ops[0]) <= 32:
                okb, why = True, "constant %d" % const_val(st.ops[0])
            else:
                old = ("load", ("field", "BitStreamReader", "bits", ANY))
                e = Mx.match(("bin", "sub", ("bind", "o", old), ("bind", "k", ("const",))), st.ops[0], {}) or Mx.match(("bin", "add", ("bind", "o", old), ("bind", "k", ("const",))), st.ops[0], {})
                if e is not None and is_const(e["k"]):
                    k = const_val(e["k"])
                    dd = f_.defn(Mx.strip(st.ops[0]))
                    if dd is not None and dd.op == "add":
                        k = -k if k < 0 else ((1 << 32) - k if k >= (1 << 31) else -1)
                    if 1 <= k <= 32:
                        for fc in Fx.at_inst(st):
                            if fc[0] == "in" or not is_const(fc[2]) or Mx.match(old, fc[1], {}) is None or \
                                    not (Mx.equiv(Mx.strip(fc[1]), Mx.strip(e["o"])) or _same_field_reload(plain, f_, Mx, Mx.strip(fc[1]), Mx.strip(e["o"]))):
                                continue
                            c = const_val(fc[2])
                            if (fc[0] == "ne" and c == 0 and k == 1) or (fc[0] == "ugt" and c >= k - 1) or (fc[0] == "uge" and c >= k):
                                okb, why = True, "bits -= %d under a fact that at least %d bit(s) are buffered" % (k, k)
            rep.check(rid, okb, "%s: store to BitStreamReader.bits keeps 0 <= bits <= 32" % f_.cname, st.where(), why or "neither a constant in range nor a guarded decrement", function=f_.cname, obj="bits-store")
        for f in plain.fns("peek_bits")[:1]:
            M = Matcher(f)
            for st in stores_to_field(plain, "BitStreamReader", "bits", [f]):
                rep.check(rid, M.match(("bin", "add", ("load", ("field", "BitStreamReader", "bits", ("param", 0))), 8), st.ops[0], {}) is not None, "peek_bits: bits += 8", st.where(), None,
                          function="peek_bits", obj="inc")
            # the request passed to the callback is (32 - bits) / 8
            cbs = [c for c in f.insts() if c.op == "call" and c.callee is None]
            FREE = ("bin", "sub", 32, ("load", ("field", "BitStreamReader", "bits", ("param", 0))))
            okc = len(cbs) == 1 and (M.match(("bin", "udiv", FREE, 8), cbs[0].ops[1], {}) is not None or M.match(("bin", "lshr", FREE, 3), cbs[0].ops[1], {}) is not None)
            rep.check(rid, okc, "peek_bits asks the callback for (32 - bits) / 8 bytes", f.file, None, function="peek_bits", obj="request")
        for f in plain.fns("read_bits")[:1]:
            M = Matcher(f)
            for st in stores_to_field(plain, "BitStreamReader", "bits", [f]):
                from ..rules import guarded_site as gs
                rep.check(rid, M.match(("bin", "sub", ("load", ("field", "BitStreamReader", "bits", ("param", 0))), ("param", 1)), st.ops[0], {}) is not None, "read_bits: bits -= n", st.where(), None,
                          function="read_bits", obj="dec")
                gs(rep, rid, ctx, st, [("peek_bits(reader, n) >= 0", ("sge", ("call", "peek_bits", [("param", 0), ("param", 1)]), 0))])
        rid = rep.rule("S-lh1", "support of A-lh1-tree / A-lh1-offset: the -lh1- tables are written only inside lh1_decoder.c, the offset tables only during initialisation", 2)
        lw = collections.Counter()
        for fld in ("nodes", "leaf_nodes", "groups", "group_leader"):
            for f in plain.defined():
                M = Matcher(f)
                for st in f.insts():
                    if st.op == "store" or (st.op == "call" and (st.callee or "").startswith("llvm.memcpy")):
                        from ..mem import root as mroot
                        ptr = st.ops[1] if st.op == "store" else st.ops[0]
                        x = ptr
                        for _ in range(6):
                            d = f.defn(M.strip(x, ("bitcast",)))
                            if d is None or d.is_param or d.op != "getelementptr":
                                break
                            from ..ir import field_of_gep
                            fo = None
                            for stp in d.steps:
                                if stp["k"] == "field" and plain.struct_cname(stp["struct"]) == "LHALH1Decoder" and plain.field_name(stp["struct"], stp["field"]) == fld:
                                    fo = fld
                            if fo:
                                lw[f.cname] += 1
                                break
                            x = d.ops[0]
        # the decoder state struct is private to lib/lh1_decoder.c: whoever maintains the tables lives in that file (names are free to change)
        lh1_fns = {f.cname for f in plain.defined() if f.file.endswith("lh1_decoder.c")}
        rep.check(rid, set(lw) <= lh1_fns and len(lw) >= 1, "the -lh1- tree tables are written only by functions of lh1_decoder.c", "lh1_decoder.c", "%s" % dict(lw), function="lh1", obj="tree-writers")
        ow = collections.Counter()
        for fld in ("offset_lookup", "offset_lengths"):
            for f in plain.defined():
                M = Matcher(f)
                for st in f.insts():
                    if st.op == "store":
                        d = f.defn(M.strip(st.ops[1], ("bitcast",)))
                        if d is not None and not d.is_param and d.op == "getelementptr":
                            b = f.defn(d.ops[0])
                            from ..ir import field_of_gep
                            if b is not None and not b.is_param and b.op == "getelementptr" and field_of_gep(plain, b) == ("LHALH1Decoder", fld):
                                ow[f.cname] += 1
        from ..callgraph import CallGraph as _CG
        _cg = _CG(plain)
        rd_entry = plain.fn("lha_lh1_read")
        from_read = _cg.reachable([rd_entry.name]) if rd_entry else set()
        late = [w for w in ow if any(f.cname == w and f.name in from_read for f in plain.defined())]
        rep.check(rid, bool(ow) and set(ow) <= lh1_fns and not late and rd_entry is not None, "the -lh1- offset tables are written only during initialisation (no writer is reachable from lha_lh1_read)",
                  "lh1_decoder.c", "%s; reachable from the read entry: %s" % (dict(ow), late), function="lh1", obj="offset-writers")

        # S-lh1-pool: the group pool.  alloc_group() hands out groups[num_groups++] with no test of its own: what keeps the index inside the table is
        # that the count is moved by one at a time and that every pass which regroups the whole tree (a counted loop that allocates) starts from
        # an empty pool.  Decided on the fully inlined unit, so that helpers and their callers need no names.
        rid = rep.rule("S-lh1-pool", "support of A-lh1-tree: LHALH1Decoder.num_groups is only ever set to 0, raised by one or lowered by one, and every counted pass "
                                     "that allocates groups is dominated by a reset of the count to 0", 4)
        lh1 = Module(paths["lh1"])
        npool = 0
        for ent in [f for f in lh1.defined() if f.cname in ("lha_lh1_init", "lha_lh1_read")]:
            Me, Fe = Matcher(ent), Facts(ent)
            NG = ("field", "LHALH1Decoder", "num_groups", ANY)
            sts = stores_to_field(lh1, "LHALH1Decoder", "num_groups", [ent])
            resets, incs = [], []
            for st in sts:
                if is_const(st.ops[0]) and const_val(st.ops[0]) is not None and 0 <= const_val(st.ops[0]) <= 4:
                    # 0, or (the compiler having folded "0, then one allocation") a small known count
                    resets.append(st)
                    kind = "reset (to the known count %d)" % const_val(st.ops[0])
                elif Me.match(("bin", "add", ("load", NG), 1), st.ops[0], {}) is not None:
                    incs.append(st)
                    kind = "raise"
                elif Me.match(("bin", "add", ("load", NG), -1), st.ops[0], {}) is not None or Me.match(("bin", "sub", ("load", NG), 1), st.ops[0], {}) is not None:
                    kind = "lower"
                else:
                    kind = None
                npool += 1
                rep.check(rid, kind is not None, "%s: num_groups %s" % (ent.cname, kind or "is given a value that is neither 0 nor the old count +- 1"), st.where(),
                          None if kind else "stores %s" % describe(ent, st.ops[0]), function=ent.cname, obj="pool-store")
            for lp in ent.loops():
                inside = [st for st in incs if st.block.id in lp["body"]]
                if not inside:
                    continue
                # counted: a header phi with a constant step, compared with a constant on an exit edge
                hdr = ent.blocks[lp["header"]]
                counted = False
                for ph in [i for i in hdr.insts if i.op == "phi" and not i.ty.endswith("*")]:
                    ins = [v for v, b in ph.incoming if b not in lp["body"]]
                    backs = [v for v, b in ph.incoming if b in lp["body"]]
                    step = all(Me.match(("bin", "add", ("inst", ph.id), ("bind", "c", ("const",))), v, {}) is not None for v in backs) and bool(backs)
                    if not (ins and step):
                        continue
                    for (b, x) in lp["exits"]:
                        for f in Fe.edge_facts(b, x):
                            if is_const(f[2]) and Me.strip(f[1]) in ({("v", ph.id)} | {Me.strip(v) for v in backs}):
                                counted = True
                if not counted:
                    continue                # the walk from a leaf to the root: bounded by the shape of the tree, which is the assumption itself
                dom = [r for r in resets if r.block.id not in lp["body"] and ent.dominates(r.block.id, lp["header"])]
                npool += 1
                rep.check(rid, bool(dom), "%s: the counted pass at line %s that allocates groups starts from an empty pool" % (ent.cname, hdr.term.line()),
                          "%s:%s" % (ent.file, hdr.term.line()),
                          None if dom else "no store num_groups = 0 dominates this loop: every rebuild stacks its groups on top of the abandoned ones and groups[num_groups] runs off the table",
                          function=ent.cname, obj="pool-reset")
        rep.check(rid, npool >= 4, "group pool sites found", "lh1_decoder.c", "%d" % npool, function="lh1", obj="pool-sites")

        rid = rep.rule("S-lh1-types", "support of A-lh1-tree: the index kinds of the -lh1- tables are never mixed - what is loaded from a holder of node indices "
                                      "(parent, leaf_nodes[], group_leader[]) indexes nodes[] only, group ids (group, groups[]) index group_leader[] only, and each holder "
                                      "is given values of its own kind", 12)
        good, bad = lh1_index_types(plain)
        for _ in range(good):
            rep.ok(rid, "index kind consistent", None, "lh1_decoder.c")
        for w_, text in bad:
            rep.violation(rid, "lh1 index kinds: %s" % text, w_, "an index of the wrong kind escapes the range its table was sized for (tables of 627 and 314 entries): the tree-shape "
                          "assumption A-lh1-tree presupposes that the kinds are kept apart", function="lh1", obj="index-kind")

        # ---- R4 pm1 table walk -------------------------------------------------------------------------------
        rid = rep.rule("R4", "pm1 byte_decode_trees: every bit path from each of the 32 roots stays inside its 5-byte row and ends in a leaf nibble", 32)
        pm_path = paths["pm1"]
        pm_mod = Module(pm_path)
        pm1_table_walk(rep, rid, pm_mod)
        # the row pointer comes from that table with a 5-bit index
        f = plain.fn("read_start_header") or plain.fn("lha_pm1_read")
        sts = stores_to_field(plain, "LHAPM1Decoder", "byte_decode_tree")
        okrow = True
        nrow = 0
        for st in sts:
            M = Matcher(st.fn)
            if is_const(st.ops[0]) or st.ops[0][0] == "null":
                continue
            nrow += 1
            e = M.match(("gep", ("global", "byte_decode_trees"), [("bind", "i"), 0]), st.ops[0], {}) or M.match(("gep", ("gep", ("global", "byte_decode_trees"), [("bind", "i")]), [0]), st.ops[0], {})
            if e is None:
                okrow = False
        rep.check(rid, okrow and nrow >= 1, "byte_decode_tree is only ever set to the start of a row of byte_decode_trees", "pm1_decoder.c", "%d non-NULL stores" % nrow,
                  function="LHAPM1Decoder.byte_decode_tree", obj="row-pointer")
    return rep.finish(seed)
