"""C17 - the checksum routine is CRC-16/ARC for every buffer and every split of it.

Proof obligations (all machine-discharged, E4 GF2 + E2 shape rules):
 R1 every constant table the routine reads is never written and is read only by it;
 R2 the loop body of lha_crc16_buf, as a function of (16 state bits, 8 data bits), is
    the GF(2)-linear map of the bitwise CRC-16/ARC step (polynomial 0xA001 reflected):
    24x16 bit matrix equality, constant term zero - this covers all 2^24 (state, byte)
    pairs without evaluating any of them;
 R3 fold shape: one loop, index 0,1,2,...,buf_len-1, byte buf[i], state enters as *crc and
    leaves to *crc, nothing else read or written (no hidden state => piecewise == whole);
 R4 callers start from 0 and compare the raw value (no final inversion).
"""
from ..context import Context
from ..report import Report
from ..facts import Facts, Matcher, ANY, is_const, const_val, describe
from ..rules import stores_to_field, rets
from ..gf2 import BitEval, sym, matrix, crc16_arc_step, TOP
from ..mem import root


def run(tier, seed):
    rep = Report("C17", tier, "proof",
                 "Bit-level abstract evaluation over GF(2) of the SSA body of lha_crc16_buf: the next state is an affine function "
                 "of the 16 state bits and 8 data bits whose 24x16 matrix equals that of the bitwise CRC-16/ARC step (constant "
                 "term 0); the lookup table is verified affine in its index and is never written; the routine is a left fold "
                 "over buf[0..buf_len) from *crc to *crc with no other state, so any split gives the same value; callers start "
                 "at 0 and compare the raw accumulator.")
    rep.trusted_base = ["clang 14 C front end, LLVM sroa/early-cse preserve semantics", "irx serialises the IR faithfully",
                        "sa/lhsa/gf2.py (bit-affine domain) and the rule code in sa/lhsa/props/c17.py",
                        "the textbook definition of CRC-16/ARC encoded in gf2.crc16_arc_step (reflected polynomial 0xA001)"]
    with Context(tier) as ctx:
        from .. import selfcheck
        selfcheck.run(ctx, rep, ['gf2'])
        mod = ctx.plain()
        rep.analysed = {"view": "plain", "function": "lha_crc16_buf"}
        fn = mod.fn("lha_crc16_buf")
        rid3 = rep.rule("R3", "fold shape: one loop over i = 0..buf_len-1 reading buf[i]; state from *crc to *crc; no other memory effect", 8)
        rid2 = rep.rule("R2", "the loop body is the CRC-16/ARC step as a 24x16 bit matrix over GF(2), constant term 0", 17)
        rid1 = rep.rule("R1", "tables read by the routine are constant-initialised, never written, and private to it", 2)
        rid4 = rep.rule("R4", "every accumulator handed to the routine starts at 0 and is compared / returned raw", 3)
        if rep.need(rid3, fn, "function lha_crc16_buf") is None:
            return rep.finish(seed)
        F = ctx.facts(fn)
        M = Matcher(fn)
        where = "%s:%s" % (fn.file, fn.line)
        loops = fn.loops()
        if not rep.check(rid3, len(loops) == 1, "exactly one loop", where, "%d loops" % len(loops), function=fn.cname, obj="loops"):
            return rep.finish(seed)
        lp = loops[0]
        hdr = fn.blocks[lp["header"]]
        phis = [i for i in hdr.insts if i.op == "phi"]
        state = idx = None
        for p in phis:
            ins = [(v, b) for v, b in p.incoming if b not in lp["body"]]
            if len(ins) != 1:
                continue
            if is_const(ins[0][0]) and const_val(ins[0][0]) == 0 and all(M.match(("bin", "add", ("inst", p.id), 1), v, {}) is not None for v, b in p.incoming if b in lp["body"]):
                idx = p
            elif M.match(("load", ("param", 0)), ins[0][0], {}) is not None:
                state = p
        rep.check(rid3, idx is not None, "index runs 0, 1, 2, ...", where, None, function=fn.cname, obj="index")
        rep.check(rid3, state is not None and len(phis) == 2, "the only loop-carried values are the index and the state loaded from *crc", where,
                  "%d header phis" % len(phis), function=fn.cname, obj="state")
        if idx is None or state is None:
            return rep.finish(seed)
        # exit: only when i >= buf_len
        exits_ok = all(M.find_fact(("uge", ("inst", idx.id), ("param", 2)), F.edge_facts(b, s))[0] is not None for (b, s) in lp["exits"]) and len(lp["exits"]) == 1
        rep.check(rid3, exits_ok, "the loop is left only when i >= buf_len", where, None, function=fn.cname, obj="exit")
        # memory effects
        loads = [i for i in fn.insts() if i.op == "load"]
        stores = [i for i in fn.insts() if i.op == "store"]
        calls = [i for i in fn.insts() if i.op == "call" and not (i.callee or "").startswith("llvm.dbg")]
        byte_loads = [l for l in loads if M.match(("load", ("gep", ("param", 1), [("inst", idx.id)])), ("v", l.id), {}) is not None and l.size == 1]
        crc_loads = [l for l in loads if M.match(("load", ("param", 0)), ("v", l.id), {}) is not None]
        table_loads = [l for l in loads if root(fn, l.ops[0])[0] == "global"]
        other = [l for l in loads if l not in byte_loads and l not in crc_loads and l not in table_loads]
        rep.check(rid3, len(byte_loads) >= 1 and all(l.block.id in lp["body"] for l in byte_loads), "data bytes are buf[i]", where, None, function=fn.cname, obj="bytes")
        rep.check(rid3, not other and not calls, "no other memory is read and nothing is called", where, "%s" % [o.where() for o in other + calls], function=fn.cname, obj="reads")
        okst = len(stores) == 1 and M.match(("param", 0), stores[0].ops[1], {}) is not None and stores[0].block.id not in lp["body"]
        if okst:
            # stored value is the state at loop exit
            sv = M.strip(stores[0].ops[0], ())
            okst = sv == ("v", state.id)
        rep.check(rid3, okst, "the only store writes the final state to *crc after the loop", where, None, function=fn.cname, obj="store")
        rep.check(rid3, len(crc_loads) == 1 and crc_loads[0].block.id not in lp["body"], "*crc is read once, before the loop", where, None, function=fn.cname, obj="init")

        # ---- R2: bit matrix -------------------------------------------------------------------------------
        sw = mod.int_bits(state.ty)
        bind = {state.id: sym("s", sw)}
        for l in byte_loads:
            bind[l.id] = sym("d", 8)
        ev = BitEval(fn, bind)
        nxt = [v for v, b in state.incoming if b in lp["body"]]
        if len(nxt) != 1:
            rep.violation(rid2, "single state update", where, "%d back-edge values" % len(nxt), function=fn.cname, obj="update")
            return rep.finish(seed)
        bits = ev.val(nxt[0])
        inputs = [("s", k) for k in range(16)] + [("d", k) for k in range(8)]
        if bits is None or any(b is TOP for b in bits):
            why = sorted(set(ev.blame.values()))[:3]
            rep.violation(rid2, "next state is bit-affine in (state, byte)", where, "not provable: %s" % why, function=fn.cname, obj="affine")
            return rep.finish(seed)
        if sw > 16:
            # state wider than 16 bits: the high input bits must not matter and the high output bits must be 0
            hi_in = any(("s", k) in b[1] for b in bits for k in range(16, sw))
            hi_out = any(not (b[0] == 0 and not b[1]) for b in bits[16:])
            rep.check(rid2, not hi_in and not hi_out, "state bits above 15 are dead", where, None, function=fn.cname, obj="width")
        m = matrix(bits[:16], inputs)
        consts, rows, extra = m
        rep.check(rid2, consts == crc16_arc_step(0, 0) and not extra, "constant term is 0 and no foreign input", where, "const=%#x extra=%s" % (consts, extra),
                  function=fn.cname, obj="const")
        for (nm, k) in inputs:
            ref = crc16_arc_step(1 << k, 0) if nm == "s" else crc16_arc_step(0, 1 << k)
            rep.check(rid2, rows[(nm, k)] == ref, "column of %s bit %d = %#06x" % ("state" if nm == "s" else "data", k, ref), where,
                      "routine gives %#06x, CRC-16/ARC needs %#06x" % (rows[(nm, k)], ref), function=fn.cname, obj="%s%d" % (nm, k))
        rep.sample({"matrix_rows": {"%s%d" % k: "%#06x" % v for k, v in rows.items()}, "constant": consts})

        # ---- R1 tables -------------------------------------------------------------------------------------------
        used = getattr(ev, "tables_used", set())
        for l in table_loads:
            used.add(root(fn, l.ops[0])[1])
        for g in sorted(used):
            gl = mod.globals[g]
            okc = "init" in gl and gl["init"]["k"] == "data"
            writers, readers = [], set()
            for f in mod.defined():
                for i in f.insts():
                    ops = list(i.ops) + ([i.calleev] if i.op == "call" and i.calleev else [])
                    for o in ops:
                        r = root(f, o) if o[0] in ("v", "ce", "gv") else ("x",)
                        if o[0] == "gv" and o[1] == g:
                            r = ("global", g, 0)
                        if r[0] == "global" and r[1] == g:
                            if i.op == "load" or i.op == "getelementptr" or i.op == "bitcast":
                                readers.add(f.cname)
                            else:
                                writers.append(i)
            rep.check(rid1, okc and not writers, "table %s is constant-initialised and never written or passed away" % gl.get("cname", g), "%s:%s" % (gl.get("file"), gl.get("line")),
                      "written/escapes at %s" % writers[0].where() if writers else None, function="global", obj=gl.get("cname", g))
            rep.check(rid1, readers <= {"lha_crc16_buf"}, "table %s is read only by lha_crc16_buf" % gl.get("cname", g), "%s:%s" % (gl.get("file"), gl.get("line")), "readers %s" % sorted(readers),
                      function="global", obj=gl.get("cname", g) + ":readers")
            if okc and gl["init"]["k"] == "data" and len(gl["init"]["elts"]) == 256:
                tab = gl["init"]["elts"]
                bad = [i for i in range(256) if (tab[i] & 0xFFFFFFFF) != crc16_arc_step(0, i)]
                rep.check(rid1, not bad, "table %s equals the CRC-16/ARC byte table generated from 0xA001 (256 entries)" % gl.get("cname", g), "%s:%s" % (gl.get("file"), gl.get("line")),
                          "differs at entries %s" % bad[:5] if bad else None, function="global", obj=gl.get("cname", g) + ":contents")

        # ---- R4 callers ----------------------------------------------------------------------------------------------
        ncall = 0
        for f in mod.defined():
            Mf = Matcher(f)
            for c in f.calls("lha_crc16_buf"):
                ncall += 1
                r = root(f, c.ops[0])
                if r[0] == "alloca":
                    sts = [s for s in f.insts() if s.op == "store" and root(f, s.ops[1])[:2] == r[:2]]
                    ok = all(is_const(s.ops[0]) and const_val(s.ops[0]) == 0 for s in sts) and len(sts) >= 1 and \
                        any(f.dominates(s.block.id, c.block.id) for s in sts)
                    rep.check(rid4, ok, "%s: local accumulator is initialised to 0 before the call" % f.cname, c.where(), None, function=f.cname, obj="init")
                else:
                    fo = None
                    d = f.defn(Mf.strip(c.ops[0], ("bitcast",)))
                    from ..ir import field_of_gep
                    if d is not None and not d.is_param and d.op == "getelementptr":
                        fo = field_of_gep(mod, d)
                    if fo is None:
                        rep.violation(rid4, "%s: accumulator is a struct field or a local" % f.cname, c.where(), describe(f, c.ops[0]), function=f.cname, obj="acc")
                        continue
                    sts = [s for g2 in mod.defined() for s in stores_to_field(mod, fo[0], fo[1], [g2])]
                    ok = all(is_const(s.ops[0]) and const_val(s.ops[0]) == 0 for s in sts)
                    rep.check(rid4, ok, "%s: accumulator field %s.%s is only ever assigned 0 (all other updates go through the routine)" % (f.cname, fo[0], fo[1]), c.where(),
                              None, function=f.cname, obj="field-init")
        rep.check(rid4, ncall >= 2, "callers found", where, "%d call sites" % ncall, function=fn.cname, obj="callers")
    return rep.finish(seed)
