"""C17 - the checksum routine is CRC-16/ARC for every buffer and every split of it.

Proof obligations (all machine-discharged, E4 GF2 + E2 shape rules):
 R1 every constant table the routine reads is never written and is read only by it;
 R2 the loop body of lha_crc16_buf, as a function of (16 state bits, 8 data bits), is
    the GF(2)-linear map of the bitwise CRC-16/ARC step (polynomial 0xA001 reflected):
    24x16 bit matrix equality, constant term zero - this covers all 2^24 (state, byte)
    pairs without evaluating any of them;
 R3 fold shape: one loop, index 0,1,2,...,buf_len-1, byte buf[i], state enters as *crc and
    leaves to *crc, nothing else read or written (no hidden state => piecewise == whole);
 R4 callers start from 0 and compare the raw value (no final inversion).
"""
from ..context import Context
from ..report import Report
from ..facts import Facts, Matcher, ANY, is_const, const_val, describe
from ..rules import stores_to_field, rets
from ..gf2 import BitEval, sym, matrix, crc16_arc_step, TOP
from ..mem import root


def run(tier, seed):
    rep = Report("C17", tier, "proof",
                 "Bit-level abstract evaluation over GF(2) of the SSA body of lha_crc16_buf: the next state is an affine function "
                 "of the 16 state bits and 8 data bits whose 24x16 matrix equals that of the bitwise CRC-16/ARC step (constant "
                 "term 0); the lookup table is verified affine in its index and is never written; the routine is a left fold "
                 "over buf[0..buf_len) from *crc to *crc with no other state - every loop-carried value is affine in the "
                 "iteration number at the full width of buf_len, the byte read in iteration k is buf[k], the loop is left exactly at k == buf_len - so any split gives the same value; callers start "
                 "at 0 and compare the raw accumulator; the decoder's running value is fed exactly the bytes it delivers (C14's identity rules run here too).")
    rep.trusted_base = ["clang 14 C front end, LLVM sroa/early-cse preserve semantics", "irx serialises the IR faithfully",
                        "sa/lhsa/gf2.py (bit-affine domain) and the rule code in sa/lhsa/props/c17.py",
                        "the textbook definition of CRC-16/ARC encoded in gf2.crc16_arc_step (reflected polynomial 0xA001)"]
    with Context(tier) as ctx:
        from .. import selfcheck
        selfcheck.run(ctx, rep, ['gf2'])
        mod = ctx.plain()
        rep.analysed = {"view": "plain", "function": "lha_crc16_buf"}
        fn = mod.fn("lha_crc16_buf")
        rid3 = rep.rule("R3", "fold shape: one loop over i = 0..buf_len-1 reading buf[i]; state from *crc to *crc; no other memory effect", 8)
        rid2 = rep.rule("R2", "the loop body is the CRC-16/ARC step as a 24x16 bit matrix over GF(2), constant term 0", 17)
        rid1 = rep.rule("R1", "tables read by the routine are constant-initialised, never written, and private to it", 2)
        rid4 = rep.rule("R4", "every accumulator handed to the routine starts at 0 and is compared / returned raw", 3)
        if rep.need(rid3, fn, "function lha_crc16_buf") is None:
            return rep.finish(seed)
        F = ctx.facts(fn)
        M = Matcher(fn)
        where = "%s:%s" % (fn.file, fn.line)
        loops = fn.loops()
        if not rep.check(rid3, len(loops) == 1, "exactly one loop", where, "%d loops" % len(loops), function=fn.cname, obj="loops"):
            return rep.finish(seed)
        lp = loops[0]
        hdr = fn.blocks[lp["header"]]
        phis = [i for i in hdr.insts if i.op == "phi"]
        # Every loop-carried value other than the state must be an affine function of the iteration number k: value(k) = init + step * k,
        # with init a linear form over {buf, buf_len} taken at full width (a narrowing cast of buf_len is *not* linear: this is where a
        # 16- or 32-bit counter for a size_t length is caught).  The rule then requires: the byte read in iteration k is buf[k], and the
        # loop is left exactly when k == buf_len - whatever the spelling (index counting up, remaining count going down, pointer walk
        # to an end pointer).
        from ..lin import Lin
        LEN_BITS = mod.int_bits(fn.params[2].ty) or 64
        state = None
        ivs = {}            # phi id -> (base or None, Lin init, step)
        why_not = {}

        def width_ok(ty):
            return ty.endswith("*") or (mod.int_bits(ty) or 0) >= LEN_BITS

        def ev(o, depth=0):
            """operand -> (base, Lin over {len, k}) or None; base is 'buf' for pointers into the buffer, None for integers"""
            if is_const(o):
                return (None, Lin(const_val(o)))
            if o == ("v", fn.params[1].id):
                return ("buf", Lin(0))
            if o == ("v", fn.params[2].id):
                return (None, Lin(0, {"len": 1}))
            d = fn.defn(o)
            if d is None or d.is_param or depth > 16:
                return None
            if d.op == "phi" and d.id in ivs:
                base, init, step = ivs[d.id]
                return (base, init.add(Lin(0, {"k": step})))
            if d.op == "bitcast":
                return ev(d.ops[0], depth + 1)
            if d.op in ("zext", "sext"):
                return ev(d.ops[0], depth + 1)      # widening a value that is already exact (narrow counters never get this far)
            if d.op == "trunc":
                why_not[d.id] = "narrowing cast to %d bits at %s" % (mod.int_bits(d.ty) or 0, d.where())
                return None
            if d.op in ("add", "sub"):
                x, y = ev(d.ops[0], depth + 1), ev(d.ops[1], depth + 1)
                if x is None or y is None or (y[0] is not None and d.op == "add" and x[0] is not None):
                    return None
                if d.op == "sub" and x[0] == y[0]:
                    return (None, x[1].add(y[1], -1))
                if y[0] is not None:
                    return None
                return (x[0], x[1].add(y[1], 1 if d.op == "add" else -1))
            if d.op == "getelementptr" and len(d.ops) == 2:
                x, y = ev(d.ops[0], depth + 1), ev(d.ops[1], depth + 1)
                if x is None or y is None or y[0] is not None or x[0] is None:
                    return None
                return (x[0], x[1].add(y[1]))
            return None
        for p in phis:
            ins = [v for v, b in p.incoming if b not in lp["body"]]
            backs = [v for v, b in p.incoming if b in lp["body"]]
            if len(ins) == 1 and M.match(("load", ("param", 0)), ins[0], {}) is not None:
                state = p
                continue
            if len(ins) != 1 or not backs:
                why_not[p.id] = "header phi %s has no single initial value" % (fn.var_name(p.id) or p.id)
                continue
            init = ev(ins[0])
            step = None
            for v in backs:
                e = M.match(("bin", "add", ("inst", p.id), ("bind", "c", ("const",))), v, {})
                st = const_val(e["c"]) if e is not None else None
                if st is None:
                    e = M.match(("bin", "sub", ("inst", p.id), ("bind", "c", ("const",))), v, {})
                    st = -const_val(e["c"]) if e is not None else None
                if st is None:
                    e = M.match(("gep", ("inst", p.id), [("bind", "c", ("const",))]), v, {})
                    st = const_val(e["c"]) if e is not None else None
                if st is None or (step is not None and st != step):
                    step = None
                    break
                step = st
            if init is None or step is None:
                why_not.setdefault(p.id, "loop-carried value %s is not init + step*k over {buf, buf_len} (%s)" % (
                    fn.var_name(p.id) or p.id, "; ".join(sorted(set(why_not.values()))) or "non-constant step or non-linear initial value"))
                continue
            if not width_ok(p.ty):
                why_not[p.id] = "loop counter %s is %d bits wide but buf_len has %d: for buf_len >= 2^%d it wraps before reaching the bound" % (
                    fn.var_name(p.id) or p.id, mod.int_bits(p.ty) or 0, LEN_BITS, mod.int_bits(p.ty) or 0)
                continue
            ivs[p.id] = (init[0], init[1], step)
        bad_phis = [p for p in phis if p is not state and p.id not in ivs]
        rep.check(rid3, not bad_phis and bool(ivs), "every loop-carried value besides the state is init + step*k at the full width of buf_len", where,
                  "; ".join(why_not.get(p.id, "?") for p in bad_phis) or None, function=fn.cname, obj="index")
        rep.check(rid3, state is not None, "the state enters the loop as the value loaded from *crc", where, "%d header phis" % len(phis), function=fn.cname, obj="state")
        if state is None or bad_phis or not ivs:
            return rep.finish(seed)
        # exit: the single exit edge is taken exactly when k == buf_len
        def exit_is_k_eq_len(f):
            x, y = ev(f[1]), ev(f[2])
            if x is None or y is None or x[0] != y[0]:
                return False
            dlt = x[1].add(y[1], -1)                      # A - B as a form over {len, k}
            kc, lc, c0 = dlt.t.get("k", 0), dlt.t.get("len", 0), dlt.c
            if c0 != 0 or set(dlt.t) - {"k", "len"}:
                return False
            if f[0] == "eq":
                return (kc, lc) in ((1, -1), (-1, 1))
            if f[0] == "uge":                              # A >= B with A - B = k - len  (first true at k == len, steps of one)
                return (kc, lc) == (1, -1)
            if f[0] == "ule":                              # A <= B with A - B = len - k
                return (kc, lc) == (-1, 1)
            return False
        exits_ok = len(lp["exits"]) == 1 and all(any(exit_is_k_eq_len(f) for f in F.edge_facts(b, s)) for (b, s) in lp["exits"])
        rep.check(rid3, exits_ok, "the loop is left exactly when the iteration number reaches buf_len", where, None, function=fn.cname, obj="exit")
        # memory effects
        loads = [i for i in fn.insts() if i.op == "load"]
        stores = [i for i in fn.insts() if i.op == "store"]
        calls = [i for i in fn.insts() if i.op == "call" and not (i.callee or "").startswith("llvm.dbg")]
        def is_buf_k(l):
            r = ev(l.ops[0])
            return l.size == 1 and r is not None and r[0] == "buf" and r[1].c == 0 and r[1].t == {"k": 1}
        byte_loads = [l for l in loads if is_buf_k(l)]
        crc_loads = [l for l in loads if M.match(("load", ("param", 0)), ("v", l.id), {}) is not None]
        table_loads = [l for l in loads if root(fn, l.ops[0])[0] == "global"]
        other = [l for l in loads if l not in byte_loads and l not in crc_loads and l not in table_loads]
        rep.check(rid3, len(byte_loads) >= 1 and all(l.block.id in lp["body"] for l in byte_loads), "the byte read in iteration k is buf[k]", where, None, function=fn.cname, obj="bytes")
        rep.check(rid3, not other and not calls, "no other memory is read and nothing is called", where, "%s" % [o.where() for o in other + calls], function=fn.cname, obj="reads")
        okst = len(stores) == 1 and M.match(("param", 0), stores[0].ops[1], {}) is not None and stores[0].block.id not in lp["body"]
        if okst:
            # stored value is the state at loop exit
            sv = M.strip(stores[0].ops[0], ())
            okst = sv == ("v", state.id)
        rep.check(rid3, okst, "the only store writes the final state to *crc after the loop", where, None, function=fn.cname, obj="store")
        rep.check(rid3, len(crc_loads) == 1 and crc_loads[0].block.id not in lp["body"], "*crc is read once, before the loop", where, None, function=fn.cname, obj="init")

        # ---- R2: bit matrix -------------------------------------------------------------------------------
        sw = mod.int_bits(state.ty)
        bind = {state.id: sym("s", sw)}
        for l in byte_loads:
            bind[l.id] = sym("d", 8)
        ev = BitEval(fn, bind)
        nxt = [v for v, b in state.incoming if b in lp["body"]]
        if len(nxt) != 1:
            rep.violation(rid2, "single state update", where, "%d back-edge values" % len(nxt), function=fn.cname, obj="update")
            return rep.finish(seed)
        bits = ev.val(nxt[0])
        inputs = [("s", k) for k in range(16)] + [("d", k) for k in range(8)]
        if bits is None or any(b is TOP for b in bits):
            why = sorted(set(ev.blame.values()))[:3]
            rep.violation(rid2, "next state is bit-affine in (state, byte)", where, "not provable: %s" % why, function=fn.cname, obj="affine")
            return rep.finish(seed)
        if sw > 16:
            # state wider than 16 bits: the high input bits must not matter and the high output bits must be 0
            hi_in = any(("s", k) in b[1] for b in bits for k in range(16, sw))
            hi_out = any(not (b[0] == 0 and not b[1]) for b in bits[16:])
            rep.check(rid2, not hi_in and not hi_out, "state bits above 15 are dead", where, None, function=fn.cname, obj="width")
        m = matrix(bits[:16], inputs)
        consts, rows, extra = m
        rep.check(rid2, consts == crc16_arc_step(0, 0) and not extra, "constant term is 0 and no foreign input", where, "const=%#x extra=%s" % (consts, extra),
                  function=fn.cname, obj="const")
        for (nm, k) in inputs:
            ref = crc16_arc_step(1 << k, 0) if nm == "s" else crc16_arc_step(0, 1 << k)
            rep.check(rid2, rows[(nm, k)] == ref, "column of %s bit %d = %#06x" % ("state" if nm == "s" else "data", k, ref), where,
                      "routine gives %#06x, CRC-16/ARC needs %#06x" % (rows[(nm, k)], ref), function=fn.cname, obj="%s%d" % (nm, k))
        rep.sample({"matrix_rows": {"%s%d" % k: "%#06x" % v for k, v in rows.items()}, "constant": consts})

        # ---- R1 tables -------------------------------------------------------------------------------------------
        used = getattr(ev, "tables_used", set())
        for l in table_loads:
            used.add(root(fn, l.ops[0])[1])
        for g in sorted(used):
            gl = mod.globals[g]
            okc = "init" in gl and gl["init"]["k"] == "data"
            writers, readers = [], set()
            for f in mod.defined():
                for i in f.insts():
                    ops = list(i.ops) + ([i.calleev] if i.op == "call" and i.calleev else [])
                    for o in ops:
                        r = root(f, o) if o[0] in ("v", "ce", "gv") else ("x",)
                        if o[0] == "gv" and o[1] == g:
                            r = ("global", g, 0)
                        if r[0] == "global" and r[1] == g:
                            if i.op == "load" or i.op == "getelementptr" or i.op == "bitcast":
                                readers.add(f.cname)
                            else:
                                writers.append(i)
            rep.check(rid1, okc and not writers, "table %s is constant-initialised and never written or passed away" % gl.get("cname", g), "%s:%s" % (gl.get("file"), gl.get("line")),
                      "written/escapes at %s" % writers[0].where() if writers else None, function="global", obj=gl.get("cname", g))
            rep.check(rid1, readers <= {"lha_crc16_buf"}, "table %s is read only by lha_crc16_buf" % gl.get("cname", g), "%s:%s" % (gl.get("file"), gl.get("line")), "readers %s" % sorted(readers),
                      function="global", obj=gl.get("cname", g) + ":readers")
            if okc and gl["init"]["k"] == "data" and len(gl["init"]["elts"]) == 256:
                tab = gl["init"]["elts"]
                bad = [i for i in range(256) if (tab[i] & 0xFFFFFFFF) != crc16_arc_step(0, i)]
                rep.check(rid1, not bad, "table %s equals the CRC-16/ARC byte table generated from 0xA001 (256 entries)" % gl.get("cname", g), "%s:%s" % (gl.get("file"), gl.get("line")),
                          "differs at entries %s" % bad[:5] if bad else None, function="global", obj=gl.get("cname", g) + ":contents")

        # ---- R4 callers ----------------------------------------------------------------------------------------------
        ncall = 0
        for f in mod.defined():
            Mf = Matcher(f)
            for c in f.calls("lha_crc16_buf"):
                ncall += 1
                r = root(f, c.ops[0])
                if r[0] == "alloca":
                    sts = [s for s in f.insts() if s.op == "store" and root(f, s.ops[1])[:2] == r[:2]]
                    ok = all(is_const(s.ops[0]) and const_val(s.ops[0]) == 0 for s in sts) and len(sts) >= 1 and \
                        any(f.dominates(s.block.id, c.block.id) for s in sts)
                    rep.check(rid4, ok, "%s: local accumulator is initialised to 0 before the call" % f.cname, c.where(), None, function=f.cname, obj="init")
                else:
                    fo = None
                    d = f.defn(Mf.strip(c.ops[0], ("bitcast",)))
                    from ..ir import field_of_gep
                    if d is not None and not d.is_param and d.op == "getelementptr":
                        fo = field_of_gep(mod, d)
                    if fo is None:
                        rep.violation(rid4, "%s: accumulator is a struct field or a local" % f.cname, c.where(), describe(f, c.ops[0]), function=f.cname, obj="acc")
                        continue
                    sts = [s for g2 in mod.defined() for s in stores_to_field(mod, fo[0], fo[1], [g2])]
                    ok = all(is_const(s.ops[0]) and const_val(s.ops[0]) == 0 for s in sts)
                    rep.check(rid4, ok, "%s: accumulator field %s.%s is only ever assigned 0 (all other updates go through the routine)" % (f.cname, fo[0], fo[1]), c.where(),
                              None, function=f.cname, obj="field-init")
        rep.check(rid4, ncall >= 2, "callers found", where, "%d call sites" % ncall, function=fn.cname, obj="callers")
        # ---- C14.R1*: what the routine is applied to -------------------------------------------------------------------------------
        # "CRC-16/ARC of the bytes returned" also needs the decoder to hand the routine exactly the bytes it delivered: the identity rules of C14
        from . import c14
        c14.identity_rules(rep, ctx, mod, prefix="C14.")
    return rep.finish(seed)
