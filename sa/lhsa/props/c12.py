"""C12 - headers failing their own checksum, CRC or length rules are never returned.

Decides, for every header at once, the *wiring* of the integrity checks:
every path to a successful return crosses the checks (E2 facts / path states).
"""
from ..context import Context
from ..report import Report
from ..facts import Facts, Matcher, ANY, is_const, const_val, describe, describe_fact
from ..paths import PathStates, holds, refuted, show
from ..rules import (require_on_success, guarded_site, success_edges, facts_for_success, stores_to_field,
                     min_width_through_casts, blocks_reachable_from, rets)
from ..callgraph import CallGraph

HDR = "LHAFileHeader"


def hdr_field(f, base=ANY):
    return ("load", ("field", HDR, f, base))


# the header pointer is `*header` (LHAFileHeader **) in the level decoders
HP = ("or", ("load", ("param", 0)), ("param", 0))      # `*header` for LHAFileHeader ** parameters, `header` for LHAFileHeader *
RAW = ("load", ("field", HDR, "raw_data", HP))
RAWLEN = ("load", ("field", HDR, "raw_data_len", HP))


def raw_at(off):
    return ("load", ("gep", RAW, [off]))


COMMON_CRC_FLAG = 0x04   # LHA_FILE_COMMON_CRC, reference value (DESIGN Appendix B)
MiB = 1024 * 1024


def check_fold(rep, ctx, mod, l0):
    """R1/R1b/R1c on the level-0/1 decoder with the checksum helper folded in (the normalised view inlines it, so the rule is the same
    whether the sum lives in a helper, takes the header or a (pointer, length) pair, or is written in place):
    every successful return carries `(S & 0xff) == raw_data[1]` where S is the exit value of a loop that starts at 0, adds raw_data[2 + i]
    for i = 0, 1, 2, ... and is left exactly when i reaches raw_data_len - 2, the bytes being read after the full header was read."""
    from ..lin import Lin, linform, ptr_form
    rid = rep.rule("R1", "decode_level0_header returns success only if ((sum of raw_data[2 .. raw_data_len)) & 0xff) == raw_data[1]", 1)
    rid_b = rep.rule("R1b", "the checksum is a fold: starts at 0, adds every byte raw_data[2 + i], i = 0, 1, 2, ..., and stops exactly at i == raw_data_len - 2")
    rid_c = rep.rule("R1c", "the checksum is computed after the full header (header_len + 2 bytes) has been read")
    F, M = ctx.facts(l0), Matcher(l0)
    ses = success_edges(F, l0)
    if not ses:
        rep.broken(rid, "decode_level0_header has no successful return")
        return
    checked = set()
    for v, pb, b in ses:
        fs = facts_for_success(F, l0, v, pb, b)
        where = "%s:%s" % (l0.file, l0.blocks[pb if pb is not None else b].term.line())
        found = None
        for f in fs:
            if f[0] != "eq" or is_const(f[1]) or is_const(f[2]):
                continue
            for x, y in ((f[1], f[2]), (f[2], f[1])):
                e = M.match(("or", ("bin", "and", ("bind", "acc"), 255), ("cast", "zext", ("cast", "trunc", ("bind", "acc")))), x, {})
                wy, oy = min_width_through_casts(l0, y)
                if e is not None and M.match(raw_at(1), oy, {}) is not None and (wy is None or wy >= 8):
                    found = (f, e["acc"])
        rep.check(rid, found is not None, "decode_level0_header: return via bb%s carries (sum & 0xff) == raw_data[1]" % (pb if pb is not None else b), where,
                  describe_fact(l0, found[0]) if found else "a path returns success without the checksum comparison; facts there: %s" % sorted(describe_fact(l0, x) for x in fs)[:10],
                  function=l0.cname, obj="checksum")
        if not found or found[1] in checked:
            continue
        checked.add(found[1])
        acc = l0.defn(found[1])
        ok, detail = False, "accumulator is not a loop-carried value"
        if acc is not None and not acc.is_param and acc.op == "phi":
            inits = [iv for iv, _ in acc.incoming if is_const(iv)]
            steps = [iv for iv, _ in acc.incoming if not is_const(iv)]
            lp = next((l for l in l0.loops() if l["header"] == acc.block.id), None)
            if [const_val(x) for x in inits] != [0] or len(steps) != 1 or lp is None:
                detail = "accumulator does not start at 0 / has several updates / is not at a loop head"
            else:
                es = M.match(("bin", "add", ("inst", acc.id), ("bind", "byte", ("load", ANY))), steps[0], {}) or M.match(("bin", "add", ("bind", "byte", ("load", ANY)), ("inst", acc.id)), steps[0], {})
                ld = l0.defn(es["byte"]) if es else None
                ivs = [p_ for p_ in l0.blocks[lp["header"]].insts if p_.op == "phi" and p_.id != acc.id]
                if ld is None or ld.size != 1:
                    detail = "accumulator update is not acc + <one byte>"
                else:
                    def symf(o):
                        so = M.strip(o)
                        for p_ in ivs:
                            if so == ("v", p_.id):
                                return "i%d" % p_.id
                        if M.match(RAWLEN, o, {}) is not None:
                            return "rawlen"
                        if M.match(raw_at(0), so, {}) is not None:
                            return "hlen"
                        return None
                    pf = ptr_form(l0, ld.ops[0], lambda o: "raw" if M.match(RAW, o, {}) is not None else None, symf)
                    idx = [k for k in (pf[1].t if pf else {}) if k.startswith("i")]
                    if pf is None or len(idx) != 1 or pf[1].t[idx[0]] != 1 or pf[1].c != 2 or set(pf[1].t) != set(idx):
                        detail = "the byte added is not raw_data[2 + i] (address form %s)" % (pf[1] if pf else None)
                    else:
                        iv = next(p_ for p_ in ivs if "i%d" % p_.id == idx[0])
                        i_in = [x for x, pb_ in iv.incoming if pb_ not in lp["body"]]
                        i_bk = [x for x, pb_ in iv.incoming if pb_ in lp["body"]]
                        if not (len(i_in) == 1 and is_const(i_in[0]) and const_val(i_in[0]) == 0 and i_bk and all(M.match(("bin", "add", ("inst", iv.id), 1), x, {}) is not None for x in i_bk)):
                            detail = "index does not run 0, 1, 2, ..."
                        else:
                            # exit exactly at i >= rawlen - 2, byte read under i < rawlen - 2
                            def bound_ok(fct, pred):
                                if fct[0] != pred:
                                    return False
                                lx, ly = linform(l0, fct[1], symf), linform(l0, fct[2], symf)
                                # i against raw_data_len - 2, or against the header's own length byte: the same number once the extension by
                                # header_len + 2 - raw_data_len has succeeded (R1c demands exactly that at the read; R4g that it grows by that amount)
                                return lx is not None and ly is not None and lx.add(ly, -1) in (Lin(2, {idx[0]: 1, "rawlen": -1}), Lin(0, {idx[0]: 1, "hlen": -1}))
                            exits_ok = len(lp["exits"]) >= 1 and all(any(bound_ok(fct, "uge") for fct in F.edge_facts(b_, s_)) for (b_, s_) in lp["exits"])
                            read_ok = any(bound_ok(fct, "ult") for fct in F.at_inst(ld))
                            if not exits_ok or not read_ok:
                                detail = "loop bounds are not 'i < raw_data_len - 2' at the read / exit at 'i >= raw_data_len - 2'"
                            else:
                                ok, detail = True, "sum = fold of raw_data[2 + i], i in [0, raw_data_len - 2), masked to 8 bits, compared with raw_data[1]"
                                # R1c: the bytes are read after the extension succeeded
                                guarded_site(rep, rid_c, ctx, ld, [
                                    ("extend_raw_data(header, stream, header_len + 2 - raw_data_len) != NULL",
                                     ("ne", ("call", "extend_raw_data", [("param", 0), ("param", 1), ("bin", "sub", ("bin", "add", raw_at(0), 2), RAWLEN)]), 0))])
        rep.check(rid_b, ok, "checksum fold shape", "%s:%s" % (l0.file, l0.line), detail, function=l0.cname, obj="fold")


def presence_rules(rep, ctx, mod, cg, prefix=""):
    """name / path presence of every returned header (also the support rule behind C08's non-NULL string uses)"""
    rd = mod.fn("lha_file_header_read")
    # ---- R5: name / path presence -------------------------------------------------------
    rid = rep.rule(prefix + "R5", "a header is returned only if (not a directory entry and filename != NULL) or parse_symlink succeeded or path != NULL", 1)
    rep.need(rid, rd, "function lha_file_header_read")
    if rd:
        F = ctx.facts(rd)
        dirstr = ("str", b"-lhd-")
        tracked = {
            "is_dir": ("eq", ("call", "strcmp", [("gep", ("field", HDR, "compress_method", ANY), [0]), dirstr]), 0),
            "has_name": ("ne", hdr_field("filename"), 0),
            "has_path": ("ne", hdr_field("path"), 0),
            "symlink_ok": ("ne", ("call", "parse_symlink", [ANY]), 0),
        }
        ps = PathStates(rd, F, tracked, correlate=True, cap=4096)
        # locate the presence test: the edges labelled has_name / has_path / symlink_ok that lie after the dispatch
        for v, pb, b in success_edges(F, rd):
            sts = ps.on_edge(pb, b) if pb is not None else ps.at_block(b)
            bad = [s for s in sts if not ((refuted(s, "is_dir") and holds(s, "has_name")) or holds(s, "symlink_ok") or (holds(s, "is_dir") and holds(s, "has_path")))]
            rep.check(rid, not bad and bool(sts), "lha_file_header_read: presence rule on return via bb%s" % pb,
                      "%s:%s" % (rd.file, rd.blocks[pb if pb is not None else b].term.line()),
                      "states: %s" % show(sts)[:6] if not bad else "a path returns a header without the presence rule: %s" % show(bad)[:4],
                      function=rd.cname, obj="presence")
        # R5b: after the presence test nothing stores NULL-able values into filename/path except parse_symlink (checked separately)
        rid2 = rep.rule(prefix + "R5b", "after the presence test no callee other than parse_symlink writes the filename/path fields")
        test_edges = ps.labelled_edges({"has_name", "has_path", "symlink_ok"})
        after = blocks_reachable_from(rd, [s for _, s in test_edges])
        wr = cg.field_writers(HDR, "filename") | cg.field_writers(HDR, "path")
        # only calls that a successful return can follow matter (the failure exit releases the header, which writes every field)
        succ_from = {pb if pb is not None else b for _, pb, b in success_edges(F, rd)}
        for bb in sorted(after):
            if not (bb in succ_from or (blocks_reachable_from(rd, [bb]) & succ_from)):
                continue
            for ins in rd.blocks[bb].insts:
                if ins.op == "call" and ins.callee and not ins.callee.startswith("llvm.") and mod.callee_cname(ins) != "parse_symlink":
                    hit = cg.reachable([ins.callee]) & wr
                    rep.check(rid2, not hit, "call %s after the presence test leaves filename/path alone" % mod.callee_cname(ins),
                              ins.where(), "writers reachable: %s" % sorted(hit) if hit else None, function=rd.cname,
                              obj="%s" % mod.callee_cname(ins))
        # parse_symlink on success leaves filename non-NULL: filename = fullpath (non-NULL fact), split keeps/sets non-NULL
        rid3 = rep.rule(prefix + "R5c", "parse_symlink succeeds only with filename set to a non-NULL string", 1)
        psy = rep.need(rid3, mod.fn("parse_symlink"), "function parse_symlink")
        if psy:
            Mp = Matcher(psy)
            sts = stores_to_field(mod, HDR, "filename", [psy])
            ok = len(sts) == 1 and Mp.match(("call", "lha_file_header_full_path", [("param", 0)]), sts[0].ops[0], {}) is not None
            rep.check(rid3, ok, "filename = lha_file_header_full_path(header)", sts[0].where() if sts else psy.file, None, function=psy.cname, obj="store")
            if ok:
                guarded_site(rep, rid3, ctx, sts[0], [("fullpath != NULL", ("ne", ("call", "lha_file_header_full_path", [("param", 0)]), 0))])
            require_on_success(rep, rid3, ctx, psy, [("split_header_filename(header) != 0", ("ne", ("call", "split_header_filename", [("param", 0)]), 0))])
            sp = mod.fn("split_header_filename")
            if sp:
                for s in stores_to_field(mod, HDR, "filename", [sp]):
                    guarded_site(rep, rid3, ctx, s, [("strdup result != NULL", ("ne", ("call", "strdup", [ANY]), 0))])



def length_rules(rep, ctx, mod, cg, prefix=""):
    """the per-level length rules (also the guards behind C08's raw-data accesses: that check runs them too)"""
    l0 = mod.fn("decode_level0_header")
    # ---- R4: length rules ------------------------------------------------------------
    rid = rep.rule(prefix + "R4a", "level 0/1: success only with header_len >= min_len(level), full read, min_len + path_len <= header_len", 3)
    if l0:
        Fl0 = ctx.facts(l0)
        M0 = Matcher(l0)
        # min_len is a phi {22 under level 0, 25 under level 1}
        env = {}
        require_on_success(rep, rid, ctx, l0, [
            ("header_len >= min_len", ("uge", raw_at(0), ("bind", "minlen", ("or", ("phi",), ("const",))))),
            ("extend_raw_data(...) != NULL", ("ne", ("call", "extend_raw_data", [("param", 0), ("param", 1), ANY]), 0)),
        ])
        from ..lin import Lin, linform

        def per_level(o, sf0=None):
            """{level: constant} for a value that is a constant or a phi of constants selected by header_level"""
            seen = {}
            for s_, sf in Fl0.sources(o):
                val = const_val(s_) if is_const(s_) else None
                allf = set(sf) | set(sf0 or ())
                lv = [k for k in (0, 1) if M0.find_fact(("eq", hdr_field("header_level", HP), k), allf)[0] is not None]
                if not lv:                        # a source not tied to one level can be the value at either, unless its path excludes that level
                    lv = [k for k in (0, 1) if M0.find_fact(("ne", hdr_field("header_level", HP), k), allf)[0] is None]
                    # ... or pins the level to another constant (the case 2 / case 3 arms of a switch over all levels)
                    for f_ in allf:
                        if f_[0] == "eq" and is_const(f_[2]) and const_val(f_[2]) not in (None,) and M0.match(hdr_field("header_level", HP), f_[1], {}) is not None:
                            lv = [k for k in lv if k == const_val(f_[2])]
                for k in lv:
                    seen.setdefault(k, set()).add(val)
            # the value at a level is known only if every source that can reach it under that level is the same constant
            return {k: (next(iter(v)) if len(v) == 1 else None) for k, v in seen.items()}

        def symf(o):
            if M0.match(raw_at(21), o, {}) is not None:
                return "P"
            if M0.match(raw_at(0), o, {}) is not None:
                return "H"
            d_ = l0.defn(M0.strip(o))
            if d_ is not None and not d_.is_param and d_.op == "phi":
                return "m%d" % d_.id
            return None

        def path_rule(fs):
            """a fact equivalent to min_len + path_len <= header_len, in any linear spelling: returns the per-level min_len it uses"""
            for f in fs:
                if f[0] not in ("ule", "uge", "ult", "ugt"):
                    continue
                lx = linform(l0, f[1], symf) if not is_const(f[1]) else Lin(const_val(f[1]))
                ly = linform(l0, f[2], symf) if not is_const(f[2]) else Lin(const_val(f[2]))
                if lx is None or ly is None:
                    continue
                dlt = lx.add(ly, -1) if f[0] in ("ule", "ult") else ly.add(lx, -1)        # "small side" - "large side"
                strict = 1 if f[0] in ("ult", "ugt") else 0
                if dlt.t.get("P") != 1 or dlt.t.get("H") != -1:
                    continue
                ms = [k for k in dlt.t if k.startswith("m")]
                if len(ms) == 1 and dlt.t[ms[0]] == 1 and set(dlt.t) == {"P", "H", ms[0]}:
                    pl = per_level(("v", int(ms[0][1:])))
                    return {k: (v + dlt.c + strict if v is not None else None) for k, v in pl.items()}
                if not ms and set(dlt.t) == {"P", "H"}:
                    return {0: dlt.c + strict, 1: dlt.c + strict}
            return None
        # value of min_len per level
        for v, pb, b in success_edges(Fl0, l0)[:1]:
            fs = facts_for_success(Fl0, l0, v, pb, b)
            f, e = M0.find_fact(("uge", raw_at(0), ("bind", "minlen", ("or", ("phi",), ("const",)))), fs)
            if f is not None:
                got = per_level(e["minlen"])
                rep.check(rid, got == {0: 22, 1: 25}, "min_len is 22 for level 0 and 25 for level 1", l0.file, "recovered %s" % got,
                          function=l0.cname, obj="min_len")
        for v, pb, b in success_edges(Fl0, l0):
            fs = facts_for_success(Fl0, l0, v, pb, b)
            got2 = path_rule(fs)
            rep.check(rid, got2 == {0: 22, 1: 25}, "decode_level0_header: return via bb%s carries min_len + path_len <= header_len (in any linear spelling) with min_len 22 / 25" % (pb if pb is not None else b),
                      "%s:%s" % (l0.file, l0.blocks[pb if pb is not None else b].term.line()),
                      "the path-length rule found uses min_len %s" % got2 if got2 else "no fact relating path_len, header_len and the level's minimum on this return; facts: %s" % sorted(describe_fact(l0, x) for x in fs)[:8],
                      function=l0.cname, obj="path-rule")
    rid = rep.rule(prefix + "R4b", "level 1: success only if level-0 part, extended-header read and extended-header decode all succeeded", 3)
    l1 = rep.need(rid, mod.fn("decode_level1_header"), "function decode_level1_header")
    if l1:
        require_on_success(rep, rid, ctx, l1, [
            ("decode_level0_header != 0", ("ne", ("call", "decode_level0_header", [("param", 0), ("param", 1)]), 0)),
            ("read_l1_extended_headers != 0", ("ne", ("call", "read_l1_extended_headers", [("param", 0), ("param", 1)]), 0)),
            ("decode_extended_headers(header, raw_len_before - 2) != 0", ("ne", ("call", "decode_extended_headers", [("or", ("param", 0), ("load", ("param", 0))), ("bin", "sub", RAWLEN, 2)]), 0)),
        ])
    rid = rep.rule(prefix + "R4c", "level 2: success only with header_len >= 26, full read, extended-header chain from offset 24 accepted", 3)
    l2 = rep.need(rid, mod.fn("decode_level2_header"), "function decode_level2_header")
    if l2:
        hl = ("call", "lha_decode_uint16", [("gep", RAW, [0])])
        require_on_success(rep, rid, ctx, l2, [
            ("header_len >= 26", ("uge", hl, 26)),
            ("extend_raw_data(header, stream, header_len - raw_data_len) != NULL",
             ("ne", ("call", "extend_raw_data", [("param", 0), ("param", 1), ("bin", "sub", hl, RAWLEN)]), 0)),
            ("decode_extended_headers(header, 24) != 0", ("ne", ("call", "decode_extended_headers", [("or", ("param", 0), ("load", ("param", 0))), 24]), 0)),
        ])
    rid = rep.rule(prefix + "R4d", "level 3: success only with word size 4, base read to 32, header_len <= 1 MiB and >= bytes held, full read, chain from offset 28 accepted", 6)
    l3 = rep.need(rid, mod.fn("decode_level3_header"), "function decode_level3_header")
    if l3:
        hl = ("call", "lha_decode_uint32", [("gep", RAW, [24])])
        require_on_success(rep, rid, ctx, l3, [
            ("word size == 4", ("eq", ("call", "lha_decode_uint16", [("gep", RAW, [0])]), 4)),
            ("extend_raw_data(header, stream, 32 - raw_data_len) != NULL",
             ("ne", ("call", "extend_raw_data", [("param", 0), ("param", 1), ("bin", "sub", 32, RAWLEN)]), 0)),
            ("header_len <= 1 MiB", ("ule", hl, MiB)),
            ("header_len >= raw_data_len", ("uge", hl, RAWLEN)),
            ("extend_raw_data(header, stream, header_len - raw_data_len) != NULL",
             ("ne", ("call", "extend_raw_data", [("param", 0), ("param", 1), ("bin", "sub", hl, RAWLEN)]), 0)),
            ("decode_extended_headers(header, 28) != 0", ("ne", ("call", "decode_extended_headers", [("or", ("param", 0), ("load", ("param", 0))), 28]), 0)),
        ])
    rid = rep.rule(prefix + "R4e", "chain walker: an extended header is decoded only if field_size + 1 <= ext_len <= bytes available", 2)
    de = rep.need(rid, mod.fn("decode_extended_headers"), "function decode_extended_headers")
    if de:
        calls = list(de.calls("lha_ext_header_decode"))
        if not calls:
            rep.broken(rid, "no call to lha_ext_header_decode in decode_extended_headers")
        for c in calls:
            guarded_site(rep, rid, ctx, c, [
                ("ext_len >= field_size + 1", ("uge", ("bind", "len"), ("bin", "add", ("bind", "fs"), 1))),
                ("ext_len <= available_length", ("ule", ("bind", "len2"), ("bind", "avail"))),
            ])
        # success return only through the loop exits (zero length or offset past end), never from the reject edge
        F = ctx.facts(de)
        M = Matcher(de)
        for v, pb, b in success_edges(F, de):
            fs = facts_for_success(F, de, v, pb, b)
            bad, _ = M.find_fact(("ult", ANY, ("bin", "add", ANY, 1)), fs)
            bad2, _ = M.find_fact(("ugt", ("bind", "l"), ("bind", "a")), [f for f in fs if f[0] in ("ugt", "ult")
                                                                          and M.match(("or", ("call", "lha_decode_uint16"), ("call", "lha_decode_uint32"), ("bind", "p")), f[1], {}) is not None
                                                                          and de.defn(M.strip(f[1])) is not None and de.defn(M.strip(f[1])).op == "phi" and False])
            rep.check(rid, bad is None, "success return is not taken from the reject edge", de.file, None, function=de.cname, obj="reject")
    # R4e': the accepted extended header AND the size field that follows it lie inside the bytes held
    rid = rep.rule(prefix + "R4e2", "chain walker: at each decode call offset + ext_len + field_size <= raw_data_len (symbolic linear bounds: guard fact + conservation of available_length + offset)", 3)
    if de:
        from ..ir import Module as IRModule
        from ..range import Unit, Analysis, I
        from ..sym import Sym
        from ..rangedrv import generic_contracts
        hmod = ctx.inlined("header")
        hf = hmod.fn("lha_file_header_read")
        if rep.need(rid, hf, "inlined lha_file_header_read") is not None:
            Mh = Matcher(hf)
            unit = Unit(hmod)
            # A-size63: byte counts of allocated objects are below 2^62 (malloc cannot succeed otherwise)
            unit.given = {("LHAFileHeader", "raw_data_len"): (I(0, 1 << 62), "A-size63")}
            an = Analysis(hf, unit, generic_contracts(hmod, hf))
            an.run()
            an.narrow(3)
            sy = Sym(an, ctx.facts(hf), ideal=True)
            calls = [c for c in hf.insts() if c.op == "call" and c.callee is None and any(l.get("fn") == "decode_extended_headers" for l in c.loc)]
            if len(calls) < 3:
                rep.broken(rid, "expected the chain walker to be inlined at 3 sites (levels 1, 2, 3), found %d" % len(calls))
            for c in calls:
                e = Mh.match(("bin", "sub", ("bin", "sub", ("bind", "len"), ("bind", "fs")), 1), c.ops[2], {})
                e2 = Mh.match(("gep", ("gep", ("load", ("field", HDR, "raw_data", ANY)), [("bind", "idx")]), [1]), c.ops[1], {})
                rl = [f[2] for f in sy.F.at_inst(c) if f[0] in ("ule", "ult") and not is_const(f[2]) and
                      Mh.match(("bin", "sub", ("load", ("field", HDR, "raw_data_len", ANY)), ANY), f[2], {}) is not None]
                if e is None or e2 is None or not rl:
                    rep.violation(rid, "operands of the decode call recognised", c.where(), "cannot recover offset / ext_len / field_size / raw_data_len", function=de.cname, obj="operands")
                    continue
                rlen = Mh.match(("bin", "sub", ("bind", "rl", ("load", ("field", HDR, "raw_data_len", ANY))), ANY), rl[0], {})["rl"]
                # idx = offset + fs is where the type byte lives; the header occupies [idx - fs, idx - fs + ext_len)
                Ls = [sy.lin(e2["idx"], c), sy.lin(e["len"], c), sy.lin(rlen, c)]
                if any(x is None for x in Ls):
                    rep.violation(rid, "linear forms", c.where(), "not linear", function=de.cname, obj="linear")
                    continue
                tot = Ls[0].add(Ls[1]).add(Ls[2], -1)
                hi = sy.upper_lin(tot, c)
                rep.check(rid, hi <= 0, "(offset + field_size) + ext_len - raw_data_len <= 0 at the decode call (%s)" % c.where().split(" <- ")[-2 if " <- " in c.where() else -1][:60], c.where(),
                          "symbolic upper bound is %s: an accepted extended header may extend into (or past) the bytes needed for the next size field" % hi,
                          function=de.cname, obj="room-for-next-size")
            rep.assumptions.append("A-hdr32 (rule R4e2 only): offsets and lengths inside one header are reasoned about as mathematical integers, i.e. a single header's raw data is "
                                   "shorter than 4 GiB so that the 32-bit `offset` does not wrap")
    rid = rep.rule(prefix + "R4f", "level-1 extended headers: each must be covered by compressed_length and be at least 3 bytes; read failure rejects", 3)
    r1 = rep.need(rid, mod.fn("read_l1_extended_headers"), "function read_l1_extended_headers")
    if r1:
        F = ctx.facts(r1)
        M = Matcher(r1)
        sts = stores_to_field(mod, HDR, "compressed_length", [r1])
        if len(sts) != 1:
            rep.broken(rid, "expected exactly one store to compressed_length in read_l1_extended_headers, found %d" % len(sts))
        for s in sts:
            e = M.match(("bin", "sub", hdr_field("compressed_length", HP), ("bind", "len")), s.ops[0], {})
            rep.check(rid, e is not None, "compressed_length -= ext_header_len", s.where(), None, function=r1.cname, obj="sub")
            if e is not None:
                guarded_site(rep, rid, ctx, s, [
                    ("compressed_length >= ext_header_len", ("uge", hdr_field("compressed_length", HP), ("inst", e["len"][1]))),
                    ("extend_raw_data(header, stream, ext_header_len) != NULL", ("ne", ("call", "extend_raw_data", [("param", 0), ("param", 1), ("inst", e["len"][1])]), 0)),
                ])
                # the loop continues (back edge) only if ext_len >= 3
                for lp in r1.loops():
                    for latch in lp["latches"]:
                        fs = F.on_edge(latch, lp["header"])
                        f, _ = M.find_fact(("uge", ("inst", e["len"][1]), 3), fs)
                        rep.check(rid, f is not None, "next iteration only if ext_header_len >= 3",
                                  "%s:%s" % (r1.file, r1.blocks[latch].term.line()), None, function=r1.cname, obj="min3")
    rid = rep.rule(prefix + "R4g", "extend_raw_data fails unless the stream delivered all requested bytes, and only then grows raw_data_len by that amount", 2)
    ex = rep.need(rid, mod.fn("extend_raw_data"), "function extend_raw_data")
    if ex:
        from ..rules import require_on_success_alt
        rd_ok = ("lha_input_stream_read(stream, result, nbytes) != 0", ("ne", ("call", "lha_input_stream_read", [("param", 1), ANY, ("param", 2)]), 0))
        require_on_success_alt(rep, rid, ctx, ex, [
            ("all requested bytes delivered", None, [("nbytes <= 1 MiB", ("ule", ("param", 2), MiB)), rd_ok]),
            ("nothing requested (nbytes == 0: the header is complete as it stands)", None, [("nbytes == 0", ("eq", ("param", 2), 0))]),
        ])
        for s in stores_to_field(mod, HDR, "raw_data_len", [ex]):
            guarded_site(rep, rid, ctx, s, [("stream read succeeded", ("ne", ("call", "lha_input_stream_read", [("param", 1), ANY, ("param", 2)]), 0))])


def run(tier, seed):
    rep = Report("C12", tier, "other",
                 "Static path analysis (available-facts dataflow and path states over the SSA control-flow graph of "
                 "lib/lha_file_header.c, lib/ext_header.c, lib/lha_basic_reader.c): every path to a successful header "
                 "return crosses the level-0/1 checksum comparison, the common-CRC comparison (when the flag is set), the "
                 "per-level length rules, the level dispatch and the name/path presence rule; the first failing header "
                 "sets the sticky end-of-archive flag, and a NULL return of the basic reader leaves no current entry behind. Decides the wiring of the checks for all inputs at once; does not "
                 "decide the sufficiency of the numeric constants of the length rules.")
    with Context(tier) as ctx:
        from .. import selfcheck
        selfcheck.run(ctx, rep, ['facts'])
        mod = ctx.plain()
        rep.analysed = {"view": "plain", "functions": len(mod.defined()), "units": len(ctx.views.units)}
        cg = CallGraph(mod)

        # ---- R1: level-0/1 checksum ------------------------------------------
        l0 = rep.need(rep.rule("R1", "decode_level0_header returns success only if ((sum of raw_data[2 .. raw_data_len)) & 0xff) == raw_data[1]", 1), mod.fn("decode_level0_header"), "function decode_level0_header")
        if l0:
            check_fold(rep, ctx, mod, l0)

        # ---- R2: common CRC ---------------------------------------------------
        rid = rep.rule("R2", "lha_file_header_read returns a header only across '(extra_flags & COMMON_CRC) == 0' or 'CRC-16 accumulator == header->common_crc'")
        rd = rep.need(rid, mod.fn("lha_file_header_read"), "function lha_file_header_read")
        if rd:
            F = ctx.facts(rd)
            flag_pat = ("ne", ("bin", "and", hdr_field("extra_flags"), COMMON_CRC_FLAG), 0)
            tracked = {
                "flag": flag_pat,
                # the comparison itself (the helper that wraps it, if any, is folded into this function by the normalised view);
                # what the accumulator holds is checked under R2c for every instance that is relied on
                "crc_ok": ("eq", ("load", ("bind", "acc")), hdr_field("common_crc")),
                "crc_ok_": ("eq", hdr_field("common_crc"), ("load", ("bind", "acc"))),
            }
            ps = PathStates(rd, F, tracked, correlate=True, cap=4096)
            ses = success_edges(F, rd)
            if not ses:
                rep.broken(rid, "lha_file_header_read has no non-NULL return")
            for v, pb, b in ses:
                sts = ps.on_edge(pb, b) if pb is not None else ps.at_block(b)
                bad = [s for s in sts if not (refuted(s, "flag") or holds(s, "crc_ok") or holds(s, "crc_ok_"))]
                rep.check(rid, not bad and bool(sts), "lha_file_header_read: non-NULL return via bb%s" % pb,
                          "%s:%s" % (rd.file, rd.blocks[pb if pb is not None else b].term.line()),
                          "path states at return: %s" % show(sts) if not bad else
                          "a path reaches the successful return with neither the flag clear nor the CRC verified: %s" % show(bad),
                          function=rd.cname, obj="common_crc")
            # R2b: nothing after the flag test can set the flag or change the bytes/CRC compared
            rid2 = rep.rule("R2b", "after the common-CRC test nothing on the way to the successful return writes extra_flags' CRC bit, common_crc, raw_data or raw_data_len")
            test_edges = ps.labelled_edges({"flag", "crc_ok", "crc_ok_"})
            after = blocks_reachable_from(rd, [s for _, s in test_edges])
            writers = {}
            for fld in ("common_crc", "raw_data", "raw_data_len"):
                writers[fld] = cg.field_writers(HDR, fld)
            # functions that can set the COMMON_CRC bit: stores to extra_flags whose value may have bit 2 set
            flag_setters = set()
            for st in stores_to_field(mod, HDR, "extra_flags"):
                Ms = Matcher(st.fn)
                e = Ms.match(("bin", "or", ANY, ("bind", "c")), st.ops[0], {})
                if e is not None and is_const(e["c"]) and not (const_val(e["c"]) & COMMON_CRC_FLAG):
                    continue
                flag_setters.add(st.fn.name)
            writers["extra_flags(COMMON_CRC)"] = flag_setters
            n = 0
            for b in sorted(after):
                for ins in rd.blocks[b].insts:
                    if ins.op == "call" and ins.callee and not ins.callee.startswith("llvm."):
                        reach = cg.reachable([ins.callee])
                        for fld, ws in writers.items():
                            n += 1
                            hit = reach & ws
                            rep.check(rid2, not hit, "call %s after the CRC test does not write %s" % (mod.callee_cname(ins), fld),
                                      ins.where(), "writers reachable: %s" % sorted(hit) if hit else None,
                                      function=rd.cname, obj="%s:%s" % (mod.callee_cname(ins), fld))
                    if ins.op == "store":
                        for fld in ("common_crc", "raw_data", "raw_data_len"):
                            if ins in stores_to_field(mod, HDR, fld, [rd]):
                                rep.violation(rid2, "store to %s after the CRC test" % fld, ins.where(), "direct store", function=rd.cname, obj=fld)
            if not test_edges:
                rep.broken(rid2, "no common-CRC test edge found")

        # the accumulator compared with common_crc
        rid = rep.rule("R2c", "the value compared with common_crc, at full 16-bit width, is a local accumulator set to 0 and then run through lha_crc16_buf over "
                              "(header->raw_data, header->raw_data_len), with no other writer")
        if rd:
            M = Matcher(rd)
            F = ctx.facts(rd)
            cmps = []
            for blk in rd.blocks:
                for s_ in blk.succs:
                    for f in F.edge_facts(blk.id, s_):
                        for x, y in ((f[1], f[2]), (f[2], f[1])):
                            if f[0] == "eq" and not is_const(x) and not is_const(y) and M.match(hdr_field("common_crc"), y, {}) is not None and M.match(("load", ANY), x, {}) is not None:
                                cmps.append((f, x, y, blk))
            seen = set()
            if not cmps:
                rep.broken(rid, "no comparison with header->common_crc found in lha_file_header_read")
            for f, x, y, blk in cmps:
                key = (M.strip(x), M.strip(y))
                if key in seen:
                    continue
                seen.add(key)
                ok, detail = False, "shape not recognised"
                wa, oa = min_width_through_casts(rd, x)
                wb, ob = min_width_through_casts(rd, y)
                ld = rd.defn(oa)
                acc = rd.defn(M.strip(ld.ops[0], ("bitcast",))) if ld is not None and not ld.is_param and ld.op == "load" else None
                if wa != 16 or wb != 16:
                    detail = "comparison is narrower than 16 bits (%s/%s)" % (wa, wb)
                elif acc is None or acc.is_param or acc.op != "alloca":
                    detail = "CRC accumulator is not a local"
                else:
                    calls = [c for c in rd.calls("lha_crc16_buf") if M.match(("inst", acc.id), c.ops[0], {}) is not None]
                    good = [c for c in calls if M.match(hdr_field("raw_data"), c.ops[1], {}) is not None and M.match(hdr_field("raw_data_len"), c.ops[2], {}) is not None]
                    sts = [s2 for s2 in rd.insts() if s2.op == "store" and M.strip(s2.ops[1], ("bitcast",)) == ("v", acc.id)]

                    def before(a_, b_):
                        return (a_.block.id == b_.block.id and a_.idx < b_.idx) or (a_.block.id != b_.block.id and rd.dominates(a_.block.id, b_.block.id))
                    if len(calls) != 1 or len(good) != 1:
                        detail = "lha_crc16_buf is not called exactly once on this accumulator over (header->raw_data, header->raw_data_len)"
                    elif not before(good[0], ld):
                        detail = "the checksum call does not dominate the comparison"
                    elif len(sts) != 1 or not is_const(sts[0].ops[0]) or const_val(sts[0].ops[0]) != 0 or not before(sts[0], good[0]):
                        detail = "accumulator is not initialised to 0 before the call"
                    else:
                        others = [u for u in rd.users(acc.id) if u not in (good[0], sts[0]) and u.id != ld.id and not (u.op == "bitcast" and all(
                            (w.op == "call" and (w.callee or "").startswith("llvm.lifetime")) for w in rd.users(u.id)))]
                        if others:
                            detail = "accumulator has other users: %s" % [o.where() for o in others][:3]
                        else:
                            ok, detail = True, "crc(raw_data[0..raw_data_len)) from 0, compared == common_crc at i16"
                rep.check(rid, ok, "common-CRC comparison shape", "%s:%s" % (rd.file, blk.term.line()), detail, function=rd.cname, obj="compare")

        # ext_header_common_decoder: sets the flag, stores the decoded word, zeroes the two bytes
        rid = rep.rule("R2d", "the common extended header decoder sets the COMMON_CRC flag, stores the 16-bit word at data[0..1] and zeroes those bytes", 4)
        cd = rep.need(rid, mod.fn("ext_header_common_decoder"), "function ext_header_common_decoder")
        if cd:
            M = Matcher(cd)
            sts = stores_to_field(mod, HDR, "extra_flags", [cd])
            ok = any(M.match(("bin", "or", hdr_field("extra_flags", ("param", 0)), COMMON_CRC_FLAG), s.ops[0], {}) is not None for s in sts)
            rep.check(rid, ok, "extra_flags |= LHA_FILE_COMMON_CRC", cd.file, None, function=cd.cname, obj="flag")
            sts = stores_to_field(mod, HDR, "common_crc", [cd])
            ok = len(sts) == 1 and M.match(("call", "lha_decode_uint16", [("param", 1)]), sts[0].ops[0], {}) is not None \
                and min_width_through_casts(cd, sts[0].ops[0])[0] >= 16
            rep.check(rid, ok, "common_crc = lha_decode_uint16(data)", cd.file, None, function=cd.cname, obj="common_crc")
            for off in (0, 1):
                z = [s for s in cd.insts() if s.op == "store" and const_val(s.ops[0]) == 0 and is_const(s.ops[0]) and
                     M.match(("gep", ("param", 1), [off]), s.ops[1], {}) is not None]
                rep.check(rid, len(z) >= 1, "data[%d] = 0" % off, cd.file, None, function=cd.cname, obj="zero%d" % off)
            # ... and each of them on EVERY path to a successful return: a flag set only for some values of the stored word leaves the other
            # headers without the comparison R2 relies on
            Fc = ctx.facts(cd)

            # the decoder is only ever entered with data_len >= its registry minimum (C08 R2 / the dispatcher's own test): edges taken under
            # `data_len < k` for k up to that minimum are not ways the decoder can run
            from ..exthdr import registry_entries
            try:
                minlen = max([ml_ for (num_, dec_, ml_) in (registry_entries(mod) or []) if dec_ in (cd.name, cd.cname)] or [2])
            except Exception:
                minlen = 2
            short = set()
            for b_ in cd.blocks:
                for x_ in b_.succs:
                    for f_ in Fc.edge_facts(b_.id, x_):
                        if f_[0] in ("ult", "ule") and M.match(("param", 2), f_[1], {}) is not None and is_const(f_[2]) and \
                                (const_val(f_[2]) or 0) + (1 if f_[0] == "ule" else 0) <= minlen:
                            short.add((b_.id, x_))

            def skippable(st):
                cut = {(st.block.id, x) for x in cd.blocks[st.block.id].succs} | short
                for v_, pb_, b_ in success_edges(Fc, cd):
                    tgt = pb_ if pb_ is not None else b_
                    if st.block.id == tgt:
                        continue
                    if Fc.reaches_avoiding(0, tgt, cut) and st.block.id != 0:
                        return (pb_, b_)
                return None
            fl = [s_ for s_ in stores_to_field(mod, HDR, "extra_flags", [cd])
                  if M.match(("bin", "or", hdr_field("extra_flags", ("param", 0)), COMMON_CRC_FLAG), s_.ops[0], {}) is not None]
            zs = [s_ for s_ in cd.insts() if s_.op == "store" and is_const(s_.ops[0]) and const_val(s_.ops[0]) == 0 and
                  any(M.match(("gep", ("param", 1), [off]), s_.ops[1], {}) is not None for off in (0, 1))]
            for what, group in (("extra_flags |= LHA_FILE_COMMON_CRC", fl), ("common_crc = ...", stores_to_field(mod, HDR, "common_crc", [cd]))):
                # (skipping the zeroing can only make a valid header fail its comparison: not a matter for this property)
                for st in group:
                    sk = skippable(st)
                    rep.check(rid, sk is None, "%s happens on every path to a successful return" % what, st.where(),
                              None if sk is None else "the successful return via %s -> %s is reachable without this store" % sk, function=cd.cname, obj="always:" + what[:12])
            # the bytes zeroed are inside the header's raw data: the decoder is handed a pointer into raw_data
            # (decode_extended_headers passes ext_header + 1) - checked in R4e below.

        # ---- R3: level dispatch ---------------------------------------------------
        rid = rep.rule("R3", "the status tested by lha_file_header_read is the result of the level-k decoder under header_level == k, else 0", 5)
        if rd:
            F = ctx.facts(rd)
            M = Matcher(rd)
            # find the status value: the operand X of the fact 'X != 0' on the success path that has decoder calls as sources
            status = None
            for v, pb, b in success_edges(F, rd):
                for f in facts_for_success(F, rd, v, pb, b):
                    if f[0] == "ne" and is_const(f[2]) and const_val(f[2]) == 0:
                        srcs = F.sources(f[1])
                        if any(M.match(("call", "decode_level0_header"), s, {}) is not None for s, _ in srcs):
                            status = f[1]
                if status is None:
                    rep.violation(rid, "successful return tests the decoder status", "%s:%s" % (rd.file, rd.line),
                                  "a non-NULL return does not carry 'status != 0'", function=rd.cname, obj="status")
            if status is not None:
                seen_levels = set()
                for s, fs in F.sources(status):
                    if is_const(s):
                        rep.check(rid, const_val(s) == 0, "constant status source is 0", rd.file, "const %s" % const_val(s),
                                  function=rd.cname, obj="const")
                        continue
                    lvl = None
                    for k in range(4):
                        if M.match(("call", "decode_level%d_header" % k, [ANY, ("param", 0)]), s, {}) is not None:
                            lvl = k
                    if lvl is None:
                        rep.violation(rid, "status source is a level decoder", rd.file, describe(rd, s), function=rd.cname, obj="source")
                        continue
                    f, _ = M.find_fact(("eq", ("or", hdr_field("header_level"), ("bind", "x", ANY)), lvl), fs)
                    # the switch operand must be the header_level field
                    f2, _ = M.find_fact(("eq", hdr_field("header_level"), lvl), fs)
                    seen_levels.add(lvl)
                    rep.check(rid, f2 is not None, "decode_level%d_header called under header_level == %d" % (lvl, lvl),
                              rd.defn(s).where(), describe_fact(rd, f2) if f2 else "facts: %s" % sorted(describe_fact(rd, x) for x in fs),
                              function=rd.cname, obj="level%d" % lvl)
                rep.check(rid, seen_levels == {0, 1, 2, 3}, "levels dispatched", rd.file, "levels %s" % sorted(seen_levels),
                          function=rd.cname, obj="levels")
            # header_level field is the byte at offset 20 of the first chunk
            rid3 = rep.rule("R3b", "header_level is raw_data[20], read after the first 22 bytes were read successfully")
            sts = stores_to_field(mod, HDR, "header_level", [rd])
            rep.check(rid3, len(sts) == 1 and M.match(("load", ("gep", ("load", ("field", HDR, "raw_data", ANY)), [20])), sts[0].ops[0], {}) is not None,
                      "header_level = raw_data[20]", sts[0].where() if sts else rd.file, None, function=rd.cname, obj="header_level")
            for s in sts:
                guarded_site(rep, rid3, ctx, s, [("lha_input_stream_read(stream, raw_data, raw_data_len) != 0",
                                                 ("ne", ("call", "lha_input_stream_read", [("param", 0), ANY, ANY]), 0))])

        length_rules(rep, ctx, mod, cg)

        presence_rules(rep, ctx, mod, cg)

        # ---- R6: sticky end of iteration -----------------------------------------------------
        rid = rep.rule("R6", "lha_basic_reader_next_file: a failed header read sets eof = 1 before returning NULL; eof != 0 returns NULL before any read", 3)
        nf = rep.need(rid, mod.fn("lha_basic_reader_next_file"), "function lha_basic_reader_next_file")
        if nf:
            F = ctx.facts(nf)
            M = Matcher(nf)
            BR = "LHABasicReader"
            calls = list(nf.calls("lha_file_header_read"))
            if len(calls) != 1:
                rep.broken(rid, "expected one call to lha_file_header_read, found %d" % len(calls))
            for c in calls:
                guarded_site(rep, rid, ctx, c, [("reader->eof == 0", ("eq", ("load", ("field", BR, "eof", ("param", 0))), 0))])
                # no store to eof between the test and the call that could invalidate the fact: the loaded value must be loaded
                # after every store to eof that can precede it
                eof_stores = stores_to_field(mod, BR, "eof", [nf])
                f, _ = M.find_fact(("eq", ("load", ("field", BR, "eof", ("param", 0))), 0), F.at_inst(c))
                if f is not None:
                    ld = nf.defn(M.strip(f[1]))
                    for s in eof_stores:
                        # a store that can execute after the load and before the call?
                        after_ld = blocks_reachable_from(nf, [ld.block.id])
                        before_call = s.block.id in after_ld and c.block.id in blocks_reachable_from(nf, [s.block.id]) and not (
                            s.block.id == ld.block.id and s.idx < ld.idx)
                        rep.check(rid, not before_call, "no store to eof between its test and the header read", s.where(), None,
                                  function=nf.cname, obj="eof-window")
                # the NULL edge: every path from 'result == NULL' to a return passes a store eof = 1
                res = ("v", c.id)
                null_edges = F.edges_with_fact(("eq", ("inst", c.id), 0))
                # the result is stored to curr_file and re-loaded; accept the fact on the re-loaded value too
                null_edges |= F.edges_with_fact(("eq", ("load", ("field", BR, "curr_file", ("param", 0))), 0))
                null_edges = {e for e in null_edges if nf.dominates(c.block.id, e[0])}
                if not null_edges:
                    rep.broken(rid, "no NULL test of the header read result")
                ones = [s for s in eof_stores if const_val(s.ops[0]) == 1]
                for (p, s) in null_edges:
                    # remove blocks that store eof=1, then a ret must not be reachable from s
                    blocked = {st.block.id for st in ones}
                    seen, work, leak = set(), [s], False
                    while work:
                        x = work.pop()
                        if x in seen or x in blocked:
                            continue
                        seen.add(x)
                        if nf.blocks[x].term.op == "ret":
                            leak = True
                        work.extend(nf.blocks[x].succs)
                    rep.check(rid, not leak, "NULL header -> eof = 1 before return", "%s:%s" % (nf.file, nf.blocks[p].term.line()),
                              None, function=nf.cname, obj="eof-set")
                    # and the value returned on that path is NULL
                for v, pb, b in success_edges(F, nf):
                    fs = facts_for_success(F, nf, v, pb, b)
                    f, _ = M.find_fact(("ne", ("or", ("inst", c.id), ("load", ("field", BR, "curr_file", ("param", 0)))), 0), fs)
                    rep.check(rid, f is not None, "non-NULL return only with a non-NULL header", nf.file, None, function=nf.cname, obj="ret")
            # all stores to eof anywhere are the constant 1 (sticky), apart from the constructor's 0
            rid2 = rep.rule("R6b", "eof is sticky: the only values ever stored are 0 in the constructor and 1 elsewhere", 3)
            for s in stores_to_field(mod, BR, "eof"):
                v = const_val(s.ops[0]) if is_const(s.ops[0]) else None
                okv = (v == 1) or (v == 0 and s.fn.cname == "lha_basic_reader_new")
                rep.check(rid2, okv, "store eof = %s in %s" % (v, s.fn.cname), s.where(), None, function=s.fn.cname, obj="eof")
        end_consistency_rules(rep, ctx, mod)
    return rep.finish(seed)


def end_consistency_rules(rep, ctx, mod, prefix=""):
    """What lha_basic_reader_next_file returns is what lha_basic_reader_curr_file will report: the reader above re-reads the current
    entry through that accessor, so a NULL return that leaves the old entry in place would hand the same member out again for ever."""
    BR = "LHABasicReader"
    rid = rep.rule(prefix + "R6c", "lha_basic_reader_next_file returns what it leaves in reader->curr_file: a NULL return is reached only with curr_file NULL, "
                                   "a non-NULL return is the value of curr_file", 2)
    nf = rep.need(rid, mod.fn("lha_basic_reader_next_file"), "function lha_basic_reader_next_file")
    if not nf:
        return
    F = ctx.facts(nf)
    M = Matcher(nf)
    cur = ("load", ("field", BR, "curr_file", ("param", 0)))
    sts = stores_to_field(mod, BR, "curr_file", [nf])
    null_st = [s_ for s_ in sts if is_const(s_.ops[0]) and const_val(s_.ops[0]) == 0]
    for r in rets(nf):
        seen_null = False
        for v, fs in F.sources(r.ops[0]):
            if is_const(v) and const_val(v) == 0:
                if seen_null:
                    continue
                seen_null = True
                # every path to this return crosses 'curr_file == NULL' or a store of NULL, and no store of something else follows on the way
                cut = F.edges_with_fact(("eq", cur, 0))
                for s_ in null_st:
                    cut |= {(s_.block.id, t) for t in s_.block.succs}
                # the return's own phi edge: find the predecessor blocks through which the constant flows
                preds = [pb for (vv, pb) in (nf.defn(r.ops[0]).incoming if nf.defn(r.ops[0]) is not None and not nf.defn(r.ops[0]).is_param and nf.defn(r.ops[0]).op == "phi" else [])
                         if is_const(vv) and const_val(vv) == 0] or [r.block.id]
                bad = [pb for pb in preds if (pb == 0 and not any(s_.block.id == 0 for s_ in null_st)) or (pb != 0 and F.reaches_avoiding(0, pb, cut)
                                                                                                          and not any(s_.block.id == pb for s_ in null_st))]
                rep.check(rid, not bad, "NULL is returned only after curr_file was found or made NULL", "%s:%s" % (nf.file, nf.blocks[preds[0]].term.line()),
                          "a NULL return is reachable (via bb%s) while reader->curr_file may still hold the previous entry" % bad if bad else None,
                          function=nf.cname, obj="null-return")
            else:
                ok = M.match(cur, v, {}) is not None
                if not ok:
                    # ... or the very value that was stored into curr_file on the way (and nothing else stored after it)
                    for s_ in sts:
                        dv = nf.defn(M.strip(v))
                        # the store follows the definition of the value in its own block (so every path carrying the value has passed it), or dominates the return
                        if M.strip(s_.ops[0]) != M.strip(v) or not (nf.dominates(s_.block.id, r.block.id) or
                                                                    (dv is not None and not dv.is_param and dv.block.id == s_.block.id)):
                            continue
                        after = blocks_reachable_from(nf, list(nf.blocks[s_.block.id].succs))
                        later = [x for x in sts if x is not s_ and (x.block.id in after or (x.block.id == s_.block.id and
                                 nf.blocks[x.block.id].insts.index(x) > nf.blocks[x.block.id].insts.index(s_)))]
                        if not later:
                            ok = True
                rep.check(rid, ok, "a non-NULL return value is reader->curr_file", nf.file, describe(nf, v), function=nf.cname, obj="value-return")
