"""C16 - same members from file, pipe or callbacks, and after a self-extractor prefix (claimed IN PART: the window discipline).

"members(P + A) == members(A)" is an equality over inputs, but three clauses of it are in the shape of the code of
lib/lha_input_stream.c, and the tests sample them at seven prefix lengths only:
 R1 window     the self-extractor scan tests position i of the lead-in buffer only while i + K < leadin_len, with K at least the
               largest byte offset examined at a position (signature bytes, marker strings): no byte that was not delivered is
               looked at, whatever the refill boundaries;
 R1b discard   when a round of the scan ends, the bytes dropped from the front of the buffer, the bytes counted into the file
               position and the number of positions tested are one and the same value; on a match the bytes dropped are exactly
               those before the matching position (the header start stays in the buffer);
 R1c refill    each round appends at leadin + leadin_len at most capacity - leadin_len bytes and adds the delivered count;
 R2 replay     lha_input_stream_read hands out min(request, leadin_len) buffered bytes at offset 0 of the caller's buffer, drops
               exactly those, reads the remainder from the source right behind them, and succeeds iff the request was filled;
 R3 skip       the read-based skip subtracts what each read delivered from the remaining count, never asks for more than remains,
               fails on a short source and succeeds only at zero; the FILE* skip seeks by exactly the requested count relative to
               the current position, and its fallback reads min(remaining, buffer) and subtracts what it demanded to be delivered;
 R4 stdin      the tool opens "-" as standard input and every other name read-only.
NOT decided (stated plainly): which byte patterns count as a signature or a marker (value semantics of file_header_match), the decoy
counter, the 256 KiB limit as a number (C13 R4), and the equality of member sequences as such.
"""
from ..context import Context
from ..report import Report
from ..facts import Facts, Matcher, ANY, is_const, const_val, describe, describe_fact
from ..rules import stores_to_field, rets
from ..ir import field_of_gep

STR = "LHAInputStream"


def move_always_precedes(fn, F, M, start_block, store, moves, lenpat):
    """every path from start_block to the store of the new leadin_len passes a memmove of the remaining bytes - or an edge on which nothing
    remains (dropped count == leadin_len), where there is nothing to move.  A guard that skips the move while a byte is left replays a stale
    byte as the first byte of the next read."""
    cut = set()
    for mv in moves:
        if mv.block.id == store.block.id and mv.idx < store.idx:
            return True
        cut |= {(mv.block.id, x) for x in fn.blocks[mv.block.id].succs}
    for b in fn.blocks:
        for x in b.succs:
            for f in F.edge_facts(b.id, x):
                # n == leadin_len, n >= leadin_len : nothing left over
                if f[0] in ("eq", "uge") and M.match(lenpat, f[2], {}) is not None and not is_const(f[1]):
                    cut.add((b.id, x))
                if f[0] in ("eq", "ule") and M.match(lenpat, f[1], {}) is not None and not is_const(f[2]):
                    cut.add((b.id, x))
    if start_block == store.block.id:
        return False
    return not F.reaches_avoiding(start_block, store.block.id, cut)


class Lin:
    """integer operand as {atom operand: coeff} + const (atoms: SSA values that are not +/- const or widenings)"""

    def __init__(self, fn):
        self.fn = fn

    def of(self, o, depth=0):
        if o[0] in ("ci", "null"):
            c = const_val(o)
            if c is None:
                return None
            if c >= (1 << 63):
                c -= (1 << 64)
            return ({}, c)
        d = self.fn.defn(o)
        if d is None or depth > 16:
            return None
        if d.is_param:
            return ({("v", d.id): 1}, 0)
        if d.op in ("zext", "sext", "trunc", "bitcast"):
            return self.of(d.ops[0], depth + 1)
        if d.op in ("add", "sub"):
            a, b = self.of(d.ops[0], depth + 1), self.of(d.ops[1], depth + 1)
            if a is None or b is None:
                return None
            sg = 1 if d.op == "add" else -1
            co = dict(a[0])
            for k, v in b[0].items():
                co[k] = co.get(k, 0) + sg * v
            c = a[1] + sg * b[1]
            if isinstance(c, int) and c >= (1 << 31) and d.ty == "i32":
                c -= (1 << 32)
            return ({k: v for k, v in co.items() if v}, c)
        if d.op in ("phi", "select") and depth < 8:
            x = self._identity_clamp(d)
            if x is not None:
                return self.of(x, depth + 1)
        return ({("v", d.id): 1}, 0)

    # -- `if (n > stream->leadin_len) n = stream->leadin_len;` where n can be shown not to exceed the buffered count: the clamp never binds ----
    def _is_leadin_len(self, o):
        M = Matcher(self.fn)
        return M.match(("load", ("field", "_LHAInputStream", "leadin_len", ANY)), o, {}) is not None or \
            M.match(("load", ("field", "LHAInputStream", "leadin_len", ANY)), o, {}) is not None

    def _le_leadin(self, x, at_block, depth=0):
        """x <= leadin_len wherever at_block runs: x is itself min(.., leadin_len); a fact x + c < leadin_len (c >= 0) holds there; or x is a
        counter that starts at 0 and is raised by one only on edges carrying such a fact for its previous value"""
        fn = self.fn
        M = Matcher(fn)
        if getattr(self, "_F", None) is None:
            self._F = Facts(fn)
        F = self._F
        if is_const(x):
            return const_val(x) == 0
        for f in F.at_block(at_block):
            if f[0] in ("ult", "ule") and self._is_leadin_len(f[2]):
                l = self.of(f[1], 9)
                lx = self.of(x, 9)
                if l is not None and lx is not None and l[0] == lx[0] and l[1] - lx[1] >= 0:
                    return True
        d = fn.defn(M.strip(x))
        if d is None or d.is_param or depth > 3:
            return False
        if d.op in ("phi", "select"):
            vals = [(v, pb) for v, pb in d.incoming] if d.op == "phi" else [(v, None) for v in d.ops[1:]]
            # min shape: one arm is leadin_len itself
            if any(self._is_leadin_len(v) for v, _ in vals) and len(vals) == 2:
                return True
            ok = True
            for v, pb in vals:
                if is_const(v) and const_val(v) == 0:
                    continue
                e = M.match(("bin", "add", ("inst", d.id), ("bind", "c", ("const",))), v, {})
                if e is not None and pb is not None and const_val(e["c"]) == 1:
                    fs = F.on_edge(pb, d.block.id)
                    good = False
                    for f in fs:
                        if f[0] == "ult" and self._is_leadin_len(f[2]):
                            l = self.of(f[1], 9)
                            if l is not None and l[0] == {("v", d.id): 1} and l[1] >= 0:
                                good = True
                    if good:
                        continue
                ok = False
            return ok
        return False

    def _identity_clamp(self, d):
        """d = min(x, leadin_len) written as a select or a two-armed phi, with x <= leadin_len known: x"""
        vals = [v for v, _ in d.incoming] if d.op == "phi" else d.ops[1:]
        if len(vals) != 2:
            return None
        ls = [v for v in vals if self._is_leadin_len(v)]
        xs = [v for v in vals if not self._is_leadin_len(v)]
        if len(ls) != 1 or len(xs) != 1:
            return None
        blk = d.block.id
        if d.op == "phi":
            # judged where the two arms part: the nearest common dominator of the incoming edges is the clamp's own test
            preds = [pb for _, pb in d.incoming]
            doms = [b.id for b in self.fn.blocks if all(self.fn.dominates(b.id, pb) for pb in preds)]
            if doms:
                blk = max(doms, key=lambda b: sum(1 for x_ in self.fn.blocks if self.fn.dominates(x_.id, b)))
        return xs[0] if self._le_leadin(xs[0], blk) else None

    def addr(self, o, depth=0):
        """pointer operand as (root, Lin offset in elements of an i8 walk): root = ('field', S, f) for &obj->f[0], ('v', id) otherwise"""
        d = self.fn.defn(o)
        if d is None or depth > 16:
            return None
        if d.is_param:
            return (("v", d.id), ({}, 0))
        if d.op == "bitcast":
            return self.addr(d.ops[0], depth + 1)
        if d.op == "getelementptr":
            fo = field_of_gep(self.fn.mod, d)
            steps = d.steps or []
            if fo is not None:
                return (("field",) + fo, ({}, 0))
            base = self.addr(d.ops[0], depth + 1)
            if base is None:
                return None
            co, c = dict(base[1][0]), base[1][1]
            for s in steps:
                if "idx" in s:
                    l = self.of(s["idx"])
                    if l is None:
                        return None
                    for k, v in l[0].items():
                        co[k] = co.get(k, 0) + v
                    c += l[1]
                else:
                    return None
            return (base[0], ({k: v for k, v in co.items() if v}, c))
        return (("v", d.id), ({}, 0))


def run(tier, seed):
    rep = Report("C16", tier, "other",
                 "Static analysis of lib/lha_input_stream.c on its fully inlined form (claimed in part): the self-extractor scan examines position i of the lead-in "
                 "buffer only while i + K < leadin_len with K at least the largest byte offset it reads at a position, so no undelivered byte is looked at wherever the "
                 "refill boundaries fall; at the end of a round the bytes dropped, the bytes counted into the file position and the positions tested are the same value, "
                 "and on a match exactly the bytes before the matching position are dropped; each refill appends capacity - leadin_len bytes at leadin + leadin_len; the "
                 "buffered bytes are replayed first, at offset 0, min(request, leadin_len) of them, the source read continues right behind them and the call succeeds iff "
                 "the request was filled; the read-based and the FILE* skip consume exactly the requested count or fail; the seek offset reaches fseek without passing a type narrower than long; a marker literal is compared over exactly its length; '-' opens standard input. Decides these necessary "
                 "conditions for every prefix length at once; does not decide which byte patterns are signatures or markers, the decoy counter, or the equality of member "
                 "sequences as such.")
    with Context(tier) as ctx:
        from .. import selfcheck
        selfcheck.run(ctx, rep, ['facts'])
        imod = ctx.inlined("stream")
        rep.analysed = {"view": "inlined unit lib/lha_input_stream.c + plain view for src/main.c", "functions": len(imod.defined())}
        fn = imod.fn("lha_input_stream_read")
        rid = rep.rule("R1", "scan window: position i is examined only while i + K < leadin_len, K >= the largest offset read at a position; marker strings are compared in full", 4)
        rep.need(rid, fn, "function lha_input_stream_read")
        scan = None
        if fn:
            F, M, L = ctx.facts(fn), Matcher(fn), Lin(fn)
            lenld = ("load", ("field", STR, "leadin_len", ANY))
            for lp in sorted(fn.loops(), key=lambda l: len(l["body"])):
                hdr = fn.blocks[lp["header"]]
                for p in [i for i in hdr.insts if i.op == "phi" and not i.ty.endswith("*")]:
                    ins = [v for v, b in p.incoming if b not in lp["body"]]
                    backs = [v for v, b in p.incoming if b in lp["body"]]
                    if not ins or not all(is_const(v) and const_val(v) == 0 for v in ins):
                        continue
                    if not backs or not all(L.of(v) == ({("v", p.id): 1}, 1) for v in backs):
                        continue
                    # the continue condition on the edges header -> body
                    for s in hdr.succs:
                        if s not in lp["body"]:
                            continue
                        for f in F.edge_facts(lp["header"], s):
                            if f[0] in ("ult", "ule") and M.match(lenld, f[2], {}) is not None:
                                l = L.of(f[1])
                                if l is not None and l[0] == {("v", p.id): 1}:
                                    scan = (lp, p, l[1] if f[0] == "ult" else l[1] - 1, s)       # i + c <= len  is  i + (c - 1) < len
                    if scan:
                        break
                if scan:
                    break
            rep.check(rid, scan is not None, "scan loop over the lead-in buffer found (index from 0, step 1, continues while i + K < leadin_len)", fn.file, None,
                      function="skip_sfx", obj="loop")
        if scan:
            lp, I, K, body0 = scan
            maxk, nread = -1, 0
            worst = None
            for b in lp["body"]:
                for ins in fn.blocks[b].insts:
                    reads = []
                    if ins.op == "load":
                        reads.append((ins.ops[0], 1))
                    elif ins.op == "call" and imod.callee_cname(ins) in ("memcmp", "bcmp", "strncmp") and len(ins.ops) >= 3:
                        n = const_val(ins.ops[2]) if is_const(ins.ops[2]) else None
                        for a in ins.ops[:2]:
                            reads.append((a, n))
                    elif ins.op == "call" and (ins.callee or "").startswith("llvm.mem") and len(ins.ops) >= 3:
                        continue
                    for a, n in reads:
                        ad = L.addr(a)
                        if ad is None or ad[0] != ("field", STR, "leadin"):
                            continue
                        co, c = ad[1]
                        nread += 1
                        if co != {("v", I.id): 1} or n is None:
                            rep.violation(rid, "a read of the lead-in buffer inside the scan is not at position i + constant", ins.where(), "offset %s, length %s" % (ad[1], n),
                                          function="skip_sfx", obj="read-shape")
                            continue
                        if c + n - 1 > maxk:
                            maxk, worst = c + n - 1, ins
            # every comparison with a marker string covers the whole marker (a shorter length makes look-alike text count as a marker)
            for b in lp["body"]:
                for ins in fn.blocks[b].insts:
                    if ins.op == "call" and imod.callee_cname(ins) in ("memcmp", "bcmp", "strncmp") and len(ins.ops) >= 3:
                        for a in ins.ops[:2]:
                            lit = imod.const_string(M.strip(a, ("bitcast",)))
                            if lit is not None:
                                n = const_val(ins.ops[2]) if is_const(ins.ops[2]) else None
                                full = len(lit.rstrip(b"\0")) if isinstance(lit, (bytes, bytearray)) else None
                                rep.check(rid, n is not None and full is not None and n == full, "marker %r is compared in full (%s of %s bytes)" % (lit, n, full), ins.where(),
                                          None if n == full else "only a prefix (or more than the string) is compared: other text is taken for this self-extractor marker, and the first real header is skipped as a decoy",
                                          function="skip_sfx", obj="marker-len")
            rep.check(rid, nread >= 5 and maxk >= 0 and maxk <= K, "every byte examined at position i lies at most %d after it, and i + %d < leadin_len holds there (%d reads)" % (maxk, K, nread),
                      worst.where() if worst is not None else fn.file,
                      None if (maxk <= K and nread >= 5) else "offset %d is read although only i + %d < leadin_len is known: a byte beyond what the source delivered (left over from an earlier round) decides the match" % (maxk, K),
                      function="skip_sfx", obj="window")

            # ---- R1b discard ------------------------------------------------------------------------------------------------
            rid = rep.rule("R1b", "end of a scan round: bytes dropped = bytes counted = positions tested; on a match the bytes before the matching position are dropped", 5)
            Iatom = {("v", I.id): 1}
            outer = [l for l in fn.loops() if lp["body"] < l["body"]]
            outer = min(outer, key=lambda l: len(l["body"])) if outer else None

            def drops_in(blocks):
                """(store to leadin_len, D) pairs in blocks with stored value = load(leadin_len) - D; memmoves (dst, src, n)"""
                sts, mvs = [], []
                for b in blocks:
                    for ins in fn.blocks[b].insts:
                        if ins.op == "store" and M.match(("field", STR, "leadin_len", ANY), ins.ops[1], {}) is not None:
                            e = M.match(("bin", "sub", lenld, ("bind", "d")), ins.ops[0], {})
                            sts.append((ins, L.of(e["d"]) if e is not None else None))
                        if ins.op == "call" and (ins.callee or "").startswith("llvm.memmove"):
                            mvs.append(ins)
                return sts, mvs
            if outer is not None:
                # blocks between the scan loop's exit and the outer latch
                exits = [s for (b, s) in lp["exits"] if s in outer["body"]]
                seen, work = set(), list(exits)
                while work:
                    x = work.pop()
                    if x in seen or x == outer["header"] or x in lp["body"] or x not in outer["body"]:
                        continue
                    seen.add(x)
                    work.extend(fn.blocks[x].succs)
                sts, mvs = drops_in(seen)
                rep.check(rid, len(sts) == 1 and sts[0][1] == (Iatom, 0), "round end: leadin_len -= i (the number of positions tested)", sts[0][0].where() if sts else fn.file,
                          None if (len(sts) == 1 and sts[0][1] == (Iatom, 0)) else "leadin_len is reduced by %s" % ([s[1] for s in sts],), function="skip_sfx", obj="drop-len")
                okmv = len(mvs) == 1
                if okmv and len(sts) == 1:
                    okmv = all(x_ == sts[0][0].block.id and any(m_.block.id == x_ and m_.idx < sts[0][0].idx for m_ in mvs) or
                               move_always_precedes(fn, F, M, x_, sts[0][0], mvs, lenld) for x_ in exits)
                if okmv:
                    dst, src, n = L.addr(mvs[0].ops[0]), L.addr(mvs[0].ops[1]), L.of(mvs[0].ops[2])
                    okmv = dst == (("field", STR, "leadin"), ({}, 0)) and src == (("field", STR, "leadin"), (Iatom, 0)) and n is not None and \
                        {k: v for k, v in n[0].items() if k != ("v", I.id)} and n[0].get(("v", I.id)) == -1 and n[1] == 0
                rep.check(rid, okmv, "round end: memmove(leadin, leadin + i, leadin_len - i)", mvs[0].where() if mvs else fn.file, None, function="skip_sfx", obj="drop-move")
                # the file position phi of the outer loop advances by i
                okpos = False
                for p in [x for x in fn.blocks[outer["header"]].insts if x.op == "phi" and not x.ty.endswith("*")]:
                    for v, b in p.incoming:
                        if b in outer["body"]:
                            l = L.of(v)
                            if l is not None and l == ({("v", p.id): 1, ("v", I.id): 1}, 0):
                                okpos = True
                rep.check(rid, okpos, "round end: file position += i", fn.file, None, function="skip_sfx", obj="drop-pos")
                # on a match: the exits of the scan loop that leave the outer loop too
                found = [(b, s) for (b, s) in lp["exits"] if s not in outer["body"]]
                nm = 0
                for b, s in found:
                    dom = [x.id for x in fn.blocks if fn.dominates(s, x.id)]
                    sts2, mvs2 = drops_in(dom)
                    if not sts2 and not mvs2:
                        continue
                    nm += 1
                    ok = len(sts2) == 1 and sts2[0][1] == (Iatom, 0) and len(mvs2) == 1 and L.addr(mvs2[0].ops[1]) == (("field", STR, "leadin"), (Iatom, 0))
                    rep.check(rid, ok, "match: exactly the i bytes before the matching position are dropped", fn.blocks[b].term.where(), None, function="skip_sfx", obj="match-drop")
                rep.check(rid, nm >= 1, "the match exit drops the bytes before the header", fn.file, "%d" % nm, function="skip_sfx", obj="match-site")

                # ---- R1c refill -----------------------------------------------------------------------------------------------
                rid = rep.rule("R1c", "refill: the source writes at leadin + leadin_len, at most capacity - leadin_len bytes, and leadin_len grows by the delivered count", 3)
                cap = None
                for t in imod.types.values() if isinstance(imod.types, dict) else []:
                    pass
                calls = [c for b in outer["body"] - lp["body"] for c in fn.blocks[b].insts if c.op == "call" and not c.callee and len(c.ops) >= 3]
                rep.check(rid, len(calls) == 1, "one read from the source per round", fn.file, "%d" % len(calls), function="skip_sfx", obj="refill-calls")
                for c in calls:
                    dst, n = L.addr(c.ops[1]), L.of(c.ops[2])
                    lenatoms = [k for k in (dst[1][0] if dst else {}) if M.match(lenld, k, {}) is not None]
                    okd = dst is not None and dst[0] == ("field", STR, "leadin") and dst[1][1] == 0 and len(dst[1][0]) == 1 and len(lenatoms) == 1
                    rep.check(rid, okd, "destination is leadin + leadin_len", c.where(), None if okd else "%s" % (dst,), function="skip_sfx", obj="refill-dst")
                    # capacity from the array type of the field
                    g = fn.defn(c.ops[1])
                    capn = None
                    for ins in fn.insts():
                        if ins.op == "getelementptr" and field_of_gep(imod, ins) == (STR, "leadin"):
                            import re
                            m = re.match(r"^\[(\d+) x i8\]\*", ins.ty)
                            if m:
                                capn = int(m.group(1))
                    okn = n is not None and capn is not None and n[1] == capn and len(n[0]) == 1 and list(n[0].values()) == [-1] and M.match(lenld, list(n[0])[0], {}) is not None
                    rep.check(rid, okn, "request is capacity (%s) - leadin_len" % capn, c.where(), None if okn else "%s" % (n,), function="skip_sfx", obj="refill-len")
                    grow = [st for b in outer["body"] - lp["body"] for st in fn.blocks[b].insts if st.op == "store" and M.match(("field", STR, "leadin_len", ANY), st.ops[1], {}) is not None
                            and M.match(("bin", "add", lenld, ("bind", "r")), st.ops[0], {}) is not None]
                    okg = len(grow) == 1 and M.strip(M.match(("bin", "add", lenld, ("bind", "r")), grow[0].ops[0], {})["r"]) == ("v", c.id) and \
                        M.find_fact(("sgt", ("inst", c.id), 0), F.at_inst(grow[0]))[0] is not None
                    rep.check(rid, okg, "leadin_len += delivered count, only when it is positive", grow[0].where() if grow else c.where(), None, function="skip_sfx", obj="refill-grow")

        # ---- R2 replay ---------------------------------------------------------------------------------------------------------
        rid = rep.rule("R2", "replay: min(request, leadin_len) buffered bytes go to offset 0 of the caller's buffer and are dropped; the source read continues behind them; success iff filled", 5)
        if fn:
            F, M, L = ctx.facts(fn), Matcher(fn), Lin(fn)
            lenld = ("load", ("field", STR, "leadin_len", ANY))
            cps = [c for c in fn.insts() if c.op == "call" and (c.callee or "").startswith("llvm.memcpy")]
            rep.check(rid, len(cps) == 1, "one copy out of the lead-in buffer", fn.file, "%d" % len(cps), function=fn.cname, obj="copies")
            for c in cps:
                dst, src = L.addr(c.ops[0]), L.addr(c.ops[1])
                rep.check(rid, dst == (("v", fn.params[1].id), ({}, 0)) and src == (("field", STR, "leadin"), ({}, 0)), "memcpy(buf, leadin, n): both from offset 0", c.where(),
                          None, function=fn.cname, obj="copy-ends")
                okn = True
                srcs = F.sources(c.ops[2], through_casts=False)
                kinds = set()
                for s, fs in srcs:
                    allf = set(fs)
                    if M.strip(s) == ("v", fn.params[2].id):
                        kinds.add("request")
                        okn = okn and M.find_fact(("ult", ("param", 2), lenld), allf)[0] is not None
                    elif M.match(lenld, s, {}) is not None:
                        kinds.add("buffered")
                        okn = okn and M.find_fact(("uge", ("param", 2), lenld), allf)[0] is not None
                    else:
                        okn = False
                rep.check(rid, okn and kinds == {"request", "buffered"}, "n = min(buf_len, leadin_len)", c.where(), None if okn else "sources %s" % [describe(fn, s) for s, _ in srcs],
                          function=fn.cname, obj="copy-len")
                nl = L.of(c.ops[2])
                # the drop that follows the copy: in its block, or (a clamp in front of the move puts it a block further on) in a block it dominates
                dr = [st for b_ in fn.blocks if b_.id == c.block.id or fn.dominates(c.block.id, b_.id) for st in b_.insts
                      if st.op == "store" and M.match(("field", STR, "leadin_len", ANY), st.ops[1], {}) is not None and (b_.id != c.block.id or st.idx > c.idx)]
                okd = len(dr) == 1 and (lambda e: e is not None and L.of(e["d"]) == nl)(M.match(("bin", "sub", lenld, ("bind", "d")), dr[0].ops[0], {}))
                rep.check(rid, okd, "the bytes handed out are dropped from the buffer (leadin_len -= n)", c.where(), None, function=fn.cname, obj="copy-drop")
                if okd:
                    mvs_ = [i_ for i_ in fn.insts() if i_.op == "call" and (i_.callee or "").startswith("llvm.memmove") and
                            (i_.block.id == c.block.id and i_.idx > c.idx or (i_.block.id != c.block.id and fn.dominates(c.block.id, i_.block.id)))]
                    okm = move_always_precedes(fn, F, M, c.block.id, dr[0], mvs_, lenld)
                    rep.check(rid, okm, "the bytes left over are moved to the front before the length is updated (on every path, unless nothing is left)", dr[0].where(),
                              None if okm else "the new length can be stored without the move although bytes remain: the next read replays a stale byte", function=fn.cname, obj="copy-move")
            # the source read after the replay: at buf + total for buf_len - total
            calls = [c for c in fn.insts() if c.op == "call" and not c.callee and len(c.ops) >= 3 and (not scan or c.block.id not in (outer["body"] if scan and outer else set()))]
            rep.check(rid, len(calls) == 1, "one read from the source after the replay", fn.file, "%d" % len(calls), function=fn.cname, obj="tail-calls")
            for c in calls:
                dst, n = L.addr(c.ops[1]), L.of(c.ops[2])
                ok = dst is not None and dst[0] == ("v", fn.params[1].id) and dst[1][1] == 0 and len(dst[1][0]) == 1 and n is not None and n[1] == 0 and \
                    n[0].get(("v", fn.params[2].id)) == 1 and len(n[0]) == 2 and n[0].get(list(dst[1][0])[0]) == -1
                rep.check(rid, ok, "source read goes to buf + total for buf_len - total bytes", c.where(), None if ok else "dst %s len %s" % (dst, n), function=fn.cname, obj="tail-read")
            # success iff total == buf_len
            okr = False
            for r in rets(fn):
                for s, fs in F.sources(r.ops[0]):
                    d = fn.defn(M.strip(s, ("zext", "sext", "bitcast")))
                    if d is not None and not d.is_param and d.op == "icmp" and d.pred == "eq" and M.strip(d.ops[1]) == ("v", fn.params[2].id):
                        okr = True
            rep.check(rid, okr, "the call reports success iff the count handed out equals the request", fn.file, None, function=fn.cname, obj="verdict")

        # ---- R3 skip -----------------------------------------------------------------------------------------------------------
        rid = rep.rule("R3", "skip: the read-based skip subtracts what was delivered and asks for at most what remains; the FILE* skip seeks by the requested count from the current position, "
                             "its fallback reads min(remaining, buffer) and subtracts the count it required", 4)
        sk = rep.need(rid, imod.fn("lha_input_stream_skip"), "function lha_input_stream_skip")
        plain = ctx.plain()

        def skip_loop(f, reader, what):
            """loop `while (bytes > 0) { len = min(bytes, cap); r = read(.., len); fail unless enough; bytes -= k; }`"""
            F, M, L = ctx.facts(f), Matcher(f), Lin(f)
            ok = False
            for lp in f.loops():
                hdr = f.blocks[lp["header"]]
                for p in [i for i in hdr.insts if i.op == "phi" and not i.ty.endswith("*")]:
                    calls = [c for b in lp["body"] for c in f.blocks[b].insts if c.op == "call" and reader(f, c)]
                    if len(calls) != 1:
                        continue
                    c = calls[0]
                    for v, b in p.incoming:
                        if b not in lp["body"]:
                            continue
                        l = L.of(v)
                        if l is None or l[0].get(("v", p.id)) != 1 or l[1] != 0 or len(l[0]) != 2:
                            continue
                        other = [k for k in l[0] if k != ("v", p.id)][0]
                        if l[0][other] != -1:
                            continue
                        fs = F.on_edge(b, lp["header"])
                        req = c.ops[2] if not c.callee else c.ops[2 if f.mod.callee_cname(c) == "fread" else 2]
                        # what is subtracted: the delivered count (under delivered > 0), or the requested count under delivered == requested
                        sub_is_result = M.strip(other) == ("v", c.id) and any(fc[0] in ("sgt",) and M.strip(fc[1]) == ("v", c.id) and is_const(fc[2]) and const_val(fc[2]) == 0 for fc in fs)
                        sub_is_request = L.of(other) == L.of(req) and any(fc[0] == "eq" and {M.strip(fc[1]), M.strip(fc[2]) if not is_const(fc[2]) else None} >= {("v", c.id)} for fc in fs)
                        # the request never exceeds what remains: sources of the request are the remaining count or a constant under remaining > constant
                        okreq = True
                        for s, fs2 in F.sources(req, stop=(p.id,)):
                            if is_const(s):
                                okreq = okreq and any(fc[0] == "ugt" and M.strip(fc[1]) == ("v", p.id) and is_const(fc[2]) and const_val(fc[2]) == const_val(s) for fc in fs2)
                            else:
                                okreq = okreq and L.of(s) == ({("v", p.id): 1}, 0)
                        # leaves with success only at zero
                        zero_exit = any(any(fc[0] in ("ule", "eq") and M.strip(fc[1]) == ("v", p.id) and is_const(fc[2]) and const_val(fc[2]) == 0 for fc in F.edge_facts(eb, es)) for (eb, es) in lp["exits"])
                        if (sub_is_result or sub_is_request) and okreq and zero_exit:
                            ok = True
            rep.check(rid, ok, "%s: remaining -= count consumed, request <= remaining, success only at 0" % what, f.file, None, function=f.cname, obj="loop-%s" % what)

        if sk:
            skip_loop(sk, lambda f, c: not c.callee and len(c.ops) >= 3, "read-based skip")
        fs_ = rep.need(rid, plain.fn("file_source_skip"), "function file_source_skip")
        if fs_:
            M = Matcher(fs_)
            seeks = [c for c in fs_.insts() if c.op == "call" and plain.callee_cname(c) in ("fseek", "fseeko", "fseeko64")]
            from ..rules import min_width_through_casts
            ok = len(seeks) == 1 and M.strip(seeks[0].ops[1]) == ("v", fs_.params[1].id) and is_const(seeks[0].ops[2]) and const_val(seeks[0].ops[2]) == 1
            # ... at the width of the offset parameter of the seek call (a detour through a narrower type turns counts >= 2^31 into a backward seek,
            # which a pipe - reading forward - does not imitate)
            wide = ok and (min_width_through_casts(fs_, seeks[0].ops[1])[0] or 0) >= (plain.int_bits(fs_.defn(seeks[0].ops[1]).ty) if fs_.defn(seeks[0].ops[1]) is not None else 64)
            rep.check(rid, ok and wide, "file_source_skip seeks by exactly `bytes` from the current position (SEEK_CUR), without narrowing the count", fs_.file,
                      None if (ok and wide) else ("the count passes through a narrower integer type on its way to fseek" if ok else None), function=fs_.cname, obj="seek")
        fb = [f for f in plain.defined() if f.cname in ("file_source_skip_fallback", "file_source_skip") and any(plain.callee_cname(c) == "fread" for c in f.insts() if c.op == "call")]
        rep.check(rid, len(fb) >= 1, "fread-based fallback found", "lib/lha_input_stream.c", None, function="file_source_skip_fallback", obj="site")
        for f in fb[:1]:
            skip_loop(f, lambda f_, c: f_.mod.callee_cname(c) == "fread", "fread fallback")

        # ---- R4 stdin -----------------------------------------------------------------------------------------------------------
        rid = rep.rule("R4", "the tool opens \"-\" as standard input, and every other archive name with a read-only fopen", 2)
        dc = rep.need(rid, plain.fn("do_command"), "function do_command")
        if dc:
            F, M = ctx.facts(dc), Matcher(dc)
            cs = list(dc.calls("lha_input_stream_from_FILE"))
            rep.check(rid, len(cs) >= 1, "do_command builds the stream from a FILE*", dc.file, None, function=dc.cname, obj="site")
            dash = ("eq", ("call", "strcmp", [ANY, ("str", b"-")]), 0)
            for c in cs:
                kinds = set()
                ok = True
                for s, fs in F.sources(c.ops[0]):
                    d = dc.defn(M.strip(s, ("bitcast",)))
                    if d is not None and not d.is_param and d.op == "load" and d.ops[0][0] == "gv" and "stdin" in str(d.ops[0][1]):
                        kinds.add("stdin")
                        ok = ok and M.find_fact(dash, set(fs) | set(F.at_inst(c)))[0] is not None
                    elif d is not None and not d.is_param and d.op == "call" and plain.callee_cname(d) in ("fopen", "fopen64"):
                        kinds.add("fopen")
                        ok = ok and M.find_fact(("ne", dash[1], 0), set(fs) | set(F.at_inst(c)))[0] is not None
                    else:
                        ok = False
                rep.check(rid, ok and kinds == {"stdin", "fopen"}, "stream source is stdin exactly for the name \"-\", else fopen(name)", c.where(), "%s" % sorted(kinds), function=dc.cname, obj="source")
    return rep.finish(seed)
